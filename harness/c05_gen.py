"""Generators for C05: TLS record streams, TCP segment schedules, frames, and a small independent
TLS 1.2 / TLS 1.3 AES-128-GCM *sender* (RFC 5246 §6.2.3.3, RFC 8446 §5.2) for the end-to-end oracle.
Nothing here imports tlexport.  All randomness comes from the `rng` passed in.
"""
import hashlib
import hmac
import struct

W = 1 << 32
CIP, SIP, CPORT, SPORT = bytes([10, 0, 0, 1]), bytes([10, 0, 0, 2]), 40000, 443
CMAC, SMAC = b"\x02\0\0\0\0\x01", b"\x02\0\0\0\0\x02"


# ----------------------------------------------------------------------------- framing (oracle side)
def frame(stream):
    """RFC 5246 §6.2.1 record framing of a byte stream: (whole records, unfinished tail)."""
    out, i, n = [], 0, len(stream)
    while n - i >= 5:
        ln = 5 + ((stream[i + 3] << 8) | stream[i + 4])
        if i + ln > n:
            break
        out.append(bytes(stream[i:i + ln]))
        i += ln
    return out, bytes(stream[i:])


def rec(t, ver, body):
    return bytes([t]) + ver + struct.pack(">H", len(body)) + body


# ----------------------------------------------------------------------------- frames
def eth_frame(from_server, seq, ack, data, flags=0x18):
    """Ethernet II / IPv4 / TCP frame (no options; valid IPv4 and TCP checksums)."""
    src, dst = (SIP, CIP) if from_server else (CIP, SIP)
    sp, dp = (SPORT, CPORT) if from_server else (CPORT, SPORT)
    smac, dmac = (SMAC, CMAC) if from_server else (CMAC, SMAC)
    tcp = struct.pack(">HHIIBBHHH", sp, dp, seq & 0xFFFFFFFF, ack & 0xFFFFFFFF, 5 << 4, flags, 8192, 0, 0) + data
    tcp = tcp[:16] + struct.pack(">H", _csum(src + dst + struct.pack(">BBH", 0, 6, len(tcp)) + tcp)) + tcp[18:]
    ip = struct.pack(">BBHHHBBH4s4s", 0x45, 0, 20 + len(tcp), 1, 0, 64, 6, 0, src, dst)
    ip = ip[:10] + struct.pack(">H", _csum(ip)) + ip[12:]
    return dmac + smac + b"\x08\x00" + ip + tcp


def _csum(b):
    """RFC 1071 checksum (valid checksums, so that the captures can also be exported with -c)"""
    if len(b) % 2:
        b += b"\0"
    s = sum(struct.unpack(">%dH" % (len(b) // 2), b))
    while s >> 16:
        s = (s & 0xFFFF) + (s >> 16)
    return ~s & 0xFFFF


# ----------------------------------------------------------------------------- cases
def rand_record(rng, maxbody=40):
    t = rng.choice((20, 21, 22, 23, 23, 23))
    r = rng.random()
    n = 0 if r < 0.08 else 1 if r < 0.16 else rng.randrange(0, maxbody) if r < 0.95 else rng.randrange(200, 700)
    return rec(t, b"\x03\x03", rng.randbytes(n))


def rand_cuts(rng, total, style, bounds=()):
    """Cut offsets strictly inside (0, total); `bounds` are the record boundaries of the flight."""
    if total <= 1:
        return []
    if style == "bytes":          # every byte its own segment
        return list(range(1, total))
    if style == "one":            # the whole flight in one segment
        return []
    if style == "records":        # one record per segment
        return list(bounds)
    if style == "recsubset":      # whole records, several per segment
        return [b for b in bounds if rng.random() < 0.6]
    if style == "recplus":        # record boundaries plus a few cuts inside records
        return sorted(set(bounds) | {i for i in range(1, total) if rng.random() < 0.04})
    p = {"dense": 0.45, "sparse": 0.06, "mid": 0.18}[style]
    return [i for i in range(1, total) if rng.random() < p]


def flight_bytes(fl):
    return b"".join(bytes.fromhex(r) for r in fl["recs"])


def record_bounds(fl):
    out, o = [], 0
    for r in fl["recs"][:-1]:
        o += len(r) // 2
        out.append(o)
    return out


def build(case, drop=()):
    """Case → capture-order list of segments (dir, id, offset, seq, data).
    `drop` switches generator dimensions off (for shrinking): cut, dup, reorder, wrap."""
    isn = dict(case["isn"])
    if "wrap" in drop:
        isn = {"c": 1000, "s": 5000}
    off = {"c": 0, "s": 0}
    nid = 0
    per_flight = []
    for fl in case["flights"]:
        data = flight_bytes(fl)
        cuts = record_bounds(fl) if "cut" in drop else fl["cuts"]
        segs, prev = [], 0
        for c in list(cuts) + [len(data)]:
            if c > prev:
                d = fl["dir"]
                segs.append([d, nid, off[d], (isn[d] + off[d]) % W, data[prev:c]])
                off[d] += c - prev
                nid += 1
                prev = c
        per_flight.append(segs)
    if "reorder" not in drop:
        for (f, i, j) in case.get("moves", []):
            if f < len(per_flight) and i < len(per_flight[f]) and j < len(per_flight[f]):
                x = per_flight[f].pop(i)
                per_flight[f].insert(j, x)
    flat = [s for segs in per_flight for s in segs]
    if "dup" not in drop:
        for k, (src, delta) in enumerate(case.get("dups", [])):
            if src < len(flat):
                s = flat[src]
                flat.insert(min(len(flat), src + 1 + delta), [s[0], 100000 + k, s[2], s[3], s[4]])
        # repacketised retransmissions: a later segment that starts at the sequence number of segment `src` and carries
        # its bytes followed by those of the next segment of the direction (captured after both: it brings nothing new)
        for k, (src, delta) in enumerate(case.get("repacks", [])):
            if src < len(flat):
                s = flat[src]
                nxt = next((q for q in flat[src + 1:] if q[0] == s[0] and q[2] == s[2] + len(s[4]) and q[1] < 100000), None)
                if nxt is not None and s[1] < 100000:
                    pos = flat.index(nxt) + 1 + delta
                    flat.insert(min(len(flat), pos), [s[0], 200000 + k, s[2], s[3], s[4] + nxt[4]])
    return flat


def streams(case):
    out = {"c": b"", "s": b""}
    for fl in case["flights"]:
        out[fl["dir"]] += flight_bytes(fl)
    return out


def features(case):
    """Generator dimensions in which the schedule differs from one-record-per-segment, in order, once."""
    f = set()
    if any(sorted(fl["cuts"]) != record_bounds(fl) for fl in case["flights"]):
        f.add("cut")
    if case.get("dups"):
        f.add("dup")
    if any(i != j for (_, i, j) in case.get("moves", [])):
        f.add("reorder")
    st = streams(case)
    if any(case["isn"][d] + len(st[d]) > W for d in "cs"):
        f.add("wrap")
    return f


def first_flights(case):
    seen, out = set(), set()
    for k, fl in enumerate(case["flights"]):
        if fl["dir"] not in seen and flight_bytes(fl):
            seen.add(fl["dir"])
            out.add(k)
    return out


def moves_first_segment(case):
    ff = first_flights(case)
    return any(f in ff and (i == 0 or j == 0) and i != j for (f, i, j) in case.get("moves", []))


def rand_case(rng, wrap=None, dups=True, moves=True, first_move=False, nflights=None, maxdisp=3):
    nfl = nflights or rng.randrange(1, 6)
    d = rng.choice("cs")
    flights = []
    for _ in range(nfl):
        recs = [rand_record(rng) for _ in range(rng.randrange(1, 5))]
        fl = {"dir": d, "recs": [r.hex() for r in recs], "cuts": []}
        total = len(flight_bytes(fl))
        style = rng.choice(("dense", "sparse", "mid", "bytes" if total < 60 else "mid", "one", "records", "records",
                            "recsubset", "recplus"))
        fl["cuts"] = rand_cuts(rng, total, style, record_bounds(fl))
        flights.append(fl)
        d = "s" if d == "c" else "c"
    case = {"flights": flights, "isn": {}, "moves": [], "dups": []}
    st = streams(case)
    for dd in "cs":
        n = len(st[dd])
        if wrap is None:
            w = rng.random() < 0.4
        else:
            w = wrap
        if w and n >= 2:
            case["isn"][dd] = W - rng.randrange(1, n)          # the wrap falls inside the stream
        else:
            case["isn"][dd] = rng.choice((0, 1, 1000, 5000, rng.randrange(0, W - n - 1), W - n - 1 if n < W else 0))
    sizes = [len(fl["cuts"]) + 1 for fl in flights]
    ff = first_flights(case)
    if moves:
        for _ in range(rng.randrange(0, 4)):
            f = rng.randrange(nfl)
            lo = 1 if f in ff else 0          # the first data segment of a direction stays first
            if sizes[f] - lo >= 2:
                i = rng.randrange(lo, sizes[f])
                j = max(lo, min(sizes[f] - 1, i + rng.choice((-1, 1)) * rng.randrange(1, maxdisp + 1)))
                if i != j:
                    case["moves"].append([f, i, j])
    if first_move:
        f = rng.choice(sorted(ff))
        if sizes[f] >= 2:
            j = rng.randrange(1, min(sizes[f], maxdisp + 1))
            case["moves"].insert(0, [f, 0, j])
    if dups:
        total = sum(sizes)
        for _ in range(rng.choice((0, 0, 1, 2, 3))):
            case["dups"].append([rng.randrange(total), rng.randrange(0, 6)])
        for _ in range(rng.choice((0, 0, 0, 1, 2))):
            case["repacks"] = case.get("repacks", []) + [[rng.randrange(total), rng.randrange(0, 4)]]
    return case


def far_dup_case(rng):
    """As late_dup_case, but the duplicate is captured more than 300 new segments of its direction after the original
    (a retransmission seen again after hundreds of 1–3-byte segments: no bounded memory of sequence numbers suffices)."""
    d = rng.choice("cs")
    recs = [rec(rng.choice((22, 23)), b"\x03\x03", rng.randbytes(rng.randrange(120, 220))) for _ in range(rng.randrange(6, 9))]
    fl = {"dir": d, "recs": [r.hex() for r in recs], "cuts": []}
    total = len(flight_bytes(fl))
    step = rng.choice((1, 2, 2, 3))
    fl["cuts"] = list(range(step, total, step))
    other = {"dir": "s" if d == "c" else "c", "recs": [rand_record(rng).hex()], "cuts": []}
    case = {"flights": [fl, other], "isn": {"c": rng.choice((1000, W - 200)), "s": rng.choice((5000, W - 300))},
            "moves": [], "dups": []}
    nseg = len(fl["cuts"]) + 1
    for _ in range(rng.randrange(1, 3)):
        src = rng.randrange(0, max(1, nseg - 320))
        case["dups"].append([src, rng.randrange(300, max(301, nseg - src - 1))])
    return case


def late_dup_case(rng):
    """A long flight in many small segments with exact duplicates captured MUCH later (≥ 64 further new segments of
    the same direction in between): retransmissions seen again long after the original."""
    d = rng.choice("cs")
    recs = [rec(rng.choice((22, 23)), b"\x03\x03", rng.randbytes(rng.randrange(60, 200))) for _ in range(rng.randrange(5, 9))]
    fl = {"dir": d, "recs": [r.hex() for r in recs], "cuts": []}
    total = len(flight_bytes(fl))
    step = rng.choice((3, 4, 5, 8))
    fl["cuts"] = list(range(step, total, step))
    other = {"dir": "s" if d == "c" else "c", "recs": [rand_record(rng).hex()], "cuts": []}
    case = {"flights": [fl, other], "isn": {"c": rng.choice((1000, W - 200)), "s": rng.choice((5000, W - 300))},
            "moves": [], "dups": []}
    nseg = len(fl["cuts"]) + 1
    for _ in range(rng.randrange(1, 4)):
        src = rng.randrange(0, max(1, nseg - 70))
        case["dups"].append([src, rng.randrange(64, max(65, nseg - src - 1))])
    return case


# ----------------------------------------------------------------------------- independent TLS sender
def prf12(secret, label, seed, n):
    seed = label + seed
    a, out = seed, b""
    while len(out) < n:
        a = hmac.new(secret, a, hashlib.sha256).digest()
        out += hmac.new(secret, a + seed, hashlib.sha256).digest()
    return out[:n]


def hkdf_expand_label(secret, label, n):
    info = struct.pack(">H", n) + bytes([6 + len(label)]) + b"tls13 " + label + b"\x00"
    out, t, i = b"", b"", 1
    while len(out) < n:
        t = hmac.new(secret, t + info + bytes([i]), hashlib.sha256).digest()
        out += t
        i += 1
    return out[:n]


def hs(t, body):
    return bytes([t]) + len(body).to_bytes(3, "big") + body


def client_hello(cr, suites):
    b = b"\x03\x03" + cr + b"\x00" + struct.pack(">H", len(suites)) + suites + b"\x01\x00" + b"\x00\x00"
    return hs(1, b)


def server_hello(sr, suite, sid=b"", ext=b""):
    b = b"\x03\x03" + sr + bytes([len(sid)]) + sid + suite + b"\x00" + struct.pack(">H", len(ext)) + ext
    return hs(2, b)


def tls12_gcm(rng, app):
    """Messages [(from_server, bytes of whole records)], key log text."""
    from cryptography.hazmat.primitives.ciphers.aead import AESGCM
    cr, sr, ms = rng.randbytes(32), rng.randbytes(32), rng.randbytes(48)
    kb = prf12(ms, b"key expansion", sr + cr, 40)
    ck, sk, civ, siv = kb[:16], kb[16:32], kb[32:36], kb[36:40]
    seq = {0: 0, 1: 0}

    def enc(srv, t, pt):
        k, iv = (sk, siv) if srv else (ck, civ)
        n = seq[srv]
        seq[srv] += 1
        exp = rng.randbytes(8)
        aad = struct.pack(">Q", n) + bytes([t]) + b"\x03\x03" + struct.pack(">H", len(pt))
        return rec(t, b"\x03\x03", exp + AESGCM(k).encrypt(iv + exp, pt, aad))

    msgs = [(0, rec(22, b"\x03\x01", client_hello(cr, b"\x00\x9c"))),
            (1, rec(22, b"\x03\x03", server_hello(sr, b"\x00\x9c")) + rec(22, b"\x03\x03", hs(11, rng.randbytes(300)))
             + rec(22, b"\x03\x03", hs(14, b""))),
            (0, rec(22, b"\x03\x03", hs(16, rng.randbytes(64))) + rec(20, b"\x03\x03", b"\x01")
             + enc(0, 22, hs(20, rng.randbytes(12)))),
            (1, rec(20, b"\x03\x03", b"\x01") + enc(1, 22, hs(20, rng.randbytes(12))))]
    for d, pt in app:
        msgs.append((d, enc(d, 23, pt)))
    return msgs, f"CLIENT_RANDOM {cr.hex()} {ms.hex()}\n"


def tls13_gcm(rng, app):
    from cryptography.hazmat.primitives.ciphers.aead import AESGCM
    cr, sr = rng.randbytes(32), rng.randbytes(32)
    sec = {k: rng.randbytes(32) for k in ("chs", "shs", "cap", "sap")}
    keys = {k: (hkdf_expand_label(v, b"key", 16), hkdf_expand_label(v, b"iv", 12)) for k, v in sec.items()}
    seq = {}

    def enc(srv, epoch, inner_type, pt):
        name = ("s" if srv else "c") + epoch
        k, iv = keys[name]
        n = seq.get(name, 0)
        seq[name] = n + 1
        inner = pt + bytes([inner_type])
        nonce = bytes(a ^ b for a, b in zip(iv, b"\0\0\0\0" + struct.pack(">Q", n)))
        hdr = b"\x17\x03\x03" + struct.pack(">H", len(inner) + 16)
        return hdr + AESGCM(k).encrypt(nonce, inner, hdr)

    ext13 = b"\x00\x2b\x00\x02\x03\x04"
    msgs = [(0, rec(22, b"\x03\x01", client_hello(cr, b"\x13\x01"))),
            (1, rec(22, b"\x03\x03", server_hello(sr, b"\x13\x01", sid=rng.randbytes(32), ext=ext13))
             + rec(20, b"\x03\x03", b"\x01")
             + enc(1, "hs", 22, hs(8, b"\0\0") + hs(11, rng.randbytes(280)))
             + enc(1, "hs", 22, hs(15, rng.randbytes(70)) + hs(20, rng.randbytes(32)))),
            (0, rec(20, b"\x03\x03", b"\x01") + enc(0, "hs", 22, hs(20, rng.randbytes(32)))),
            (1, enc(1, "ap", 22, hs(4, rng.randbytes(40))))]
    for d, pt in app:
        msgs.append((d, enc(d, "ap", 23, pt)))
    kl = (f"CLIENT_HANDSHAKE_TRAFFIC_SECRET {cr.hex()} {sec['chs'].hex()}\n"
          f"SERVER_HANDSHAKE_TRAFFIC_SECRET {cr.hex()} {sec['shs'].hex()}\n"
          f"CLIENT_TRAFFIC_SECRET_0 {cr.hex()} {sec['cap'].hex()}\n"
          f"SERVER_TRAFFIC_SECRET_0 {cr.hex()} {sec['sap'].hex()}\n")
    return msgs, kl


def rand_app(rng):
    app = []
    for _ in range(rng.randrange(3, 8)):
        d = rng.randrange(2)
        for _ in range(rng.randrange(1, 4)):       # several records in one flight
            n = rng.choice((1, 2, 17, 100, 300, rng.randrange(1, 1500)))
            app.append((d, rng.randbytes(n)))
    if not any(d == 0 for d, _ in app):
        app.append((0, b"ping"))
    if not any(d == 1 for d, _ in app):
        app.append((1, b"pong"))
    return app


def msgs_to_flights(msgs):
    """Consecutive messages of one direction form a flight; its records are the TLS records."""
    flights = []
    for srv, data in msgs:
        d = "s" if srv else "c"
        recs, tail = frame(data)
        assert not tail
        if flights and flights[-1]["dir"] == d:
            flights[-1]["recs"] += [r.hex() for r in recs]
        else:
            flights.append({"dir": d, "recs": [r.hex() for r in recs], "cuts": []})
    for fl in flights:
        fl["cuts"] = record_bounds(fl)
    return flights


def write_pcapng(path, frames):
    """Minimal little-endian pcapng: SHB, IDB (Ethernet, µs), one EPB per frame."""
    def block(t, body):
        pad = (-len(body)) % 4
        ln = 12 + len(body) + pad
        return struct.pack("<II", t, ln) + body + b"\0" * pad + struct.pack("<I", ln)
    with open(path, "wb") as f:
        f.write(block(0x0A0D0D0A, struct.pack("<IHHq", 0x1A2B3C4D, 1, 0, -1)))
        f.write(block(1, struct.pack("<HHI", 1, 0, 65535)))
        for ts, b in frames:
            us = int(round(ts * 1e6))
            f.write(block(6, struct.pack("<IIIII", 0, us >> 32, us & 0xFFFFFFFF, len(b), len(b)) + b))
