"""Theorems of lean/TLX/Props/C01All.lean (+ C01AllEx.lean): C01 from file to file, everything combined — any options
(-a -c -m -p), IPv4 / IPv6 with extension headers, TCP delivery of C05's whole domain (cuts, duplicates, displaced segments, any
ISN), TLS 1.3 handshake messages fragmented anywhere, causality from the packet order, any other traffic in the capture,
hypotheses in RFC terms."""
MODULES = ["TLX.Lemmas.C01All", "TLX.Props.C01All", "TLX.Props.C01AllEx"]
_NS = "TLX.Props.C01All."
_LM = "TLX.Lemmas.C01All."
THEOREMS = [_NS + n for n in [
    "tls13_capture_exact_all",
    "tls12_capture_exact_all",
    "tls13_capture_exact_all_of_release",
    "tls12_capture_exact_all_of_release",
    "tls13_capture_exact_all_or_abort",     # no hypothesis about the write loop / the other traffic
    "tls12_capture_exact_all_or_abort",
    "tls13_connection_all",
    "tls12_connection_all",
    "capture_exact_glue_or_abort",
    # non-vacuity: one capture with everything at once
    "Ex.tls13_all_instance",
    "Ex.wiresAll", "Ex.flightsAll", "Ex.othersAll", "Ex.describedAll",
]] + [_LM + n for n in [
    "stepFm", "run_mergeFm",                                         # fragmented TLS 1.3, either -a
    "tls13_fragmented_of_release", "tls13_fragmented_meta_of_release", "tls12_meta_of_release",
    "dirSegs_capSegs", "delivered_of_wires", "wiresDelivered_of_inOrder", "noEarly_of_first",
    "firstFlights_of_capture",                                       # packet order => release order
    "conv_fits",
]]
