"""Theorems of lean/TLX/Spec/RfcQuic.lean, lean/TLX/Props/C02Rfc.lean (+ instance in C02RfcEx.lean): C02 from file to file
with every hypothesis in RFC / file terms (`QuicCaptureRfc`): the suite by its IANA denotation, the key log as the TEXT of the
file, the senders relative to their own bookkeeping; the tool-side hypotheses of C02File.QuicCapture are derived."""
MODULES = ["TLX.Spec.RfcQuic", "TLX.Props.C02Rfc", "TLX.Props.C02RfcEx"]
_S = "TLX.Spec.RfcQuic."
_P = "TLX.Props.C02Rfc."
THEOREMS = [_S + n for n in ["quicSuite_table", "quicSuite_ccm8"]] + [_P + n for n in [
    "quic_capture_exact_rfc", "quic_capture_rfc_ranges", "capture_of_rfc", "blockOf_rfc",
    "selectSuite_rfc", "selectSuite_tls13", "quicSuite_exists",
    "quicSessionKeys_fileText", "quicSecrets_lines", "lastOf_linesQ", "lastOf_linesQ_none", "keylogHas_text",
    "phase_run", "steps_keep", "steps_append", "steps_length", "feed_flight_cs", "parser_facts",
    "prefix_cases", "chacha_of_sel", "keyed_sync", "chacha_sync", "sync_step", "pkOk_of_rfc", "pks_of_rfc", "dgs_of_rfc",
    "hsItems_dgs", "oneItems_dgs", "hsItems_pre",
    "Ex.text0", "Ex.ls0_wf", "Ex.hsDgsR0", "Ex.send1R0", "Ex.routesR0", "Ex.captureR0", "Ex.blockR0", "Ex.quic_rfc_instance",
]]
