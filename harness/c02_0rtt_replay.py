"""0-RTT on the REAL tool: which 0-RTT STREAM data does tlexport export?

What the code does (quic_tls_parser.py l. 89-100, quic_session.py set_tls_decryptors / decrypt_packet):
  * a complete ClientHello sets `tls_session.ciphersuite` to the FIRST OFFERED suite ("For early data") and `new_data`;
    `set_tls_decryptors` then derives ALL keys of the key log — also the "Early" decryptor from
    CLIENT_EARLY_TRAFFIC_SECRET — with that suite's hash / key length / cipher;
  * the ServerHello replaces `ciphersuite` by the selected suite and everything is derived again with it;
  * a 0-RTT packet met while `decryptors["Early"]` does not exist (KeyError) or does not fit (InvalidTag) is dropped for
    good: nothing is buffered and retried.
RFC 9001 §4.6.1 / RFC 8446 §4.2.10-11: 0-RTT is protected with the suite of the RESUMED session (the PSK's), which may stand
anywhere in the ClientHello's list; 0-RTT packets are sent from the first flight on, coalesced with the Initial or alone,
and a ClientHello may need more than one Initial packet.

Cases (independent sender gen_quic, REAL cryptography first, then the toy world of quic_pipeline_corr against the model):
  A  control: resumed suite = first offered = selected; Initial(CH) then 0-RTT in the same datagram        -> exported
  B  resumed suite = selected suite 0x1301, but the ClientHello lists 0x1303 first; 0-RTT in the first flight
     (before the ServerHello)                                                                             -> ?
  C  as B, and one more 0-RTT packet captured AFTER the ServerHello                                       -> ?
  D  resumed = first offered = selected, ClientHello cut over two Initial datagrams, the 0-RTT packet coalesced with the
     FIRST of them (before the ClientHello is complete)                                                    -> ?
  E  as B, followed by five more 1-RTT requests of the client                                              -> ?

OBSERVED (real cryptography, tool unmodified; `main()` asserts it, choosing the expectation by whether the tree under test
has `QuicSession.set_largest_packet_number`, i.e. the repair "only an authenticated QUIC packet moves the largest packet
number of its space"):
  A  everything exported.
  D  the 0-RTT data is lost (KeyError on decryptors["Early"]: the packet is dropped, nothing else happens).
  B, C, E on the REPAIRED tree: only EARLY-1 is lost (Early keys of the first offered suite: AEAD failure, the session is
     left as it was — Props.C02Capstone3.zero_rtt_rejected_leaves_session, ExZr.late_survives); EARLY-2 of C, captured
     after the ServerHello, is decrypted with the re-derived keys; LATE and the five requests of E are exported.
  B, C, E BEFORE the repair: the 0-RTT data is lost AND EVERY LATER 1-RTT PACKET OF THE CLIENT IS LOST TOO (also the 0-RTT packet after the
     ServerHello in C): the "Early" decryptor and the early header-protection key exist — derived with the first offered
     suite — so the dissector removes header protection with the wrong key/primitive, reads a garbage packet number (up to
     four bytes), and `get_full_packet_number` stores it as the largest packet number of the client's application space
     BEFORE the AEAD check fails (0-RTT and 1-RTT share that space, RFC 9000 §12.3). Every genuine packet number of the
     client is then reconstructed next to that garbage value: wrong nonce, InvalidTag, dropped.

Standalone:  PYTHONPATH=/repo:harness python harness/c02_0rtt_replay.py
"""
import random
import struct

import fw
import gen_quic as G
import quic_pipeline_corr as qp
import tool
import wire


def build(case, seed=7):
    rng = random.Random(seed)
    case0, case = case, ("B" if case == "E" else case)
    offer = [0x1301, 0x1303] if case in "AD" else [0x1303, 0x1301]
    c = G.QConn(rng, suite=0x1301, offer=offer, scid_c_len=4, scid_s_len=4, early=True)
    klen, h, kind = G.SUITES[0x1301]                           # the resumed session's suite
    c.early_sec = rng.randbytes(h().digest_size)
    c.early = G.Keys(c.early_sec, klen, h, kind)
    ch = G.client_hello(c.cr, b"".join(struct.pack(">H", s) for s in c.offer), rng,
                        extra=G.ext(0x2A, b""))                # early_data extension
    c.cur_dcid_c = c.dcid0
    z = lambda data, off=0: G.f_stream(0, off, data)
    if case == "D":
        cut = len(ch) // 2
        c.q_initial(0, G.f_crypto(0, ch[:cut]), pad_to=600)
        c.q_0rtt(z(b"EARLY-1"))
        c.flush(0, b"EARLY-1")
        c.q_initial(0, G.f_crypto(cut, ch[cut:]), pad_to=1162)
        c.flush(0)
    else:
        c.q_initial(0, G.f_crypto(0, ch), pad_to=600)
        c.q_0rtt(z(b"EARLY-1"))
        c.flush(0, b"EARLY-1")
    c.dcid_for_client = c.scid_s
    sh = G.server_hello(rng.randbytes(32), struct.pack(">H", c.suite), rng)
    c.q_initial(1, G.f_ack(c.pn["ci"] - 1) + G.f_crypto(0, sh))
    ee = G.hs(8, b"\0\0") + G.hs(11, rng.randbytes(40)) + G.hs(15, rng.randbytes(20)) + G.hs(20, rng.randbytes(32))
    c.q_handshake(1, G.f_crypto(0, ee))
    c.flush(1)
    if case == "C":
        c.q_0rtt(z(b"EARLY-2", off=7))
        c.flush(0, b"EARLY-2")
    c.q_handshake(0, G.f_crypto(0, G.hs(20, rng.randbytes(32))))
    c.flush(0)
    c.q_1rtt(0, G.f_stream(0, 14, b"LATE", fin=True) + b"\0\0\0")
    c.flush(0, b"LATE")
    c.q_1rtt(1, G.f_stream(0, 0, b"REPLY") + b"\0\0\0")
    c.flush(1, b"REPLY")
    if case0 == "E":
        for i in range(5):
            d = b"REQ%d" % i
            c.q_1rtt(0, G.f_stream(4, 4 * i, d) + b"\0\0\0")
            c.flush(0, d)
    return c


def run_case(case, ctx=None):
    c = build(case)
    cap = wire.pcapng(c.items)
    kl = "\n".join(c.keylog_lines()) + "\n"
    r = tool.run(cap, kl, [])
    assert not r.crashed, (case, r.exc, r.where)
    got = [(us, p["sport"] == 443, p["payload"]) for us, p in wire.read_output(r.out)]
    want = [(t, srv, data) for t, srv, data in c.expect]
    same_model = None
    if ctx is not None:
        m = ctx.driver("pipeline", ["reset", "opt 0 0 0 - -", f"runfile 0 {kl.encode().hex()} {cap.hex()}"], timeout=600)
        same_model = m[2] == "file:" + (r.out.hex() if r.out else "-")
    return want, got, same_model


# the tree BEFORE the repair "only an authenticated QUIC packet moves the largest packet number of its space"
EXPECT_REAL_OLD = {"A": [b"EARLY-1", b"LATE", b"REPLY"], "B": [b"REPLY"], "C": [b"REPLY"], "D": [b"LATE", b"REPLY"],
                   "E": [b"REPLY"]}
# the repaired tree (QuicSession.set_largest_packet_number exists): only the 0-RTT packet met before fitting Early keys
# exist is lost; the 0-RTT packet after the ServerHello (C) is decrypted with the re-derived keys
EXPECT_REAL_FIXED = {"A": [b"EARLY-1", b"LATE", b"REPLY"], "B": [b"LATE", b"REPLY"], "C": [b"EARLY-2", b"LATE", b"REPLY"],
                     "D": [b"LATE", b"REPLY"], "E": [b"LATE", b"REPLY"] + [b"REQ%d" % i for i in range(5)]}


def tree_is_fixed():
    """does the tree under test store the largest packet number only after the AEAD check?"""
    from tlexport.quic.quic_session import QuicSession
    return hasattr(QuicSession, "set_largest_packet_number")


def main():
    res = {}
    fixed = tree_is_fixed()
    EXPECT_REAL = EXPECT_REAL_FIXED if fixed else EXPECT_REAL_OLD
    print("tree under test:", "repaired (largest packet number stored after the AEAD check)" if fixed
          else "before the pn-store repair (largest packet number stored before the AEAD check)")
    for case in "ABCDE":                                        # REAL cryptography, tool unmodified
        want, got, _ = run_case(case)
        res[case] = (want, got)
        lost = [d for (_, _, d) in want if d not in [g[2] for g in got]]
        print(f"real crypto  case {case}: sent {[d for _, _, d in want]}  exported {[g[2] for g in got]}  LOST {lost}")
        assert [g[2] for g in got] == EXPECT_REAL[case], (case, got)
    ctx = fw.Ctx("C02", "quick", 0)
    with qp.both_worlds():
        # toy world (toy AEAD, toy hp mask): the model agrees with the tool byte for byte; WHICH garbage packet number the
        # wrong header-protection key yields depends on the mask primitive, so the later losses may differ from the real world
        for case in "ABCDE":
            want, got, same = run_case(case, ctx)
            assert same, case
            print(f"toy world    case {case}: exported {[g[2] for g in got]}  model bytes = tool bytes: {same}")
    return res


if __name__ == "__main__":
    main()
