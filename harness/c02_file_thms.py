"""Theorems of lean/TLX/Props/C02File.lean that the C02 check requires (QUIC from capture file to output file)."""
MODULES = ["TLX.Props.C02File"]
_NS = "TLX.Props.C02File."
THEOREMS = [_NS + n for n in [
    # the file-level theorems
    "quic_capture_exact",            # any file the reader model reads as the described packets; write-abort alternative
    "quic_capture_exact_file",       # without the abort alternative, under WritesOk / OthersFit
    "quic_capture_exact_encoded",    # bytes of the independent container encoder, any variant
    "quic_capture_exact_ranges",     # no abort under explicit ranges (no TCP payload in the capture, ports, lengths, times)
    "block_frames_parse",            # what the block means for the independent frame parser
    # non-vacuity: a concrete capture file / key-log file / option vector, every hypothesis discharged by evaluation
    "Ex.capture0",                   # the QuicCapture bundle for the concrete capture
    "Ex.quic_file_instance",         # quic_capture_exact_encoded applied: the export contains exactly GET / OK
    "Ex.quic_file_instance_written", # quic_capture_exact_ranges applied (one IEEE-754 hypothesis left: hus)
    "Ex.hs_ok", "Ex.keylog0", "Ex.hsDgs0", "Ex.hsIns0", "Ex.keyed0", "Ex.described0", "Ex.send1_0", "Ex.routes0",
    "Ex.cwf0", "Ex.citems0", "Ex.block0",
    # layers
    "quic_capture_session",          # the described capture leaves ONE QUIC session exporting `expectedOut`
    "export_of_quic_session",        # ingest ∘ main loop ∘ output bytes around one QUIC session
    "export_of_quic_session_file",
    "conn_of_capture", "othersFit_of_noTcp", "tcpView_qdescribed", "writesOk_addressed",
    "quicRun_hs", "quicRun_one",     # the main loop feeds the session as hsFeedAll / feedAll
    "quicHandle_new", "quicHandle_long", "quicHandle_short", "shortPick_route",
    "quicView_hsPhase", "quicView_onePhase", "quicView_notQuic", "quicView_dgram",
    "long_wire_header", "short_wire_header", "hsHeader_dgWire", "oneHeader_wireOf",
    "dissect_dg", "pktOf_dg", "infoOf_dg", "carriesH_of_described", "carries_of_described",
    "capOk_of_qdescribed", "capInfo_at",
]]
