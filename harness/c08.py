"""C08 — cutting the capture at any point only removes a suffix of the export.

oracle (metamorphic, every cut position): export(capture[:n]) must be, per connection and direction, a prefix of
export(capture) — TLS: byte streams; QUIC: the sequence of non-empty datagram payloads.
"""
import e2e
import fw
import tool
import wire

THEOREMS = ["TLX.Props.C08.stage_prefix_monotone", "TLX.Props.C08.build_take_prefix"]


def per_flow(out, mx):
    """{(conn index, dir): bytes (TLS) | tuple of datagram payloads (QUIC)}"""
    pkts, convs, udp = e2e.decode(out)
    res = {}
    for i, c in enumerate(mx.tls):
        conn = c["conn"]
        cv = e2e.find_conv(convs, conn)
        res[("tls", i, 0)] = cv["c2s"] if cv else b""
        res[("tls", i, 1)] = cv["s2c"] if cv else b""
    for j, q in enumerate(mx.quic):
        conn = q["conn"]
        d0, d1 = [], []
        for us, p in pkts:
            if p["proto"] == 17 and p["payload"]:
                if (p["src"], p["sport"]) == (conn.cip, conn.cport) and p["dst"] == conn.sip:
                    d0.append(bytes(p["payload"]))
                elif (p["dst"], p["dport"]) == (conn.cip, conn.cport) and p["src"] == conn.sip:
                    d1.append(bytes(p["payload"]))
        res[("quic", j, 0)], res[("quic", j, 1)] = tuple(d0), tuple(d1)
    return res


def is_prefix(a, b):
    return a == b[:len(a)]


def one(job):
    import random
    import logging
    logging.disable(logging.CRITICAL)
    seed, ntls, nquic = job[:3]
    rng = random.Random(seed)
    mode = job[3] if len(job) > 3 else "plain"
    kw = {}
    if mode == "retransmit":
        # every TLS connection gets TCP delivery effects: duplicates, displacements and repacketised retransmissions
        # (a later segment that starts at an earlier segment's sequence number and covers it and its successor);
        # QUIC connections get reordered 1-RTT datagrams
        kw = {"resched": 1.0, "repack": 0.5, "partial": 0.3, "quic_features": [{"reorder": True} for _ in range(nquic)]}
    args = []
    if mode == "meta":
        # the same question with metadata export on: handshake material that an earlier cut exported stays exported (QUIC connections
        # go through a Retry: what was exported before the Retry must still be there after it)
        args = ["-a"]
        kw = {"quic_features": [{"retry": True} for _ in range(nquic)]}
    combos = [e2e.random_combo(rng) for _ in range(ntls)]
    if mode == "reuse13" and combos:
        # the connection whose 4-tuple is re-used is TLS 1.3 without the compatibility CCS: nothing but the second
        # ClientHello tells the two connections apart
        combos[0] = rng.choice([c for c in e2e.all_combos() if c[1] == "tls13"])
        kw["shape_hook"] = lambda r, v: {"ccs13": False} if v == "tls13" else {}
        mode = "reuse-continue"
    mx = e2e.Mixed(rng, combos, n_quic=nquic, noise=False,
                   tls_app=[e2e.random_app(rng, 3, 6, big=0.0) for _ in range(ntls)], **kw)
    if mode in ("reuse", "reuse-continue") and mx.tls:
        # a second connection on the same 4-tuple after the first one (client port reuse): appended packet by packet
        import gen_tls
        first = mx.tls[0]["conn"]
        code, version, etm = e2e.random_combo(rng)
        sc2 = gen_tls.Script(version, code, e2e.random_app(rng, 2, 4, big=0.0), rng, **dict(e2e.random_shape(rng, version), etm=etm))
        conn2 = gen_tls.TcpConn(cip=first.cip, sip=first.sip, cport=first.cport, sport=first.sport, cmac=first.cmac,
                                smac=first.smac, cisn=rng.randrange(1, 2 ** 31), sisn=rng.randrange(1, 2 ** 31))
        if mode == "reuse-continue":
            # the second handshake continues the sequence space of the first (a new TLS session negotiated on the
            # SAME TCP connection after the first one's close_notify-less end): its ClientHello reaches the parser
            conn2.seq = dict(first.seq)
            conn2.isn = dict(first.seq)
        for d, data in sc2.render()[0]:
            conn2.send(d, data, rng, e2e.random_cut(rng))
        t = mx.items[-1][1]
        for _, f, *_ in conn2.pkts:
            t += rng.randrange(1, 30_000)
            mx.items.append(("pkt", t, f))
            mx.owners.append(0)
        mx.keylog += sc2.keylog_lines()
    if mode == "clock":
        # the capture clock steps back (NTP correction, merged captures): timestamps are not monotonic in file order
        j = rng.randrange(1, len(mx.items))
        back = rng.randrange(1, 5_000_000)
        mx.items = [(k, (t - back if i >= j else t), f) for i, (k, t, f) in enumerate(mx.items)]
    kl = mx.keylog_text()
    if mode == "dsb":
        # no -s file: every connection's secrets travel in their own Decryption Secrets Block right in front of the
        # connection's first packet (several blocks per capture; a cut never removes a block a remaining packet needs)
        seen, items = set(), []
        # one connection after the other (the second one's block then comes when the first has exported data already)
        order = sorted(range(len(mx.items)), key=lambda k: mx.owners[k])
        times = sorted(it[1] for it in mx.items)
        mx.items = [(mx.items[k][0], t, *mx.items[k][2:]) for k, t in zip(order, times)]
        mx.owners = [mx.owners[k] for k in order]
        for it, owner in zip(mx.items, mx.owners):
            if owner not in seen and owner < len(mx.kinds) and mx.kinds[owner][0] in ("tls", "quic"):
                seen.add(owner)
                kind, j = mx.kinds[owner]
                lines = (mx.tls if kind == "tls" else mx.quic)[j]["keylog"]
                items.append(("dsb", ("\n".join(lines) + "\n").encode()))
            items.append(it)
        mx.items = items
        kl = None
    full = tool.run(mx.capture(), kl, args)
    desc = mx.describe()
    if full.crashed:
        return [("full", full.signature(), None)], desc, len(mx.items), 0
    try:
        ref = per_flow(full.out, mx)
    except wire.FrameError as e:
        return [("full", f"bad-frame:{e}", None)], desc, len(mx.items), 0
    fails, inside = [], 0
    for n in range(0, len(mx.items) + 1):
        cap = wire.pcapng(mx.items[:n])
        r = tool.run(cap, kl, args)
        if r.crashed:
            fails.append((n, r.signature(), cap.hex()))
            continue
        try:
            got = per_flow(r.out, mx)
        except wire.FrameError as e:
            fails.append((n, f"bad-frame:{e}", cap.hex()))
            continue
        for k in ref:
            if not is_prefix(got[k], ref[k]):
                fails.append((n, f"not-prefix:{k[0]} conn {k[1]} dir {k[2]}: cut export has {len(got[k])} units, full export {len(ref[k])}", cap.hex()))
                break
        if any(0 < len(got[k]) < len(ref[k]) for k in ref):
            inside += 1
    return [(n, s, c) for n, s, c in fails[:3]], desc, len(mx.items), inside, kl


def explore(ctx, scale=1):
    rng = ctx.rng
    n = ctx.n(18, 300) * scale
    jobs = [(rng.getrandbits(48), *([(1, 0), (0, 1), (2, 0), (1, 1)][i % 4] if not (i % 6 == 4 and (i // 6) % 2 == 0) else [(2, 0), (1, 1)][(i // 12) % 2]), ["plain", "clock", "reuse13" if (i // 6) % 2 == 0 else "reuse", "retransmit", "dsb" if (i // 6) % 2 == 0 else "clock", "retransmit"][i % 6])
            for i in range(n)]
    jobs += [(rng.getrandbits(48), *[(0, 1), (1, 1), (0, 2), (2, 0)][i % 4], "meta") for i in range(ctx.n(4, 40) * scale)]
    results = tool.pmap(one, jobs, procs=16 if ctx.thorough() else 8)
    o = ctx.oracle.setdefault("every-cut", {"runs": 0, "violations": 0})
    for job, res in zip(jobs, results):
        fails, desc, npk, inside = res[:4]
        o["runs"] += npk + 1
        ctx.evaluations += npk + 1
        for k in range(inside):
            ctx.distinct.add(hash((job[0], k)).to_bytes(8, "big", signed=True))
        ctx.hist("kind", f"tls={job[1]} quic={job[2]}")
        ctx.hist("mode", job[3])
        ctx.hist("packets", npk // 10 * 10)
        if fails:
            o["violations"] += 1
            n0, sig, caphex = fails[0]
            kind = sig.split(":")[0] if not sig.startswith("crash") else sig.split(" ")[0]
            ctx.fail(f"C08:{{{'quic' if job[2] else 'tls'}}}:{kind}", "export of a cut capture is not a prefix of the export of the full capture",
                     {"seed": job[0], "scenario": desc, "cut_at": n0, "capture_hex": caphex, "keylog": res[4] if len(res) > 4 else None,
                      "job": job}, expected="per connection and direction a prefix", actual=[f[1] for f in fails],
                     how="bin/check C08 --replay <this file>")
        else:
            ctx.sample({"scenario": desc, "cuts": npk + 1, "cuts_inside_data": inside}, cap=3)


def run(ctx):
    ctx.rule = ("captures with one or two connections (TLS of random version/suite with random segmentation, QUIC v1 with "
                "random features); variants: TCP retransmissions incl. repacketised ones and reordered QUIC 1-RTT datagrams, capture clock stepping back (timestamps not monotonic in file order), a second connection re-using the 4-tuple; the tool is run on capture[:n] for EVERY n = 0..N and each result compared with the full "
                "run. An evaluation is one cut; a cut is non-trivial iff it leaves some flow with part, but not all, of "
                "its exportable data (cut inside a handshake-complete connection, inside a multi-packet record, between "
                "coalesced flights or after a key change).")
    ctx.assumptions = ["keys are supplied by a complete key-log file for every cut (a cut that removes a later DSB is the C03 "
                       "missing-keys fault)"]
    import session_corr
    import export_props_quic_thms, export_props_thms, export_inputs2_thms, file_corr     # whole-program form (Props/ExportProps) about TLX.Export.framesFrom, tied file to file
    import translate                 # decision-logic functions re-translated from the source and proved equal to the model
    _tm, _tt = translate.wire(ctx, "C08")
    ctx.prove(["TLX.Props.C08", "TLX.Props.C05", "TLX.Props.C08Session", "TLX.Props.C02Out", "TLX.Props.C01Pipeline"] + export_props_thms.MODULES + export_props_quic_thms.MODULES + export_inputs2_thms.MODULES + _tm)
    ctx.require_theorems(_tt)
    ctx.require_theorems(THEOREMS + session_corr.THEOREMS_C08 + export_props_thms.THEOREMS_C08 + export_props_quic_thms.THEOREMS_C08 + export_inputs2_thms.THEOREMS_NAT + export_inputs2_thms.THEOREMS_C08 + ["TLX.Props.C02Out." + t for t in ("build_take_prefix_quic", "build_take_dropLast_prefix", "build_take_prefix_needs_distinct")] + ["TLX.Props.C01Pipeline.connOut_take_prefix"])
    import c06_model
    c06_model.run_model(ctx)          # ties TLX.TcpOut to the real OutputBuilder
    import q1_udpout
    q1_udpout.correspond(ctx)         # ties TLX.Quic.UdpOut to the real QUICOutputbuilder
    file_corr.correspond(ctx, ctx.n(12, 200))     # ties the whole-program model (ExportProps' subject) file to file
    import c05
    # ties TLX.Reassembly (carriers, online delivery) to the real Session; C05's own framing oracle (and its open known
    # finding) stays in C05
    c05.reasm_corr(ctx, frac=0.3, oracle=False)
    session_corr.correspond(ctx)      # ties TLX.Session to the real Session
    explore(ctx)
    return ctx.finish(search=lambda c: explore(c, scale=2))


def replay(ctx, obj):
    import random
    c = obj["case"]
    res = one(tuple(c["job"]))
    fails = res[0]
    for f in fails:
        print("REPLAY-FAIL cut", f[0], f[1])
    print("REPLAY", "fails" if fails else "passes")
    return 1 if fails else 0
