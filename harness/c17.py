"""C17 — QUIC frames are parsed exactly; arbitrary bytes cannot hang the parser.

proof:          lean/TLX/Props/C17.lean over lean/TLX/Quic/{Varint,Frame}.lean and the dispatch table
                lean/TLX/Gen/FrameTable.lean regenerated from tlexport/quic/quic_frame.py on every run
correspondence: Lean `parseFrames` / `decodeVarint` vs the real `parse_frames(payload, None)` /
                `decode_variable_length_int` / `get_variable_length_int_length` on
                (a) encoded well-formed frame sequences (independent encoder harness/gen_frames.py),
                (b) all byte strings of length ≤ 2 (thorough: also length 3), (c) a malformed stream
oracle:         (independent of the model) for well-formed sequences the real parser returns exactly the
                frames that were encoded (class, length, every named field; consecutive PADDING = one run) and
                the lengths sum to len(payload); for arbitrary bytes it terminates (step cap via sys.settrace +
                SIGALRM backstop: a hang is a property failure, not a stuck check) and every byte-string field
                of every returned frame is the payload's own bytes at the position the frame claims
"""
import os
import signal
import sys

import extract
import fw
import gen_frames as G

THEOREMS = ["TLX.Props.C17." + t for t in (
    "varint_roundtrip", "readVarint_roundtrip", "parseOne_encode", "parsed_length_eq_encoded", "frames_roundtrip",
    "normalize_same_payload", "bytes_accounted_once", "parse_total", "parse_progress", "frame_length_pos",
    "no_invented_data", "data_within_packet", "every_byte_in_exactly_one_frame", "dispatch_matches_rfc",
    "parseOne_ping", "parseOne_handshakeDone", "parseOne_padding", "parseOne_crypto", "parseOne_stream",
    "parseOne_newConnectionId", "parseOne_ack", "parseOne_connectionClose", "parseOne_datagram")]

# attribute names of tlexport's frame classes, in the order of the canonical rendering; kinds:
# i int, b bool, x bytes, r list of (gap, length) tuples; a trailing "?" = attribute may be absent
ATTRS = {
    "PaddingFrame": [], "PingFrame": [], "HandshakeDoneFrame": [],
    "AckFrame": [("frame_type", "i"), ("largest_acknowledged", "i"), ("ack_delay", "i"), ("range_count", "i"),
                 ("first_ack_range", "i"), ("ack_ranges", "r"), ("ect_0_count", "i?"), ("ect_1_count", "i?"),
                 ("ect_ce_count", "i?")],
    "ResetStreamFrame": [("stream_id", "i"), ("application_protocol_error_code", "i"), ("final_size", "i")],
    "StopSendingFrame": [("stream_id", "i"), ("application_protocol_error_code", "i")],
    "CryptoFrame": [("offset", "i"), ("crypto_length", "i"), ("crypto", "x")],
    "NewTokenFrame": [("token_length", "i"), ("token", "x")],
    "StreamFrame": [("frame_type", "i"), ("fin", "b"), ("len", "b"), ("off", "b"), ("stream_id", "i"),
                    ("server_initiated", "b"), ("stream_unidirectional", "b"), ("offset", "i"), ("data_length", "i"),
                    ("stream_data", "x")],
    "MaxDataFrame": [("maximum_data", "i")],
    "MaxStreamDataFrame": [("stream_id", "i"), ("maximum_stream_data", "i")],
    "MaxStreamsFrame": [("frame_type", "i"), ("maximum_streams", "i")],
    "DataBlockedFrame": [("maximum_data", "i")],
    "StreamDataBlockedFrame": [("stream_id", "i"), ("maximum_stream_data", "i")],
    "StreamsBlockedFrame": [("frame_type", "i"), ("maximum_streams", "i")],
    "NewConnectionIdFrame": [("sequence_number", "i"), ("retire_prior_to", "i"), ("connection_id_length", "i"),
                             ("connection_id", "x"), ("stateless_reset_token", "x")],
    "RetireConnectionIdFrame": [("sequence_number", "i")],
    "PathChallengeFrame": [("data", "x")], "PathResponseFrame": [("data", "x")],
    "ConnectionCloseFrame": [("frame_type", "i"), ("error_code", "i"), ("close_frame_type", "i?"),
                             ("reason_phrase_length", "i"), ("reason_phrase", "x")],
    "DatagramFrame": [("frame_type", "i"), ("len_bit", "b"), ("payload", "x")],
    "GenericFrame": [("frame_length", "i"), ("data", "x")],
}
_MISSING = object()


def render_value(v, kind):
    if v is None:
        return "None"
    if kind == "i":
        return str(int(v)) if isinstance(v, int) else "?" + type(v).__name__
    if kind == "b":
        return "1" if v else "0"
    if kind == "x":
        return G.hx(bytes(v)) if isinstance(v, (bytes, bytearray, memoryview)) else "?" + type(v).__name__
    if kind == "r":
        try:
            return "/".join(f"{int(g)}-{int(l)}" for g, l in v) or "-"
        except Exception:  # noqa
            return "?" + type(v).__name__
    return "?"


def render_obj(fr):
    """Canonical rendering of a real frame object (robust: getattr on the attribute names)."""
    cls = type(fr).__name__
    out = []
    for attr, kind in ATTRS.get(cls, []):
        v = getattr(fr, attr, _MISSING)
        if v is _MISSING:
            if kind.endswith("?"):
                continue
            out.append(f"{attr}=MISSING")
        else:
            out.append(f"{attr}={render_value(v, kind[0])}")
    return f"{cls}:{getattr(fr, 'length', None)}:" + ",".join(out)


def render_result(res):
    kind, val = res
    if kind == "ok":
        return ("ok %d | " % len(val) + " ; ".join(render_obj(f) for f in val)) if val else "ok 0"
    return kind if kind == "hang" else f"err:{val}"


class Hang(BaseException):
    """Raised inside the code under test when it exceeds the step cap (BaseException: not swallowed by
    `except Exception`)."""


def _alarm(signum, frame):
    raise Hang()


def step_cap(n):
    """parse_frames needs < 80 traced lines per payload byte (22-key dispatch loop per frame, 3 lines per
    PADDING byte, ≤ 7 loop turns per varint); the cap is ~8× that, so only a loop that does not advance trips it."""
    return 4000 + 600 * n


def guarded(fn, payload):
    """Run fn(payload) under a line-count cap and a wall-clock backstop.
    -> ("ok", value) | ("err", kind) | ("hang", None)"""
    cap = step_cap(len(payload))
    n = 0

    def local(frame, event, arg):
        nonlocal n
        n += 1
        if n > cap:
            raise Hang()
        return local

    def glob(frame, event, arg):
        return local

    old = signal.signal(signal.SIGALRM, _alarm)
    signal.setitimer(signal.ITIMER_REAL, 20.0)
    sys.settrace(glob)
    try:
        try:
            v = fn(payload)
            res = ("ok", v)
        finally:
            sys.settrace(None)
            signal.setitimer(signal.ITIMER_REAL, 0)
    except Hang:
        res = ("hang", None)
    except IndexError:
        res = ("err", "index")
    except RecursionError:
        res = ("hang", None)
    except Exception as e:  # noqa
        res = ("err", type(e).__name__)
    finally:
        sys.settrace(None)
        signal.setitimer(signal.ITIMER_REAL, 0)
        signal.signal(signal.SIGALRM, old)
    return res


class Impl:
    def __init__(self):
        import tlexport.quic.quic_frame as qf
        import tlexport.quic.quic_decode as qd
        self.qf, self.qd = qf, qd

    def frames(self, payload):
        return guarded(lambda p: self.qf.parse_frames(p, None), payload)

    def varint(self, b):
        a = guarded(self.qd.decode_variable_length_int, b)
        l = guarded(self.qd.get_variable_length_int_length, b)
        f = lambda r: "hang" if r[0] == "hang" else (str(r[1]) if r[0] == "ok" else f"err:{r[1]}")
        return f"{f(a)} {f(l)}"


# ------------------------------------------------------------------------------------------ oracle parts

def data_fields(fr, payload, pos):
    """[(attribute, bytes value, claimed absolute start or None)] for the byte-string attributes of a frame
    object that starts at `pos`; the start is derived from the object's own integer attributes (and, for the
    DATAGRAM length prefix, from the wire)."""
    cls = type(fr).__name__
    g = lambda a: getattr(fr, a, None)
    L = g("length")
    out = []
    try:
        if cls == "CryptoFrame":
            out.append(("crypto", g("crypto"), pos + L - g("crypto_length")))
        elif cls == "NewTokenFrame":
            out.append(("token", g("token"), pos + L - g("token_length")))
        elif cls == "StreamFrame":
            out.append(("stream_data", g("stream_data"), pos + L - g("data_length")))
        elif cls == "NewConnectionIdFrame":
            out.append(("connection_id", g("connection_id"), pos + L - 16 - g("connection_id_length")))
            out.append(("stateless_reset_token", g("stateless_reset_token"), pos + L - 16))
        elif cls in ("PathChallengeFrame", "PathResponseFrame"):
            out.append(("data", g("data"), pos + 1))
        elif cls == "ConnectionCloseFrame":
            out.append(("reason_phrase", g("reason_phrase"), pos + L - g("reason_phrase_length")))
        elif cls == "DatagramFrame":
            if g("len_bit"):
                out.append(("payload", g("payload"), pos + 1 + (1 << (payload[pos + 1] >> 6))))
            else:
                out.append(("payload", g("payload"), pos + 1))
        else:
            # unknown / generic classes: any bytes attribute must at least come from the frame's own input
            for a, v in sorted(vars(fr).items()):
                if isinstance(v, (bytes, bytearray)):
                    out.append((a, v, None))
    except Exception:  # noqa  (attribute renamed / not an int: fall back to "somewhere in the own input")
        out = [(a, v, None) for a, v in sorted(vars(fr).items()) if isinstance(v, (bytes, bytearray))]
    return out


def check_no_invented(ctx, res, payload, origin):
    """Arbitrary bytes: frames returned ⇒ every data field is the payload's own bytes at the claimed place."""
    if res[0] != "ok":
        return
    pos = 0
    for i, fr in enumerate(res[1]):
        L = getattr(fr, "length", None)
        if not isinstance(L, int) or L < 1:
            ctx.fail("C17:{%s}:frame-length-not-positive" % origin, "a returned frame has no positive length",
                     {"payload": payload.hex(), "frame": i}, expected="length >= 1", actual=render_obj(fr),
                     how="bin/check C17 --replay <this file>")
            return
        for attr, val, start in data_fields(fr, payload, pos):
            if val is None:
                continue
            val = bytes(val)
            if start is None:
                good = val in payload[pos:]
            else:
                good = 0 <= start and payload[start:start + len(val)] == val
            if not good:
                ctx.fail("C17:{%s}:data-not-from-payload" % origin,
                         f"{type(fr).__name__}.{attr} is not the payload's bytes at the position the frame claims",
                         {"payload": payload.hex(), "frame": i, "frame_start": pos, "claimed_start": start},
                         expected=G.hx(payload[start:start + len(val)]) if start is not None else "a substring of payload[frame_start:]",
                         actual=G.hx(val), how="bin/check C17 --replay <this file>")
                return
        pos += L


def render_merged_padding(frames):
    """Rendering of returned frames with adjacent PaddingFrame objects merged into one run (a parser that
    reports every PADDING byte as its own frame satisfies the property just as well)."""
    out, run = [], 0
    for fr in frames:
        if type(fr).__name__ == "PaddingFrame" and isinstance(getattr(fr, "length", None), int):
            run += fr.length
            continue
        if run:
            out.append(G.render("PaddingFrame", run, []))
            run = 0
        out.append(render_obj(fr))
    if run:
        out.append(G.render("PaddingFrame", run, []))
    return ("ok %d | " % len(out) + " ; ".join(out)) if out else "ok 0"


def check_wellformed(ctx, res, payload, fs, rendered, origin):
    """Well-formed sequence: exactly the encoded frames; lengths sum to the payload length."""
    want = G.expect_sequence(fs)
    case = {"payload": payload.hex(), "frames": [repr(f) for f in fs][:12], "expected_rendering": want}
    if res[0] == "hang":
        return  # reported by the caller
    got = render_merged_padding(res[1]) if res[0] == "ok" else rendered
    if got != want:
        ctx.fail("C17:{%s}:frames-differ" % origin,
                 "parse_frames does not return exactly the frames that were encoded", case, expected=want,
                 actual=got, how="bin/check C17 --replay <this file>")
    elif sum(getattr(f, "length", 0) for f in res[1]) != len(payload):
        ctx.fail("C17:{%s}:lengths-do-not-sum" % origin, "frame lengths do not sum to the payload length", case,
                 expected=len(payload), actual=sum(getattr(f, "length", 0) for f in res[1]))


# ------------------------------------------------------------------------------------------ input streams

FIXED = [  # pinned-test vectors and hand-written edge cases, run first
    "010000", "0600050102030405010000", "0a0102aabb", "0e01020548656c6c6f", "08010203", "0f0102036162631e",
    "1812340411223344000102030405060708090a0b0c0d0e0f", "02000000000102", "0200000100", "0300000000010203",
    "1c0a06026f6b", "1d0a026f6b", "3001020304", "3102aabb01", "1a0102030405060708", "1b01020304",
    "ff0301020304", "2100", "40", "0640", "18000005", "1800000501", "06c0", "07ff",
]


def structured_cases(ctx, scale=1):
    """(payload, frames) — every kind × width combination alone and embedded between random neighbours,
    then random sequences in any order."""
    rng = ctx.rng
    out = []
    for f, key in G.all_width_combinations(rng, full=True):
        out.append(([f], ("combo",) + tuple(map(str, key))))
        if not G.greedy(f):
            pre = [G.make_frame(rng, rng.choice(G.KINDS)) for _ in range(rng.randrange(0, 3))]
            pre = [x if not G.greedy(x) else {"k": "ping"} for x in pre]
            post = [G.make_frame(rng, rng.choice(G.KINDS)) for _ in range(rng.randrange(1, 3))]
            post = [x if (not G.greedy(x) or i == len(post) - 1) else {"k": "handshake_done"} for i, x in enumerate(post)]
            out.append((pre + [f] + post, ("embedded",) + tuple(map(str, key))))
    for _ in range(ctx.n(4000, 120000) * scale):
        out.append((G.random_sequence(rng), ("random",)))
    return out


def exhaustive_payloads():
    yield b""
    for a in range(256):
        yield bytes([a])
    for a in range(256):
        for b in range(256):
            yield bytes([a, b])


HUGE = (1 << 62) - 1


def malformed_payloads(ctx, scale=1):
    rng = ctx.rng
    big = G.enc_varint(HUGE, 3)
    out = []
    # huge counts / lengths on every frame type that has one
    out += [("huge", b"\x02\x00\x00" + big + b"\x00"), ("huge", b"\x03\x00\x00" + big + b"\x00" + b"\x01\x02" * 40),
            ("huge", b"\x02\x00\x00" + big + b"\x00" + b"\x00" * 1200),
            ("huge", b"\x02" + big * 4 + (big * 2) * 50), ("huge", b"\x03" + big * 4 + big * 3),
            ("huge", b"\x06\x00" + big + b"abc"), ("huge", b"\x06" + big + big), ("huge", b"\x07" + big + b"tok"),
            ("huge", b"\x0a\x01" + big + b"data"), ("huge", b"\x0e" + big + big + big + b"x"),
            ("huge", b"\x0f\x01\x02" + big), ("huge", b"\x18\x00\x00\xff" + b"c" * 30),
            ("huge", b"\x18" + big + big + b"\xff"), ("huge", b"\x1c\x00\x00" + big + b"why"),
            ("huge", b"\x1d\x00" + big), ("huge", b"\x31" + big + b"dg"), ("huge", b"\x21" + big + b"gen"),
            ("huge", b"\xff" + big), ("huge", b"\x40" + big + b"\x00" * 20), ("huge", b"\x00" * 1500),
            ("huge", b"\x00" * 700 + b"\x02\x00\x00" + big), ("huge", b"\x01" * 1500),
            ("huge", b"\x02\x00\x00\x7f\xff\x00" + b"\x01\x01" * 600)]
    for t in range(256):
        out.append(("huge", bytes([t]) + big + big + big))
        out.append(("huge", bytes([t]) + b"\x00\x00" + big + big))
    # random bytes, first byte biased towards known frame types
    known = list(range(0x1f)) + [0x30, 0x31]
    for _ in range(ctx.n(6000, 200000) * scale):
        n = rng.choice([1, 2, 3, 3, 4, 5, 6, 8, 12, 20, rng.randrange(1, 64), rng.randrange(1, 200)])
        b = bytearray(G.rand_bytes(rng, n))
        if rng.random() < 0.7:
            b[0] = rng.choice(known)
        if rng.random() < 0.3:  # mostly small varints so that several frames fit
            for i in range(1, len(b)):
                if rng.random() < 0.7:
                    b[i] &= 0x3f
        out.append(("random", bytes(b)))
    # truncations and single-byte damage of valid sequences
    for _ in range(ctx.n(250, 6000) * scale):
        fs = G.random_sequence(rng, 5)
        p = G.encode_sequence(fs)
        if len(p) > 400:
            continue
        cuts = range(len(p)) if len(p) <= 80 else sorted(rng.sample(range(len(p)), 80))
        for c in cuts:
            out.append(("truncated", p[:c]))
        for _ in range(6):
            q = bytearray(p)
            r = rng.random()
            i = rng.randrange(len(q))
            if r < 0.5:
                q[i] = rng.randrange(256)
            elif r < 0.75:
                del q[i]
            else:
                q.insert(i, rng.randrange(256))
            out.append(("damaged", bytes(q)))
    # unknown frame types with a plausible body (GenericFrame), alone and followed by known frames
    for _ in range(ctx.n(400, 8000) * scale):
        t = rng.choice([x for x in range(256) if x not in known])
        body = G.rand_bytes(rng, rng.randrange(0, 12))
        p = bytes([t]) + G.enc_varint(len(body), rng.randrange(4)) + body + rng.choice([b"", b"\x00", b"\x01", b"\x01\x1e\x00"])
        out.append(("generic", p))
    return out


# ------------------------------------------------------------------------------------------ the run

def classes_of(res):
    return [type(f).__name__ for f in res[1]] if res[0] == "ok" else []


def run_payloads(ctx, impl, items, point, origin):
    """items: [(payload, frames | None, tag)]. Real parser (guarded) + oracle; then the model; compare."""
    p = ctx.point(point)
    lines, rendered = [], []
    for payload, fs, tag in items:
        res = impl.frames(payload)
        r = render_result(res)
        rendered.append(r)
        lines.append("frames " + (payload.hex() or "-"))
        p["cases"] += 1
        if res[0] == "hang":
            ctx.fail("C17:{%s}:hang" % origin, "parse_frames does not terminate within the step cap "
                     f"({step_cap(len(payload))} traced lines for {len(payload)} bytes)",
                     {"payload": payload.hex()}, expected="frames or an exception", actual="hang",
                     how="bin/check C17 --replay <this file>")
        if fs is not None:
            check_wellformed(ctx, res, payload, fs, r, origin)
        check_no_invented(ctx, res, payload, origin)
        cl = classes_of(res)
        ctx.count((origin, payload), nontrivial=len(set(cl)) >= 2)
        ctx.hist(origin + ".outcome", "frames" if res[0] == "ok" else r)
        ctx.hist(origin + ".frames_returned", min(len(cl), 10))
        for c in set(cl):
            ctx.hist("class_seen", c)
        if isinstance(tag, tuple) and tag and tag[0] in ("combo", "embedded"):
            ctx.hist("width_combinations." + tag[0], tag[1])
        elif isinstance(tag, str):
            ctx.hist(origin + ".kind", tag)
    replies = ctx.driver("frames", lines) if lines else []
    for (payload, fs, tag), r_impl, r_model in zip(items, rendered, replies):
        if r_impl != r_model:
            ctx.disagree(point, {"payload": payload.hex(), "origin": origin}, r_impl, r_model)
    return rendered


class Collector:
    """Stand-in for ctx inside worker processes: records oracle failures to be merged by the parent."""
    def __init__(self):
        self.fails = []

    def fail(self, signature, what, case, expected=None, actual=None, how=None):
        if len(self.fails) < 5:
            self.fails.append((signature, what, case, expected, actual, how))


def _exh3_worker(first_bytes):
    """All byte strings a·b·c for the given first bytes: real parser (guarded) + oracle + model."""
    import subprocess
    impl = Impl()
    col = Collector()
    out = {"cases": 0, "disagreements": [], "outcomes": {}, "nontrivial": 0}
    for a in first_bytes:
        payloads = [bytes([a, b, c]) for b in range(256) for c in range(256)]
        rendered = []
        for p in payloads:
            res = impl.frames(p)
            r = render_result(res)
            rendered.append(r)
            if res[0] == "hang":
                col.fail("C17:{exhaustive3}:hang", "parse_frames does not terminate within the step cap",
                         {"payload": p.hex()}, "frames or an exception", "hang", "bin/check C17 --replay <this file>")
            check_no_invented(col, res, p, "exhaustive3")
            k = "frames" if res[0] == "ok" else r
            out["outcomes"][k] = out["outcomes"].get(k, 0) + 1
            if len(set(classes_of(res))) >= 2:
                out["nontrivial"] += 1
        data = "".join("frames " + p.hex() + "\n" for p in payloads)
        pr = subprocess.run([fw.DRIVER, "frames"], input=data, stdout=subprocess.PIPE, stderr=subprocess.PIPE, text=True)
        replies = pr.stdout.split("\n")[:len(payloads)]
        if pr.returncode != 0 or len(replies) != len(payloads):
            out["disagreements"].append(({"payload": payloads[0].hex(), "note": "driver failed"}, "?", pr.stderr[-200:]))
            continue
        for p, ri, rm in zip(payloads, rendered, replies):
            if ri != rm and len(out["disagreements"]) < 5:
                out["disagreements"].append(({"payload": p.hex(), "origin": "exhaustive3"}, ri, rm))
        out["cases"] += len(payloads)
    out["fails"] = col.fails
    return out


def run_exhaustive3(ctx):
    """Thorough tier: all 16 777 216 byte strings of length 3, spread over worker processes."""
    import multiprocessing as mp
    pt = ctx.point("frames.exhaustive_eq3")
    chunks = [list(range(i, 256, 32)) for i in range(32)]
    with mp.get_context("fork").Pool(min(16, os.cpu_count() or 1)) as pool:
        for out in pool.imap_unordered(_exh3_worker, chunks):
            pt["cases"] += out["cases"]
            ctx.evaluations += out["cases"]
            for k, v in out["outcomes"].items():
                d = ctx.distribution.setdefault("exhaustive3.outcome", {})
                d[k] = d.get(k, 0) + v
            d = ctx.distribution.setdefault("exhaustive3.nontrivial", {})
            d["ge2_classes"] = d.get("ge2_classes", 0) + out["nontrivial"]
            for case, ri, rm in out["disagreements"]:
                ctx.disagree("frames.exhaustive_eq3", case, ri, rm)
            for f in out["fails"]:
                ctx.fail(*f)


def run_varints(ctx, impl, scale=1):
    rng = ctx.rng
    cases = [b""] + [bytes([a]) for a in range(256)] + [bytes([a, b]) for a in range(0, 256, 1) for b in (0, 1, 0x7f, 0xff)]
    for _ in range(ctx.n(3000, 60000) * scale):
        p = rng.randrange(4)
        v = G.rand_value(rng, p)
        e = G.enc_varint(v, p)
        cases.append(e + G.rand_bytes(rng, rng.choice([0, 0, 1, 3])))
        if rng.random() < 0.3:
            cases.append(e[:rng.randrange(0, len(e))])
    pt = ctx.point("varint.decode")
    impl_out = [impl.varint(b) for b in cases]
    replies = ctx.driver("frames", ["varint " + (b.hex() or "-") for b in cases])
    for b, a, m in zip(cases, impl_out, replies):
        pt["cases"] += 1
        if a != m:
            ctx.disagree("varint.decode", {"bytes": b.hex()}, a, m)
    # oracle: decode(encode(v, p) + junk[:0]) == v and length == 2**p, for every width incl. non-minimal
    for _ in range(ctx.n(2000, 40000) * scale):
        p = rng.randrange(4)
        v = G.rand_value(rng, p)
        e = G.enc_varint(v, p)
        want = f"{v} {1 << p}"
        got = impl.varint(e)
        ctx.hist("varint.width", 1 << p)
        if got != want:
            ctx.fail("C17:{varint}:roundtrip", "decode_variable_length_int / get_variable_length_int_length do not "
                     "invert the RFC 9000 §16 encoding", {"value": v, "prefix": p, "bytes": e.hex()}, expected=want, actual=got)


def explore(ctx, scale=1):
    impl = Impl()
    run_payloads(ctx, impl, [(bytes.fromhex(h), None, "fixed") for h in FIXED], "frames.fixed", "fixed")
    items = [(G.encode_sequence(fs), fs, tag) for fs, tag in structured_cases(ctx, scale)]
    for payload, fs, tag in items[:3] + items[-3:]:
        ctx.sample({"payload": payload.hex()[:160], "expected": G.expect_sequence(fs)[:300]})
    for payload, fs, tag in items:
        for f in fs:
            ctx.hist("kind_generated", f["k"])
            if f["k"] == "stream":
                ctx.hist("stream_flags(fin,len,off)", f"{int(f['fin'])}{int(f['len'])}{int(f['off'])}")
    run_payloads(ctx, impl, items, "frames.wellformed", "wellformed")
    run_payloads(ctx, impl, [(p, None, "all") for p in exhaustive_payloads()], "frames.exhaustive_le2", "exhaustive")
    run_payloads(ctx, impl, [(p, None, tag) for tag, p in malformed_payloads(ctx, scale)], "frames.malformed", "malformed")
    run_varints(ctx, impl, scale)
    if ctx.thorough() and scale == 1:
        run_exhaustive3(ctx)


def smallest_first(ctx):
    """Report the shortest failing payload first."""
    ctx.failures.sort(key=lambda f: len(str((f.get("case") or {}).get("payload", ""))))


def run(ctx):
    ctx.rule = ("(a) well-formed sequences from the independent encoder: every frame kind of RFC 9000 §19 / RFC 9221 × "
                "every combination of varint widths 1/2/4/8 (values mostly small, i.e. non-minimal encodings) × all 8 "
                "STREAM flag combinations, alone and embedded between random neighbours, then random sequences in any "
                "order with PADDING runs (frames without explicit length only last); (b) all byte strings of length ≤ 2 "
                "(thorough tier: also all 16 777 216 strings of length 3, in 16 worker processes); "
                "(c) malformed: random bytes, every truncation and single-byte damage of valid sequences, huge "
                "counts/lengths (2^62−1) on every type byte, unknown types. A case is non-trivial iff the real parser "
                "returns ≥ 2 frames of different classes; distinct = distinct payloads.")
    ctx.assumptions = ["parse_frames is driven with src_packet=None (the argument is only stored on the frame objects)",
                       "frame type is the first payload byte as in tlexport (RFC 9000 §12.4 requires the shortest "
                       "encoding of the type, so non-minimal encodings apply to field varints only)"]
    ctx.gen_tables = {"FrameTable.lean": extract.frame_table()}
    import translate                 # decision-logic functions re-translated from the source and proved equal to the model
    _tm, _tt = translate.wire(ctx, "C17")
    import oncode_thms               # the property theorems stated on the regenerated definitions themselves (Props/OnCode)
    _om, _ot = oncode_thms.wire("C17")
    _tm, _tt = _tm + _om, _tt + _ot
    ctx.prove(["TLX.Props.C17"] + _tm)
    ctx.require_theorems(_tt)
    ctx.require_theorems(THEOREMS)
    explore(ctx)
    ctx.exhaustive = False
    ctx.extra["exhaustive_subspaces"] = ("all 65 793 byte strings of length <= 2 (sub-space (b))"
                      + ("; thorough tier: also all 16 777 216 byte strings of length 3" if ctx.thorough() else "")
                      + "; the rest is sampled")
    smallest_first(ctx)

    def search(c):
        explore(c, scale=3)
        smallest_first(c)
    return ctx.finish(search=search)


def replay(ctx, obj):
    impl = Impl()
    c = obj.get("case") or {}
    if "value" in c:
        e = G.enc_varint(c["value"], c["prefix"])
        got = impl.varint(e)
        want = f"{c['value']} {1 << c['prefix']}"
        print("REPLAY varint", e.hex(), "impl", got, "expected", want)
        print("REPLAY", "fails" if got != want else "passes")
        return 1 if got != want else 0
    if "payload" not in c:
        for d in (obj.get("broken") or {}).get("correspondence", []):
            if "payload" in d.get("case", {}):
                c = d["case"]
                break
    if "payload" not in c:
        print("REPLAY nothing to replay (no payload in the file)")
        return 2
    payload = bytes.fromhex(c["payload"])
    res = impl.frames(payload)
    r = render_result(res)
    print("REPLAY payload", payload.hex() or "-")
    print("REPLAY impl  ", r)
    try:
        print("REPLAY model ", ctx.driver("frames", ["frames " + (payload.hex() or "-")])[0])
    except Exception as e:  # noqa
        print("REPLAY model unavailable:", e)
    if res[0] == "hang":
        ctx.fail("C17:{replay}:hang", "parse_frames does not terminate within the step cap", {"payload": payload.hex()})
    if "expected_rendering" in c:
        print("REPLAY expect", c["expected_rendering"])
        if (render_merged_padding(res[1]) if res[0] == "ok" else r) != c["expected_rendering"]:
            ctx.fail("C17:{replay}:frames-differ", "parse_frames does not return exactly the encoded frames",
                     {"payload": payload.hex()}, expected=c["expected_rendering"], actual=r)
    check_no_invented(ctx, res, payload, "replay")
    for f in ctx.failures:
        print("REPLAY-FAIL", f["what"], "expected", f["expected"], "actual", f["actual"])
    print("REPLAY", "fails" if ctx.failures else "passes")
    return 1 if ctx.failures else 0
