"""End-to-end scenario generation and comparison helpers shared by the property oracles
(C01, C03, C04, C05, C06, C07, C08, C13, C18): random TLS connections from the independent sender, random endpoints,
segmentation schedules, capture assembly, running the real tool, strict decoding of its output."""
import ipaddress

import gen_tls
import spec_suites
import tool
import wire

LENGTHS = [0, 1, 2, 7, 8, 15, 16, 17, 31, 32, 33, 255, 256, 1000, 1460, 4096, 16383, 16384]


def table_codes():
    """code points of the table of the tree under test that the independent registry also knows"""
    from tlexport.cipher_suite_parser import cipher_suites
    return sorted(c for c in (int.from_bytes(k, "big") for k in cipher_suites if len(k) == 2)
                  if c in spec_suites.R and spec_suites.info(spec_suites.R[c]))


def suite_class(code, version, etm=False):
    d = spec_suites.info(spec_suites.R[code])
    return (version, d["algo"], d["mode"], d["tag"] if d["aead"] else d["mac"], bool(etm))


_COMBOS = None


def all_combos():
    """every (code, version, etm) the property quantifies over"""
    global _COMBOS
    if _COMBOS is not None:
        return _COMBOS
    _COMBOS = out = []
    for code in table_codes():
        d = spec_suites.info(spec_suites.R[code])
        for v in spec_suites.valid_versions(code):
            for etm in ([False, True] if d["mode"] == "CBC" and v != "ssl3" else [False]):
                out.append((code, v, etm))
    return out


def class_representatives(rng):
    """one random (code, version, etm) per cipher class × version"""
    by = {}
    for c in all_combos():
        by.setdefault(suite_class(*c), []).append(c)
    return [rng.choice(v) for _, v in sorted(by.items(), key=lambda kv: str(kv[0]))]


def random_combo(rng):
    """version first (uniform), then a suite valid for it — the table is dominated by TLS ≤ 1.2 code points"""
    v = rng.choice(["ssl3", "tls10", "tls11", "tls12", "tls13", "tls13"])
    return rng.choice([c for c in all_combos() if c[1] == v])


def random_app(rng, nmin=3, nmax=10, big=0.15):
    n = rng.randrange(nmin, nmax + 1)
    app = []
    for i in range(n):
        d = rng.randrange(2) if i >= 2 else i          # both directions present
        r = rng.random()
        if r < big:
            ln = rng.choice(LENGTHS)
        elif r < 0.3:
            ln = rng.randrange(0, 40)
        else:
            ln = rng.randrange(1, 600)
        app.append((d, rng.randbytes(ln)))
    return app


def random_shape(rng, version):
    sh = {"group": rng.choice(["each", "flight", "pairs"]), "coalesce": rng.choice([0.0, 0.3, 0.8])}
    if version != "ssl3":
        if rng.random() < 0.4:
            sh["extra_exts"] = rng.choice([gen_tls.ext(0xFF01, b"\x00"), gen_tls.ext(0x0B, b"\x01\x00") + gen_tls.ext(0x23, b""),
                                           gen_tls.ext(0x17, b"")])
    if version == "tls13":
        sh["hs_secrets"] = rng.random() < 0.7
        if rng.random() < 0.5:
            mx = rng.choice([1, 5, 40])
            sh["pad13"] = lambda r, mx=mx: r.randrange(0, mx + 1)
        sh["tickets"] = rng.randrange(0, 3)
        sh["ccs13"] = rng.random() < 0.7
        sh["frag13"] = rng.random() < 0.3      # handshake flights cut into records at arbitrary byte positions (RFC 8446 5.1)
    else:
        sh["abbreviated"] = rng.random() < 0.3
        sh["sid_len"] = rng.choice([0, 1, 7, 16, 32]) if not sh["abbreviated"] else rng.choice([1, 16, 32])
        sh["tickets"] = rng.randrange(0, 2)
        sh["warn_alert"] = rng.random() < 0.2
    return sh


def random_endpoints(rng, idx, v6=None, sport=443):
    v6 = rng.random() < 0.35 if v6 is None else v6
    if v6:
        cip = ipaddress.IPv6Address(rng.getrandbits(128) | (0x2001 << 112) & ((1 << 128) - 1)).packed
        sip = ipaddress.IPv6Address(rng.getrandbits(128) | (0x2001 << 112) & ((1 << 128) - 1)).packed
    else:
        cip = bytes([10, rng.randrange(256), rng.randrange(256), 1 + rng.randrange(250)])
        sip = bytes([192, 168, rng.randrange(256), 1 + rng.randrange(250)])
    cmac = bytes([2, 0, 0, rng.randrange(256), rng.randrange(256), idx & 0xFF])
    smac = bytes([2, 0, 1, rng.randrange(256), rng.randrange(256), idx & 0xFF])
    return dict(cip=cip, sip=sip, cport=wire.client_port(rng, 20000, 60000), sport=sport,
                cisn=rng.randrange(1, 2 ** 31), sisn=rng.randrange(1, 2 ** 31), cmac=cmac, smac=smac)


def random_cut(rng):
    r = rng.random()
    if r < 0.25:
        return None                       # one segment per flight
    if r < 0.45:
        return gen_tls.cut_records
    if r < 0.7:
        return gen_tls.cut_mss(rng.choice([1460, 536, 100, 37]))
    return gen_tls.cut_random(rng.choice([2, 4, 8]))


class Scenario:
    """A capture with N TLS connections + ground truth."""

    def __init__(self, rng, combos, v6=None, cut="random", sports=None, app=None, shapes=None, resched=0.3, isn=None):
        self.rng = rng
        self.parts = []
        for i, (code, version, etm) in enumerate(combos):
            shape = dict(shapes[i]) if shapes else random_shape(rng, version)
            shape["etm"] = etm
            sc = gen_tls.Script(version, code, app[i] if app else random_app(rng), rng, **shape)
            ep = random_endpoints(rng, i, v6=v6, sport=(sports[i] if sports else 443))
            if isn == "wrap":
                # the sequence numbers of both directions pass 2^32 early in the connection (inside the handshake or the first records)
                ep["cisn"], ep["sisn"] = 2 ** 32 - rng.randrange(1, 900), 2 ** 32 - rng.randrange(1, 2500)
            conn = gen_tls.TcpConn(**ep)
            conn.want_reschedule = rng.random() < resched
            c = random_cut(rng) if cut == "random" else cut
            self.parts.append((sc, conn, c))
        self.items, self.keylog, self.truths = gen_tls.build_capture(self.parts, rng)
        self.owners = list(gen_tls.build_capture.last_owners)      # (connection index, packet index) per item
        self.keylog_owner = [i for i, (sc, _, _) in enumerate(self.parts) for _ in sc.keylog_lines()]

    def capture(self, **kw):
        return wire.pcapng(self.items, **kw)

    def keylog_text(self):
        return "\n".join(self.keylog) + "\n"

    def describe(self):
        return [{"version": sc.v, "suite": f"{sc.code:04X}", "name": spec_suites.R[sc.code], "etm": sc.etm,
                 "shape": {k: (v if isinstance(v, (int, float, str, bool)) else "…") for k, v in sc.shape.items()},
                 "records": [(d, len(p)) for d, p in sc.app], "v6": len(conn.cip) == 16,
                 "cut": getattr(c, "__name__", "flight") if c else "flight", "segments": len(conn.pkts),
                 "rescheduled": bool(getattr(conn, "want_reschedule", False))}
                for sc, conn, c in self.parts]

    def replay_blob(self, args=()):
        return {"capture_hex": self.capture().hex(), "keylog": self.keylog_text(), "argv": list(args),
                "truth": {str(i): {"c2s": t[0].hex(), "s2c": t[1].hex()} for i, t in self.truths.items()},
                "endpoints": [{"cip": conn.cip.hex(), "cport": conn.cport, "sip": conn.sip.hex(), "sport": conn.sport}
                              for _, conn, _ in self.parts]}


def find_conv(convs, conn, server_port=None):
    """the exported TCP conversation of a connection: matched by client endpoint and server address"""
    for k, c in convs.items():
        if c["client"] == (conn.cip, conn.cport) and c["server"][0] == conn.sip and \
                (server_port is None or c["server"][1] == server_port):
            return c
    return None


def decode(out):
    """strict decode of an output file → (pkts, tcp conversations, udp flows)"""
    pkts = wire.read_output(out)
    return pkts, wire.tcp_conversations(pkts), wire.udp_flows(pkts)


def compare_export(sc_or_endpoints, truths, out, server_port=None):
    """→ list of (conn index, problem string); empty = every connection exported exactly"""
    probs = []
    try:
        _, convs, _ = decode(out)
    except wire.FrameError as e:
        return [(-1, f"bad-frame:{e}")]
    for i, conn in enumerate(sc_or_endpoints):
        c = find_conv(convs, conn, server_port)
        t = truths[i]
        if c is None:
            if t[0] or t[1]:
                probs.append((i, "missing-flow"))
            continue
        if c["c2s"] != t[0]:
            probs.append((i, f"stream-mismatch:c2s got {len(c['c2s'])} want {len(t[0])} bytes, first diff at "
                             f"{first_diff(c['c2s'], t[0])}"))
        if c["s2c"] != t[1]:
            probs.append((i, f"stream-mismatch:s2c got {len(c['s2c'])} want {len(t[1])} bytes, first diff at "
                             f"{first_diff(c['s2c'], t[1])}"))
    return probs


def first_diff(a, b):
    for i, (x, y) in enumerate(zip(a, b)):
        if x != y:
            return i
    return min(len(a), len(b))


def replay_run(obj, extra_args=()):
    """re-run a replay blob on the real tool"""
    return tool.run(bytes.fromhex(obj["capture_hex"]), obj.get("keylog"), list(obj.get("argv", [])) + list(extra_args))


# ----------------------------------------------------------------------------- mixed TLS + QUIC captures
class Mixed:
    """N TLS and M QUIC connections plus unrelated traffic, interleaved packet by packet (order-preserving merge).
    Every connection keeps its own packet order; timestamps are assigned after merging, strictly increasing.
    `pattern`: 'random' | 'same-hosts' (one client host, one server host, different client ports) |
               'same-cport' (the same client ip:port towards different servers)."""

    def __init__(self, rng, tls_combos, n_quic=0, pattern="random", noise=True, v6=None, quic_features=None,
                 tls_app=None, resched=0.3, repack=0.12, shape_hook=None, partial=0.0):
        import gen_quic
        self.rng = rng
        self.tls, self.quic = [], []
        base = random_endpoints(rng, 0, v6=v6)
        per = []        # per connection: list of frames
        self.kinds = []
        for i, (code, version, etm) in enumerate(tls_combos):
            shape = random_shape(rng, version)
            shape["etm"] = etm
            if shape_hook:
                shape.update(shape_hook(rng, version))
            sc = gen_tls.Script(version, code, tls_app[i] if tls_app else random_app(rng, 3, 7), rng, **shape)
            ep = random_endpoints(rng, i, v6=(len(base["cip"]) == 16) if pattern != "random" else v6)
            if pattern == "same-hosts":
                ep.update(cip=base["cip"], sip=base["sip"], cmac=base["cmac"], smac=base["smac"], cport=base["cport"] + 1 + i)
            elif pattern == "same-cport":
                ep.update(cip=base["cip"], cmac=base["cmac"], cport=base["cport"])
            elif pattern == "same-server":
                ep.update(sip=base["sip"], smac=base["smac"], cport=base["cport"])
            elif pattern == "mirrored" and i < 2:
                # two connections between the same two hosts that mirror each other: A:p -> B:443 and B:p -> A:443
                a, b = ("c", "s") if i == 0 else ("s", "c")
                ep.update(cip=base[a + "ip"], cmac=base[a + "mac"], sip=base[b + "ip"], smac=base[b + "mac"],
                          cport=base["cport"])
            conn = gen_tls.TcpConn(**ep)
            cut = random_cut(rng)
            flights, truth = sc.render()
            for d, data in flights:
                conn.send(d, data, rng, cut)
            if rng.random() < resched:
                conn.reschedule(rng, repack=repack, partial=partial)
                conn.want_reschedule = True
            self.tls.append({"script": sc, "conn": conn, "truth": truth, "keylog": sc.keylog_lines()})
            per.append([f for _, f, *_ in conn.pkts])
            self.kinds.append(("tls", len(self.tls) - 1))
        for j in range(n_quic):
            feats = dict(quic_features[j]) if quic_features else {}
            if pattern != "random":
                feats.setdefault("v6", len(base["cip"]) == 16)
                qb = random_endpoints(rng, 50 + j, v6=len(base["cip"]) == 16)
                if pattern == "same-hosts":
                    feats["endpoints"] = {"cip": base["cip"], "sip": base["sip"], "cport": base["cport"] + 100 + j}
                elif pattern == "same-cport":
                    feats["endpoints"] = {"cip": base["cip"], "sip": qb["sip"], "cport": base["cport"]}
                elif pattern == "same-server":
                    feats["endpoints"] = {"cip": qb["cip"], "sip": base["sip"], "cport": base["cport"]}
                elif pattern == "mirrored" and j < 2:
                    a, b = ("c", "s") if j == 0 else ("s", "c")
                    feats["endpoints"] = {"cip": base[a + "ip"], "sip": base[b + "ip"], "cport": base["cport"] + 7}
            c, f = gen_quic.random_connection(rng, 100 + j, features=feats)
            self.quic.append({"conn": c, "features": f, "keylog": c.keylog_lines()})
            per.append([fr for _, _, fr in c.items])
            self.kinds.append(("quic", len(self.quic) - 1))
        if noise:
            nz = []
            for k in range(rng.randrange(2, 8)):
                if rng.random() < 0.5:      # plain TCP on unwatched ports / non-IP
                    nz.append(wire.tcp_frame(gen_tls.CMAC, gen_tls.SMAC, bytes([10, 7, 7, 7]), bytes([10, 7, 7, 8]),
                                             40000 + k, 8081, 100 + k, 1, 0x18, rng.randbytes(rng.randrange(1, 100))))
                else:                       # UDP without the QUIC fixed bit (DNS-like)
                    d = bytearray(rng.randbytes(rng.randrange(12, 80)))
                    d[0] &= 0xBF
                    nz.append(wire.udp_frame(gen_tls.CMAC, gen_tls.SMAC, bytes([10, 7, 7, 7]), bytes([10, 7, 7, 9]),
                                             40000 + k, 53, bytes(d)))
            nz.append(b"\xff" * 12 + b"\x08\x06" + rng.randbytes(28))     # ARP-like non-IP frame
            if rng.random() < 0.5:
                # a QUIC Version Negotiation packet (RFC 9000 17.2.1: version 0, supported versions follow) of some other
                # client's attempt; it opens a QUIC session that never exports stream data
                d, s_ = rng.randbytes(rng.choice([0, 8])), rng.randbytes(8)
                vn = bytes([0x80 | rng.randrange(0x40, 0x80)]) + b"\0\0\0\0" + bytes([len(d)]) + d + bytes([len(s_)]) + s_ + \
                    b"".join(rng.choice([b"\0\0\0\x01", b"\x6b\x33\x43\xcf", b"\xff\0\0\x1d"]) for _ in range(rng.randrange(1, 4)))
                nz.append(wire.udp_frame(gen_tls.SMAC, gen_tls.CMAC, bytes([10, 7, 7, 10]), bytes([10, 7, 7, 7]), 443, 40100, vn))
            per.append(nz)
            self.kinds.append(("noise", 0))
        idx = [0] * len(per)
        self.items, self.owners = [], []
        t = 1_700_000_000_000_000 + rng.randrange(0, 10 ** 6)
        while any(idx[i] < len(per[i]) for i in range(len(per))):
            live = [i for i in range(len(per)) if idx[i] < len(per[i])]
            i = rng.choice(live)
            # a coarse clock may give a QUIC answer the timestamp of the datagram it answers (opposite direction)
            same_tick = (self.owners and self.owners[-1] == i and self.kinds[i][0] == "quic" and idx[i] > 0 and
                         self.quic[self.kinds[i][1]]["conn"].dirs[idx[i]] != self.quic[self.kinds[i][1]]["conn"].dirs[idx[i] - 1]
                         and not getattr(self, "_tick_chain", False) and rng.random() < 0.1)
            self._tick_chain = bool(same_tick)         # never three datagrams on one tick: two of them would share a direction
            t += 0 if same_tick else (rng.randrange(1, 10) if rng.random() < 0.1 else rng.randrange(1, 30_000))
            self.items.append(("pkt", t, per[i][idx[i]]))
            self.owners.append(i)
            idx[i] += 1
        # QUIC ground truth follows the new timestamps
        for j, q in enumerate(self.quic):
            me = [k for k, kd in enumerate(self.kinds) if kd == ("quic", j)][0]
            new_ts = [it[1] for it, o in zip(self.items, self.owners) if o == me]
            q["expect"] = [(new_ts[k], d, b) for k, (t0, d, b) in zip(q["conn"].expect_idx, q["conn"].expect)]
        kl = [l for c in self.tls + self.quic for l in c["keylog"]]
        rng.shuffle(kl)
        self.keylog = kl

    def keylog_text(self):
        return "\n".join(self.keylog) + "\n"

    def capture(self, only=None, **kw):
        """whole capture, or only the packets of connection index `only` (same timestamps)"""
        items = self.items if only is None else [it for it, o in zip(self.items, self.owners) if o == only]
        return wire.pcapng(items, **kw)

    def n_conns(self):
        return len(self.tls) + len(self.quic)

    def describe(self):
        return {"tls": [f"{c['script'].v}/{spec_suites.R[c['script'].code]}" for c in self.tls],
                "quic": [f"{q['features']['suite']:04X}" for q in self.quic], "packets": len(self.items)}


def flow_packets(pkts, cip, cport, sip, proto):
    """the strictly decoded output packets belonging to one connection, in file order, as comparable tuples"""
    out = []
    for us, p in pkts:
        if p["proto"] != proto:
            continue
        ends = {(p["src"], p["sport"]), (p["dst"], p["dport"])}
        if (cip, cport) in ends and sip in (p["src"], p["dst"]):
            out.append((us, p["smac"], p["dmac"], p["src"], p["sport"], p["dst"], p["dport"], p.get("flags"), p.get("seq"),
                        p.get("ack"), bytes(p["payload"])))
    return out
