"""Stand-alone run of the dissector work package: proofs + axiom audit, then the correspondence.
    cd /root/wt/q2a && PYTHONPATH=/repo:harness /venv/bin/python -W ignore harness/q2a_selftest.py [--no-prove] [--tier thorough]
"""
import json
import sys
import time

import fw
import q2a_dissect as Q


def main():
    tier = "thorough" if "thorough" in sys.argv else "quick"
    ctx = fw.Ctx("C02", tier, 0)
    t0 = time.time()
    if "--no-prove" not in sys.argv:
        ok = ctx.prove(Q.MODULES)
        ctx.require_theorems(Q.THEOREMS)
        print("proof stage:", "ok" if ok and not ctx.proof_problems else "BROKEN", "theorems audited:",
              len([t for t in ctx.theorems if t.startswith("TLX.Props.C02Dissect.")]), "in %.1fs" % (time.time() - t0))
        for p in ctx.proof_problems:
            print("  PROOF PROBLEM:", json.dumps(p)[:600])
    t1 = time.time()
    Q.correspond(ctx)
    print("correspondence: %.1fs" % (time.time() - t1))
    for name, p in sorted(ctx.corr.items()):
        print(f"  {name}: cases={p['cases']} disagreements={p['disagreements']}")
    print("  evaluations:", ctx.evaluations, "distinct:", len(ctx.distinct))
    for name, d in sorted(ctx.distribution.items()):
        print("  hist", name, dict(sorted(d.items(), key=lambda kv: -kv[1])[:24]))
    for d in ctx.disagreements[:6]:
        print("DISAGREE", json.dumps(d, default=str)[:3000])
    for f in ctx.failures[:4]:
        print("FAIL", json.dumps(f, default=str)[:2000])
    bad = bool(ctx.proof_problems or ctx.failures or any(p["disagreements"] for p in ctx.corr.values()))
    print("RESULT:", "PROBLEMS" if bad else "clean")
    return 1 if bad else 0


if __name__ == "__main__":
    sys.exit(main())
