"""Replay of `Props.ExportDemux.Ex.prefix_cross_routing` on the REAL tool (real cryptography, independent sender gen_quic):
the `short` clause of `CaptureSeparated` is needed — two QUIC connections on different 4-tuples whose connection-ID sets are
disjoint are NOT demultiplexed exactly when a connection ID of one of them happens to be what a short-header datagram of the
other starts with (bytes 1..).

Connection 1 (10.0.0.1:50000 -> 10.0.0.2:443): the client uses a 1-byte CID `c`; handshake, GET, then the server's datagram
`OK` (short header: first byte, `c`, then protected bytes `x y ...`) and the client's `MORE`.
Intruder (10.0.0.9:40000 -> 10.0.0.2:443): only its client Initial, captured before connection 1; its source CID is `c x`.
    connection 1 alone                  -> HI? ... GET, OK, MORE exported
    intruder's Initial + connection 1   -> the datagram `OK` is handed to the intruder's session: `OK` is missing
Control: an intruder whose CID is `c (x ^ 0xff)` changes nothing.

Standalone:  PYTHONPATH=/repo:harness python harness/export_demux_replay.py
"""
import random

import gen_quic as G
import tool
import wire


def conn1():
    c = G.QConn(random.Random(21), suite=0x1301, scid_c_len=1)
    c.handshake()
    c.app(0, [(0, 0, b"GET", False)])
    c.app(1, [(0, 0, b"OK", False)])
    c.app(0, [(0, 3, b"MORE", False)])
    return c


def intruder(scid, t0):
    c = G.QConn(random.Random(22), suite=0x1301, cip="10.0.0.9", cport=40000, scid_c_len=len(scid), t0=t0)
    c.scid_c = scid
    c.dcid_for_server = scid
    c.handshake()
    return c.items[0]                      # its client Initial only


def export(items, keylog):
    r = tool.run(wire.pcapng(items), keylog, [])
    assert not r.crashed, (r.exc, r.where)
    out = wire.read_output(r.out) if r.out else []
    return [p["payload"] for _, p in out if (p["src"], p["dst"]) in ((wire.ipb("10.0.0.1"), wire.ipb("10.0.0.2")),
                                                                          (wire.ipb("10.0.0.2"), wire.ipb("10.0.0.1")))]


def main():
    c = conn1()
    kl = "\n".join(c.keylog_lines()) + "\n"
    ok_idx = c.expect_idx[[e[2] for e in c.expect].index(b"OK")]
    ok_payload = wire.parse_frame(c.items[ok_idx][2])["payload"]
    cid = c.scid_c
    assert ok_payload[1:2] == cid and not ok_payload[0] & 0x80
    x = ok_payload[2]
    t_first = c.items[0][1]
    alone = export(c.items, kl)
    hit = export([intruder(cid + bytes([x]), t_first - 1000)] + c.items, kl)
    miss = export([intruder(cid + bytes([x ^ 0xff]), t_first - 1000)] + c.items, kl)
    print(f"client CID {cid.hex()}, server datagram OK starts {ok_payload[:4].hex()}")
    print("connection 1 alone            :", alone)
    print(f"with intruder CID {(cid + bytes([x])).hex()}       :", hit)
    print(f"with intruder CID {(cid + bytes([x ^ 0xff])).hex()} (control):", miss)
    assert b"OK" in alone and miss == alone
    assert b"OK" not in hit and [p for p in alone if p != b"OK"] == hit
    print("REPLAY agrees with Props.ExportDemux.Ex.prefix_cross_routing: the datagram was cross-routed on the real tool")


if __name__ == "__main__":
    main()
