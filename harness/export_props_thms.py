"""Theorems of lean/TLX/Props/ExportProps.lean: whole-program forms of C08, C13, C10, C07 for TLS (statements about
`TLX.Export.framesFrom` / the per-conversation frame lists `tlsFrames` of a run). To be required by c08 / c13 / c10 / c07."""
MODULES = ["TLX.Props.ExportProps"]
_NS = "TLX.Props.ExportProps."
THEOREMS_C08 = [_NS + n for n in ["cut_sessions_prefix", "export_cut_prefix_tls_items", "export_cut_prefix_tls",
                                  "export_cut_prefix_tls_ingest", "Ex.cut_before_late_dsb_not_prefix"]]
THEOREMS_C13 = [_NS + n for n in ["export_meta_only_adds_items"]]
THEOREMS_C10 = [_NS + n for n in ["export_ports_tls_items"]]
THEOREMS_C07 = [_NS + n for n in ["export_time_and_ends_tls_items"]]
THEOREMS = THEOREMS_C08 + THEOREMS_C13 + THEOREMS_C10 + THEOREMS_C07
