"""C02/C03 — packet-level part: `tlexport.quic.quic_session.QuicSession` (+ `QuicDecryptor`) against the Lean model
`TLX.Quic.Session` and against an independent toy-primitive RFC 9000/9001 sender.

proof:          lean/TLX/Props/C02Session.lean (THEOREMS below)
correspondence: a REAL `QuicSession` object per history, driven through its real `handle_packet` with
                  * `extract_quic_packet` of the module namespace replaced by a function that hands out pre-made
                    `LongQuicPacket` / `ShortQuicPacket` objects (the dissector is another model's package),
                  * `AESGCM` / `ChaCha20Poly1305` / `AESCCM` replaced by the toy classes of harness/toy_crypto.py,
                  * `dev_quic_keys` / `dev_initial_keys` / `key_update` replaced by toy derivations (FNV pads of ALL
                    their inputs; twin of lean/TLX/Quic/SessionToy.lean, compared on every run: point `q2b.toy.twin`),
                  * `QuicTlsSession` replaced by a toy handshake parser (twin of `SessionToy.tlsUpdate`) that hashes
                    every argument it is handed,
                versus `tlxdriver quicsession`. After EVERY datagram: exceptions swallowed by decrypt_packet (kind, per
                packet), exception escaping handle_packet, version, can_decrypt, suite selection, key-group presence,
                epochs, last key phases, largest packet number per space and direction, both CID sets (sorted), TLS
                parser state, every decryptor (cipher, keys, IVs, secrets), number of application generations, and the
                output_buffer entries appended (frame kind, fields, data, ts, isserver, packet type).
                points: q2b.toy.twin, q2b.session.valid, q2b.session.malformed
sender check:   for the valid histories (independent sender below: 4 suites, both versions, key updates by either side,
                pn gaps and encodings of 1-4 bytes within the RFC 9000 §17.1 window, NEW_CONNECTION_ID switches,
                Retry, 0-RTT, coalescing) the real code must swallow no exception and export exactly the sender's
                CRYPTO/STREAM frames in order with the right (ts, direction): signature `q2b-valid-history-not-exact`.

Entry points:  MODULES, THEOREMS, correspond(ctx).   Standalone: harness/q2b_selftest.py.
"""
import types

import fw
import toy_crypto as T
import gen_frames as GF

MODULES = ["TLX.Props.C02Session"]
THEOREMS = ["TLX.Props.C02Session." + t for t in (
    "session_total", "session_total_counterexample", "session_total_run", "wrong_keys_export_nothing",
    "key_epoch_tracks_sender", "cid_learning_client_initial", "cid_learning_server_initial", "direction_by_cid",
    "new_connection_id_direction", "retry_resets", "one_rtt_exact", "handshake_levels_exact",
    "damaged_key_phase_advances_epoch",
    # pn-store repair (only an authenticated packet moves the largest packet number of its space)
    "failed_packet_leaves_pn_table", "unauthenticated_step_leaves_pn_table", "wrong_keys_leave_pn_tables",
    "damaged_packet_leaves_pn_table", "legacy_pn_poisoned", "fixed_pn_not_poisoned")]

ERR = {"IndexError": "index", "KeyError": "key", "AttributeError": "attr", "UnboundLocalError": "unbound",
       "OverflowError": "overflow", "ValueError": "value", "TypeError": "type", "InvalidTag": "invalidtag",
       "UnsupportedAlgorithm": "unsupported"}
LABELS = ["CLIENT_HANDSHAKE_TRAFFIC_SECRET", "SERVER_HANDSHAKE_TRAFFIC_SECRET", "CLIENT_TRAFFIC_SECRET_0",
          "SERVER_TRAFFIC_SECRET_0", "CLIENT_EARLY_TRAFFIC_SECRET"]
SUITES = {0x1301: ("sha256", "aesgcm", 16), 0x1302: ("sha384", "aesgcm", 32), 0x1303: ("sha256", "chachapoly", 32),
          0x1304: ("sha256", "aesccm", 16)}
HASH_ID = {"sha256": 1, "sha384": 2}
HASH_LEN = {"sha256": 32, "sha384": 48}
PT_ID = {"i": 0, "z": 1, "o": 2, "h": 3, "r": 4, "v": 5}


def hx(b):
    if b is None:
        return "N"
    return bytes(b).hex() if len(b) else "-"


def kind(e):
    return ERR.get(type(e).__name__, "other")


# ============================================================================= toy derivations (twin of SessionToy.lean)
def toy_bytes(tag, parts, n):
    h = T.fnv_step(2166136261, tag)
    for p in parts:
        h = T.fnv_l(h, p)
    return bytes(T.pad(h, j) for j in range(n))


def toy_initial(ver, dcid):
    """ver: 0 unknown / 1 / 2 → ((skey, siv), (ckey, civ)) or None"""
    if ver == 0:
        return None
    vb = bytes([ver])
    return ((toy_bytes(11, [vb, dcid], 16), toy_bytes(12, [vb, dcid], 12)),
            (toy_bytes(13, [vb, dcid], 16), toy_bytes(14, [vb, dcid], 12)))


def sel_bytes(hash_name, ver, key_len):
    return bytes([HASH_ID[hash_name], ver, key_len])


def toy_dir_keys(hash_name, ver, key_len, secret):
    sb = sel_bytes(hash_name, ver, key_len)
    return toy_bytes(21, [sb, secret], key_len), toy_bytes(22, [sb, secret], 12)


def toy_next_secret(hash_name, secret):
    return toy_bytes(23, [bytes([HASH_ID[hash_name]]), secret], HASH_LEN[hash_name])


class ToyTls:
    """stand-in for QuicTlsSession: same attributes the session reads (ciphersuite, client_random, new_data, alpn,
    greasy_bit) and `update_session(frame)`."""

    def __init__(self):
        self.ciphersuite = None
        self.client_random = None
        self.alpn = None
        self.greasy_bit = False
        self.new_data = False
        self.n = 0
        self.h = 2166136261

    def update_session(self, frame):
        sp = frame.src_packet
        h = T.fnv_step(self.h, 1 if sp.isserver else 0)
        h = T.fnv_step(h, PT_ID[PTYPE_CH[sp.packet_type]])
        h = T.fnv_step(h, frame.offset)
        h = T.fnv_step(h, frame.crypto_length)
        self.h = T.fnv_l(h, frame.crypto)
        self.n += 1
        d = frame.crypto
        if len(d) >= 3 and d[0] == 0x01:
            self.ciphersuite = d[1:3]
            self.client_random = d[3:]
            self.new_data = True
        elif len(d) >= 3 and d[0] == 0x02:
            self.ciphersuite = d[1:3]
            self.new_data = True
        elif len(d) >= 1 and d[0] == 0x08:
            self.new_data = True
        elif len(d) >= 1 and d[0] == 0xEE:
            self.new_data = True
            raise IndexError("toy tls")
        elif len(d) >= 1 and d[0] == 0xEF:
            raise KeyError("toy tls")


PTYPE_CH = {}       # QuicPacketType -> one-letter code, filled by Impl


# ============================================================================= the real QuicSession under patches
class Impl:
    def __init__(self):
        import tlexport.quic.quic_session as QS
        from tlexport.quic.quic_packet import QuicPacketType, LongQuicPacket, ShortQuicPacket
        from tlexport.quic.quic_decode import QuicVersion
        from tlexport.quic.quic_decryptor import QuicDecryptor
        from tlexport.keylog_reader import Key
        self.QS, self.Key, self.QuicDecryptor = QS, Key, QuicDecryptor
        self.Long, self.Short = LongQuicPacket, ShortQuicPacket
        self.ver = {0: QuicVersion.UNKNOWN, 1: QuicVersion.V1, 2: QuicVersion.V2}
        self.ver_id = {v: k for k, v in self.ver.items()}
        self.pt = {"i": QuicPacketType.INITIAL, "z": QuicPacketType.RTT_O, "o": QuicPacketType.RTT_1,
                   "h": QuicPacketType.HANDSHAKE, "r": QuicPacketType.RETRY, "v": QuicPacketType.VERSION_NEG}
        PTYPE_CH.update({v: k for k, v in self.pt.items()})
        self.unbound = True
        self.caught = []
        self.s = None
        self.saved = None
        self.prev_out = 0

    # ---- patches -----------------------------------------------------------------------------------------------
    def __enter__(self):
        QS = self.QS
        names = ["AESGCM", "ChaCha20Poly1305", "AESCCM", "dev_quic_keys", "dev_initial_keys", "key_update",
                 "QuicTlsSession", "extract_quic_packet"]
        self.saved = {n: getattr(QS, n) for n in names}
        self.had_print = "print" in QS.__dict__
        QS.AESGCM, QS.ChaCha20Poly1305, QS.AESCCM = T.AESGCM, T.ChaCha20Poly1305, T.AESCCM
        QS.dev_quic_keys = self.dev_quic_keys
        QS.dev_initial_keys = self.dev_initial_keys
        QS.key_update = self.key_update
        QS.QuicTlsSession = ToyTls
        QS.extract_quic_packet = self.extract
        QS.print = self.capture_print           # `print(e)` in decrypt_packet's handler: module globals win over builtins
        return self

    def __exit__(self, *a):
        for n, v in self.saved.items():
            setattr(self.QS, n, v)
        if not self.had_print:
            del self.QS.print
        return False

    def capture_print(self, *a, **k):
        if a and isinstance(a[0], BaseException):
            self.caught.append(kind(a[0]))

    def dev_initial_keys(self, connection_id, quic_version, chacha20):
        r = toy_initial(self.ver_id[quic_version], bytes(connection_id))
        if r is None:
            return None
        (sk, si), (ck, ci) = r
        return {"server_initial_key": sk, "server_initial_iv": si, "client_initial_key": ck, "client_initial_iv": ci}

    def dev_quic_keys(self, key_length, secret_list, hash_fun, quic_version):
        ver = self.ver_id[quic_version]
        found = {}
        for s in secret_list:                       # the last line with a label wins
            found[s.label] = bytes.fromhex(s.value)
        ch, sh, ct, st, ce = (found.get(l) for l in LABELS)
        if self.unbound and (ch is None or sh is None or ct is None or st is None):
            raise UnboundLocalError("toy dev_quic_keys: local referenced before assignment")
        keys = {}
        dk = lambda sec: toy_dir_keys(hash_fun.name, ver, key_length, sec)
        if sh is not None and ch is not None:
            keys["server_handshake_key"], keys["server_handshake_iv"] = dk(sh)
            keys["client_handshake_key"], keys["client_handshake_iv"] = dk(ch)
        if st is not None and ct is not None:
            keys["server_application_key"], keys["server_application_iv"] = dk(st)
            keys["client_application_key"], keys["client_application_iv"] = dk(ct)
            keys["server_application_sec"], keys["client_application_sec"] = st, ct
        if ce is not None:
            keys["client_early_key"], keys["client_early_iv"] = dk(ce)
        return keys

    def key_update(self, decryptor_n, hash_fun, key_length, cipher, quic_version):
        ver = self.ver_id[quic_version]
        s1 = toy_next_secret(hash_fun.name, decryptor_n.keys[4])
        c1 = toy_next_secret(hash_fun.name, decryptor_n.keys[5])
        sk, si = toy_dir_keys(hash_fun.name, ver, key_length, s1)
        ck, ci = toy_dir_keys(hash_fun.name, ver, key_length, c1)
        return self.QuicDecryptor([sk, si, ck, ci, s1, c1], cipher, early=False)

    def extract(self, in_packet, isserver, guessed_dcid, keys, ciphersuite):
        """hands out the next batch of pre-made packets; the remaining ones stay in `tls_data`"""
        specs, cut = in_packet.q2b_specs, in_packet.q2b_cut
        now, later = specs[:cut], specs[cut:]
        objs = [self.make(sp, isserver) for sp in now]
        self.objs.extend(objs)
        rest = types.SimpleNamespace(tls_data=b"x" if later else b"", q2b_specs=later, q2b_cut=len(later),
                                     ip_src=in_packet.ip_src, sport=in_packet.sport)
        return objs, rest

    def make(self, sp, isserver):
        pt = self.pt[sp["pt"]]
        if sp["ht"] == "s":
            return self.Short(packet_type=pt, key_phase=sp["kp"], dcid=sp["dcid"], packet_num=sp["pn"],
                              payload=sp["pl"], isserver=isserver, first_byte=sp["fb"], ts=sp["ts"])
        return self.Long(packet_type=pt, version=sp["ver"], dcid_len=sp["dl"], dcid=sp["dcid"], scid_len=sp["sl"],
                         scid=sp["scid"], first_byte=sp["fb"], ts=sp["ts"], packet_len=None, packet_len_bytes=sp["lb"],
                         packet_num=sp["pn"], payload=sp["pl"], token_len=None, token_len_bytes=sp["tlb"],
                         token=sp["tok"], isserver=isserver, supported_version=())

    # ---- operations ----------------------------------------------------------------------------------------------
    def new(self, keylog, unbound):
        self.unbound = unbound
        first = types.SimpleNamespace(sport=40000, dport=443, ip_src=b"\x0a\x00\x00\x01", ip_dst=b"\x0a\x00\x00\x02",
                                      ethernet_src=b"\x02" * 6, ethernet_dst=b"\x04" * 6, ipv6_packet=False,
                                      tls_data=b"", timestamp=0.0)
        kl = [self.Key(f"{LABELS[l]} {cr.hex()} {sec.hex()}") for cr, l, sec in keylog]
        self.s = self.QS.QuicSession(first, [443], kl, {})
        self.prev_out = 0

    def dgram(self, from_client, dcid, ver, specs, cut):
        s = self.s
        pkt = types.SimpleNamespace(tls_data=b"x" if specs else b"", q2b_specs=specs, q2b_cut=cut,
                                    ip_src=b"\x0a\x00\x00\x01" if from_client else b"\x0a\x00\x00\x02",
                                    sport=40000 if from_client else 443)
        self.objs = []
        calls = []
        real = type(s).decrypt_packet

        def wrapped(qp):
            n = len(self.caught)
            real(s, qp)
            calls.append(self.caught[n] if len(self.caught) > n else "none")
        s.decrypt_packet = wrapped
        self.caught = []
        esc = "none"
        try:
            s.handle_packet(pkt, dcid, self.ver[ver])
        except Exception as e:
            esc = kind(e)
        finally:
            del s.decrypt_packet
        return calls, esc, self.state()

    def show_dec(self, d):
        if d is None:
            return "N"
        alg = d.client_bulk_cipher.tag
        srv = f"{hx(d.server_key)}.{hx(d.server_iv)}" if hasattr(d, "server_key") else "N.N"
        secs = (d.keys[4], d.keys[5]) if len(d.keys) >= 6 else (b"", b"")
        return f"{alg}.{srv}.{hx(d.client_key)}.{hx(d.client_iv)}.{hx(secs[0])}.{hx(secs[1])}"

    def show_out(self, f):
        sp = f.src_packet
        tail = f"/{sp.ts}/{1 if sp.isserver else 0}/{PTYPE_CH[sp.packet_type]}"
        n = type(f).__name__
        if n == "PseudoVersionNegotiationFrame":
            return "V" + tail
        if n == "CryptoFrame":
            return f"C.{f.offset}.{f.crypto_length}.{hx(f.crypto)}" + tail
        if n == "StreamFrame":
            return f"S.{f.frame_type}.{1 if f.fin else 0}.{f.stream_id}.{f.offset}.{f.data_length}.{hx(f.stream_data)}" + tail
        return "other" + tail

    def state(self):
        s = self.s
        QS = self.QS
        suite = "N"
        if s.hash_fun is not None or s.cipher is not None or s.key_length is not None:
            suite = f"{HASH_ID.get(getattr(s.hash_fun, 'name', None), '?')}:{getattr(s.cipher, 'tag', '?')}:{s.key_length}"
        k = s.keys
        flags = "".join("1" if n in k else "0" for n in ("client_initial_key", "server_handshake_key",
                                                         "server_application_key", "client_early_key"))
        pn = lambda t: ",".join(str(t[QS.PACKET_TYPE_MAP[self.pt[c]]]) for c in "iho")
        cids = lambda x: ",".join(sorted(hx(c) for c in x if c is not None))
        ph = lambda v: "N" if v is None else str(v)
        t = s.tls_session
        app = s.decryptors.get("Application")
        a = "N" if app is None else f"{len(app)};" + ";".join(self.show_dec(d) for d in app)
        out = s.output_buffer
        new = "|".join(self.show_out(f) for f in out[self.prev_out:])
        self.prev_out = len(out)
        return (f"v={self.ver_id[s.quic_version]} can={1 if s.can_decrypt else 0} etk={1 if s.early_traffic_keys else 0} "
                f"suite={suite} keys={flags} ep={s.epoch_client},{s.epoch_server} "
                f"ph={ph(s.last_key_phase_client)},{ph(s.last_key_phase_server)} "
                f"pnc={pn(s.packet_number_client)} pns={pn(s.packet_number_server)} "
                f"cc={cids(s.client_cids)} sc={cids(s.server_cids)} "
                f"tls={hx(t.client_random)}:{hx(t.ciphersuite)}:{1 if t.new_data else 0}:{t.n}:{t.h} "
                f"I={self.show_dec(s.decryptors.get('Initial'))} H={self.show_dec(s.decryptors.get('Handshake'))} "
                f"E={self.show_dec(s.decryptors.get('Early'))} A={a} out={len(out)}:{new}")


# ============================================================================= line protocol
def spec_tokens(sp):
    return [sp["ht"], sp["pt"], str(sp["ts"]), hx(sp["fb"]), hx(sp["ver"]), hx(sp["dl"]), hx(sp["dcid"]), hx(sp["sl"]),
            hx(sp["scid"]), hx(sp["tlb"]), hx(sp["tok"]), hx(sp["lb"]), hx(sp["pn"]), hx(sp["pl"]),
            "N" if sp["kp"] is None else str(sp["kp"])]


def dgram_line(from_client, dcid, ver, specs):
    toks = ["dgram", "1" if from_client else "0", hx(dcid), str(ver), str(len(specs))]
    for sp in specs:
        toks += spec_tokens(sp)
    return " ".join(toks)


# ============================================================================= independent toy-primitive sender
def varint(v, p=None):
    if p is None:
        p = 0 if v < 64 else 1 if v < 16384 else 2 if v < (1 << 30) else 3
    return GF.enc_varint(v, p)


class Sender:
    """RFC 9000 §17 packet layout, §17.1 packet-number truncation, RFC 9001 §5.3 nonce, §5.2/§6 key levels and key
    updates — over the toy seal function and the toy derivations. Shares no code with tlexport or the Lean model."""

    def __init__(self, rng, suite, ver, features):
        self.rng, self.suite, self.ver, self.f = rng, suite, ver, features
        self.hash, self.alg, self.klen = SUITES[suite]
        self.used = set()
        self.cr = bytes(rng.randrange(256) for _ in range(rng.choice([4, 8, 32])))
        self.secrets = [bytes(rng.randrange(256) for _ in range(HASH_LEN[self.hash])) for _ in range(5)]
        cl = rng.choice([0, 1, 4, 8, 8, 20]) if features.get("zero_cid") else rng.choice([1, 4, 8, 8, 20])
        sl = rng.choice([1, 4, 8, 8, 20])
        self.ccid = [self.cid(cl)]               # CIDs the client issued (server → client packets carry them)
        self.scid = [self.cid(sl)]
        self.odcid = self.cid(rng.choice([8, 8, 12, 20]))
        self.cur_dcid_to_server = self.odcid
        self.pn = {}                             # (srv, space) -> next packet number
        self.largest = {}                        # (srv, space) -> largest sent (what the capture has seen)
        self.gen = [0, 0]                        # key generation per sender (0 client, 1 server)
        self.app_secrets = {0: (self.secrets[3], self.secrets[2])}      # gen -> (server secret, client secret)
        self.ts = 1000
        self.expected = []                       # exported entries the property demands
        self.seq = [1, 1]

    def cid(self, n):
        while True:
            c = bytes(self.rng.randrange(256) for _ in range(n))
            if n == 0 or c not in self.used:
                self.used.add(c)
                return c

    def keylog(self, drop=()):
        return [(self.cr, l, self.secrets[l]) for l in range(5) if l not in drop]

    # ---- keys per level ----
    def keys_for(self, level, srv, gen=0):
        """(alg, key, iv) the sender of direction `srv` uses at this level"""
        if level == "i":
            r = toy_initial(self.ver, self.initial_dcid)
            k = r[0] if srv else r[1]
            return "aesgcm", k[0], k[1]
        if level == "h":
            sec = self.secrets[1] if srv else self.secrets[0]
        elif level == "z":
            sec = self.secrets[4]
        else:
            while gen not in self.app_secrets:
                g = max(self.app_secrets)
                s, c = self.app_secrets[g]
                self.app_secrets[g + 1] = (toy_next_secret(self.hash, s), toy_next_secret(self.hash, c))
            sec = self.app_secrets[gen][0 if srv else 1]
        k, iv = toy_dir_keys(self.hash, self.ver, self.klen, sec)
        return self.alg, k, iv

    # ---- packet numbers (RFC 9000 §17.1, A.2) ----
    def next_pn(self, srv, space):
        key = (srv, space)
        start = self.pn.get(key)
        if start is None:
            start = self.rng.choice([0, 0, 0, 1, 5, 200, 70000]) if self.f.get("pn_start") else 0
        gap = 0
        if self.f.get("pn_gaps") and self.rng.random() < 0.4:
            gap = self.rng.choice([1, 2, 10, 100, 127, 300, 30000, 40000])
        pn = start + gap
        self.pn[key] = pn + 1
        largest = self.largest.get(key, 0)
        # smallest length whose half window covers the distance to the largest number the capture has seen
        choices = [n for n in (1, 2, 3, 4)
                   if largest + 1 < pn + (1 << (8 * n)) // 2 and pn < largest + 1 + (1 << (8 * n)) // 2]
        n = choices[0] if self.rng.random() < 0.6 else self.rng.choice(choices)
        self.largest[key] = max(largest, pn)
        return pn, n

    def seal(self, alg, key, iv, pn, aad, payload):
        nonce = bytes(a ^ b for a, b in zip(iv, pn.to_bytes(len(iv), "big")))
        return T.aead_seal(alg, key, nonce, aad, 16, payload)

    def tick(self):
        self.ts += self.rng.choice([1, 3, 250])
        return self.ts

    def expect(self, frames, ts, srv, pt):
        for f in frames:
            if f["k"] == "crypto":
                self.expected.append(f"C.{f['offset'][0]}.{len(f['data'])}.{hx(f['data'])}/{ts}/{srv}/{pt}")
            elif f["k"] == "stream":
                off = f["offset"][0] if f["off"] else 0
                self.expected.append(f"S.{GF.stream_type(f)}.{1 if f['fin'] else 0}.{f['sid'][0]}.{off}."
                                     f"{len(f['data'])}.{hx(f['data'])}/{ts}/{srv}/{pt}")

    def long(self, pt, srv, frames, dcid, scid, token=b"", raw=None):
        space = {"i": "i", "h": "h", "z": "a"}[pt]
        pn, n = self.next_pn(srv, space)
        payload = GF.encode_sequence(frames) if raw is None else raw
        typ = {"i": 0, "z": 1, "h": 2}[pt]
        if self.ver == 2:
            typ = {"i": 1, "z": 2, "h": 3}[pt]
        fb = bytes([0xC0 | (typ << 4) | (n - 1)])
        verb = (1 if self.ver == 1 else 0x6b3343cf).to_bytes(4, "big")
        pnb = (pn % (1 << (8 * n))).to_bytes(n, "big")
        lb = varint(n + len(payload) + 16, self.rng.choice([None, 1, 2]) if n + len(payload) + 16 < 16384 else None)
        tlb = tok = None
        hdr = fb + verb + bytes([len(dcid)]) + dcid + bytes([len(scid)]) + scid
        if pt == "i":
            tlb, tok = varint(len(token)), token
            hdr += tlb + tok
        hdr += lb + pnb
        alg, key, iv = self.keys_for(pt, srv)
        ts = self.tick()
        self.expect(frames, ts, srv, pt)
        return {"ht": "l", "pt": pt, "ts": ts, "fb": fb, "ver": verb, "dl": bytes([len(dcid)]), "dcid": dcid,
                "sl": bytes([len(scid)]), "scid": scid, "tlb": tlb, "tok": tok, "lb": lb, "pn": pnb,
                "pl": self.seal(alg, key, iv, pn, hdr, payload), "kp": None}

    def short(self, srv, frames, dcid, gen, raw=None):
        pn, n = self.next_pn(srv, "a")
        payload = GF.encode_sequence(frames) if raw is None else raw
        fb = bytes([0x40 | (self.rng.randrange(2) << 5) | ((gen & 1) << 2) | (n - 1)])
        pnb = (pn % (1 << (8 * n))).to_bytes(n, "big")
        alg, key, iv = self.keys_for("o", srv, gen)
        ts = self.tick()
        self.expect(frames, ts, srv, "o")
        return {"ht": "s", "pt": "o", "ts": ts, "fb": fb, "ver": None, "dl": None, "dcid": dcid, "sl": None,
                "scid": None, "tlb": None, "tok": None, "lb": None, "pn": pnb,
                "pl": self.seal(alg, key, iv, pn, fb + dcid + pnb, payload), "kp": gen & 1}

    def retry(self, dcid, scid):
        return {"ht": "l", "pt": "r", "ts": self.tick(), "fb": b"\xf0", "ver": (1).to_bytes(4, "big"),
                "dl": bytes([len(dcid)]), "dcid": dcid, "sl": bytes([len(scid)]), "scid": scid, "tlb": None,
                "tok": None, "lb": None, "pn": None, "pl": None, "kp": None}

    # ---- frames ----
    def other_frames(self, srv, level):
        rng = self.rng
        out = []
        for _ in range(rng.choice([0, 0, 1, 2])):
            k = rng.choice(["ack", "ping", "padding", "padding", "max_data", "ack_ecn"] +
                           (["max_stream_data", "handshake_done", "retire_connection_id", "new_token",
                             "path_challenge", "datagram_len"] if level == "o" else []))
            out.append(GF.make_frame(rng, k))
        return out

    def stream_frame(self, last):
        rng = self.rng
        f = GF.make_frame(rng, "stream", flags=(rng.random() < 0.2, (not last) or rng.random() < 0.7, rng.random() < 0.5))
        return f

    def crypto_frame(self, data, off=0):
        return {"k": "crypto", "offset": (off, self.rng.randrange(4)), "len_p": self.rng.choice([1, 2, 3]) if len(data) > 63
                else self.rng.randrange(4), "data": data}

    def frames_1rtt(self, srv):
        rng = self.rng
        fs = self.other_frames(srv, "o")
        n = rng.choice([0, 1, 1, 2, 3])
        if rng.random() < 0.1:
            fs.append(self.crypto_frame(bytes([0x04]) + bytes(rng.randrange(256) for _ in range(rng.randrange(0, 40)))))
        for i in range(n):
            fs.insert(rng.randrange(len(fs) + 1), self.stream_frame(False))
        if rng.random() < 0.5:
            fs.append(self.stream_frame(True))
        if not fs:
            fs = [{"k": "ping"}]
        return fs


def valid_history(rng, idx):
    """one connection: list of (from_client, routing_dcid, version, [specs], cut) + keylog + expected exports"""
    suite = [0x1301, 0x1302, 0x1303, 0x1304][idx % 4]
    ver = 2 if idx % 7 == 3 else 1
    feats = {"pn_gaps": rng.random() < 0.7, "pn_start": rng.random() < 0.3, "retry": idx % 5 == 1,
             "zero_rtt": idx % 3 == 0, "updates": rng.random() < 0.7, "ncid": rng.random() < 0.6,
             "zero_cid": rng.random() < 0.15, "coalesce": rng.random() < 0.5}
    S = Sender(rng, suite, ver, feats)
    S.initial_dcid = S.odcid
    dg = []
    ch = bytes([0x01]) + suite.to_bytes(2, "big") + S.cr
    c0, s0 = S.ccid[0], S.scid[0]

    def add(from_client, dcid, specs, cut=None):
        dg.append((from_client, dcid, ver, specs, len(specs) if cut is None else cut))

    # client Initial (ClientHello), possibly answered by Retry
    pad = [{"k": "padding"}] * rng.choice([0, 3, 20])
    add(True, S.odcid, [S.long("i", 0, [S.crypto_frame(ch)] + pad, S.odcid, c0)])
    if feats["retry"]:
        rscid = S.cid(rng.choice([8, 12, 20]))
        add(False, c0, [S.retry(c0, rscid)])
        S.initial_dcid = rscid
        # RFC 9000 §17.2.5.3: the client keeps its packet-number space going after a Retry
        add(True, rscid, [S.long("i", 0, [S.crypto_frame(ch)] + pad, rscid, c0, token=b"retry-token")])
    to_server = S.initial_dcid
    if feats["zero_rtt"]:
        for _ in range(rng.choice([1, 2])):
            add(True, to_server, [S.long("z", 0, S.other_frames(0, "z") + [S.stream_frame(True)], to_server, c0)])
    # server Initial (ServerHello) [+ Handshake coalesced]
    sh = bytes([0x02]) + suite.to_bytes(2, "big") + bytes(rng.randrange(256) for _ in range(8))
    ee = bytes([0x08]) + bytes(rng.randrange(256) for _ in range(rng.randrange(0, 30)))
    p_si = S.long("i", 1, [GF.make_frame(rng, "ack"), S.crypto_frame(sh)], c0, s0)
    p_sh = S.long("h", 1, [S.crypto_frame(ee)], c0, s0)
    if feats["coalesce"]:
        add(False, c0, [p_si, p_sh], cut=rng.choice([1, 2]))
    else:
        add(False, c0, [p_si])
        add(False, c0, [p_sh])
    if rng.random() < 0.5:
        add(False, c0, [S.long("h", 1, [S.crypto_frame(bytes([0x0b]) + b"certificate", len(ee))], c0, s0)])
    # client Initial ACK + Handshake (Finished)
    fin = [S.crypto_frame(bytes([0x14]) + b"finished")]
    if rng.random() < 0.5:
        add(True, s0, [S.long("i", 0, [GF.make_frame(rng, "ack")], s0, c0), S.long("h", 0, fin, s0, c0)])
    else:
        add(True, s0, [S.long("h", 0, fin, s0, c0)])
    # 1-RTT
    cur_to_server, cur_to_client = s0, c0          # DCIDs in use
    n = rng.randrange(4, 22)
    for i in range(n):
        srv = rng.randrange(2)
        me, peer = srv, 1 - srv
        # RFC 9001 §6.1/§6.2: follow the peer's update; initiate one only when the peer has reached my generation
        if S.gen[peer] > S.gen[me]:
            S.gen[me] = S.gen[peer]
        elif feats["updates"] and S.gen[peer] == S.gen[me] and rng.random() < 0.25:
            S.gen[me] += 1
        fs = S.frames_1rtt(srv)
        if feats["ncid"] and rng.random() < 0.3:
            mine = S.scid if srv else S.ccid
            if len(mine[0]) > 0:
                new = S.cid(len(mine[0]) if rng.random() < 0.8 else rng.choice([4, 8, 20]))
                mine.append(new)
                fs.insert(rng.randrange(len(fs)), {"k": "new_connection_id", "seq": (S.seq[srv], rng.randrange(4)),
                                                   "retire": (0, rng.randrange(4)), "cid": new,
                                                   "token": bytes(rng.randrange(256) for _ in range(16))})
                S.seq[srv] += 1
        if not GF.well_formed(fs):
            fs = [f for f in fs[:-1] if not GF.greedy(f)] + fs[-1:]
        dcid = cur_to_client if srv else cur_to_server
        add(not srv, dcid, [S.short(srv, fs, dcid, S.gen[srv])])
        # switch to a CID the peer issued (only CIDs the capture has seen in a NEW_CONNECTION_ID frame)
        if feats["ncid"] and rng.random() < 0.4:
            if srv and len(S.ccid) > 1:
                cur_to_client = rng.choice(S.ccid[1:])
            if not srv and len(S.scid) > 1:
                cur_to_server = rng.choice(S.scid[1:])
    return S, dg


# ---- malformed / out-of-spec histories ---------------------------------------------------------------------------
def mutate_spec(rng, sp):
    sp = dict(sp)
    r = rng.randrange(16)
    pl = sp["pl"]
    if r == 0 and pl:                                  # bad tag / corrupted body
        i = rng.randrange(len(pl))
        sp["pl"] = pl[:i] + bytes([pl[i] ^ (1 << rng.randrange(8))]) + pl[i + 1:]
    elif r == 1 and sp["ht"] == "s":                   # corrupted packet with flipped key phase
        sp["kp"] = 1 - sp["kp"]
        if pl and rng.random() < 0.8:
            sp["pl"] = pl[:-1] + bytes([pl[-1] ^ 1])
    elif r == 2:
        sp["pl"] = rng.choice([None, b"", pl[:5] if pl else b"\x00"])
    elif r == 3:
        sp["pn"] = rng.choice([None, b"", bytes(rng.randrange(256) for _ in range(rng.choice([5, 8, 9, 12, 13, 14])))])
    elif r == 4:
        f = rng.choice(["ver", "dl", "sl", "scid", "tlb", "tok", "lb"])
        sp[f] = None if sp[f] is not None else b"\x00"
    elif r == 5:
        sp["kp"] = rng.choice([None, 2, 0, 1])
    elif r == 6:                                       # class/type combinations the dissector never builds
        sp["ht"] = "l" if sp["ht"] == "s" else "s"
        for f in ("ver", "dl", "sl", "scid"):
            if sp[f] is None:
                sp[f] = b"\x01"
        if sp["kp"] is None:
            sp["kp"] = rng.randrange(2)
    elif r == 7:
        sp["pt"] = rng.choice("izohrv")
    elif r == 8 and sp["pn"]:                          # wrong truncated number (outside the window)
        sp["pn"] = bytes(rng.randrange(256) for _ in range(len(sp["pn"])))
    elif r == 9:
        sp["dcid"] = bytes(rng.randrange(256) for _ in range(rng.choice([0, 4, 8])))
    elif r == 10:
        sp["fb"] = bytes([sp["fb"][0] ^ (1 << rng.randrange(8))])
    elif r == 11:
        sp["ts"] = sp["ts"] + rng.randrange(3)
    elif r == 12 and sp["pn"] is not None:             # first-packet shortcut with an over-long number
        sp["pn"] = bytes([rng.randrange(1, 256)]) + bytes(rng.randrange(256) for _ in range(rng.choice([8, 11, 12, 13])))
    return sp


def toy_tls_packet(S, rng, srv, level, first):
    """a correctly protected packet whose CRYPTO/other frames make the handlers raise or re-key"""
    choice = rng.randrange(7)
    if choice == 0:
        fs = [S.stream_frame(False), S.crypto_frame(bytes([0xEE, 1, 2])), S.stream_frame(True)]
    elif choice == 1:
        fs = [S.crypto_frame(bytes([0xEF])), S.stream_frame(True)]
    elif choice == 2:
        fs = [S.crypto_frame(bytes([0x01, 0x13, rng.choice([1, 2, 3, 4, 5, 0xff])]) + rng.choice([S.cr, b"zz", S.cr[:3]]))]
    elif choice == 3:
        fs = [S.crypto_frame(bytes([0x02, rng.choice([0x13, 0x00]), rng.choice([1, 2, 3, 4, 9])]))]
    elif choice == 4:
        fs = [S.crypto_frame(bytes([0x08]))]
    elif choice == 5:
        fs = None                                      # frames that do not parse
    else:
        fs = [S.stream_frame(False), {"k": "connection_close_app", "error": (3, 0), "len_p": 0, "reason": b"bye"}]
    if fs is None:
        raw = rng.choice([b"\x18\x00", b"\x06\x40", b"\x02\x01\x00\xff\xff\xff\xff\xff\xff\xff\xff\x00", b"\x08"])
        return S, raw
    return S, fs


def malformed_history(rng, idx):
    S, dg = valid_history(rng, idx)
    mode = rng.randrange(6)
    drop = ()
    unbound = True
    if mode == 0:                                      # missing key-log groups
        drop = tuple(rng.sample(range(5), rng.choice([1, 1, 2, 5])))
        unbound = rng.random() < 0.5
    out = []
    for (fc, dcid, ver, specs, cut) in dg:
        r = rng.random()
        if mode == 1 and r < 0.15:                     # datagram lost / duplicated / reordered
            continue
        if r < 0.35:
            specs = [mutate_spec(rng, sp) if rng.random() < 0.7 else sp for sp in specs]
        if rng.random() < 0.05:
            fc = not fc                                # server-direction 0-RTT, client-direction server packets, …
        if rng.random() < 0.05:
            dcid = rng.choice([b"", S.odcid, S.ccid[0], S.scid[0], bytes(rng.randrange(256) for _ in range(8))])
        if rng.random() < 0.04:
            ver = rng.choice([0, 1, 2])
        out.append((fc, dcid, ver, specs, min(cut, len(specs)) if specs else 0))
        if mode == 1 and rng.random() < 0.1:
            out.append(out[-1])
        if rng.random() < 0.08:                        # stray packets
            k = rng.randrange(5)
            if k == 0:
                out.append((False, S.ccid[0], ver, [S.retry(S.ccid[0], S.cid(8))], 1))
            elif k == 1:
                sp = S.retry(S.ccid[0], b"")
                sp["pt"] = "v"
                out.append((rng.random() < 0.2, S.ccid[0], ver, [sp], 1))
            elif k == 2:
                srv = rng.randrange(2)
                lvl = rng.choice("ihzo")
                _, fs = toy_tls_packet(S, rng, srv, lvl, False)
                d = S.ccid[0] if srv else S.scid[0]
                raw, fs = (fs, []) if isinstance(fs, bytes) else (None, fs)
                if lvl == "o":
                    sp = S.short(srv, fs, d, S.gen[srv], raw=raw)
                else:
                    sp = S.long(lvl, srv, fs, d, S.scid[0] if srv else S.ccid[0], raw=raw)
                out.append((not srv, d, ver, [sp], 1))
            elif k == 3:                               # 1-RTT packet of a generation nobody announced
                srv = rng.randrange(2)
                d = S.ccid[0] if srv else S.scid[0]
                out.append((not srv, d, ver, [S.short(srv, [S.stream_frame(True)], d, S.gen[srv] + rng.choice([1, 2, 3]))], 1))
            else:
                out.append((rng.random() < 0.5, b"", ver, [], 0))
    if mode == 2:
        rng.shuffle(out)
    if mode == 3:                                      # 1-RTT before any key is known: drop the handshake
        out = [d for d in out if all(sp["ht"] == "s" for sp in d[3])] + out[:2]
    return S, out, S.keylog(drop), unbound


# ---- an unauthenticated packet with a garbage packet number inside a conformant history ---------------------------
def pn_poison_history(rng, idx):
    """A conformant connection plus ONE packet that fails authentication and carries a far-away four-byte packet number,
    followed by the rest of the conformant history:
      kind 0  a damaged client/server 1-RTT packet (copy of the next genuine one of that direction: same DCID, key phase;
              packet-number bytes and payload replaced) placed before a genuine 1-RTT packet that is not the last of its
              direction;
      kind 1  a client 0-RTT packet right after the ClientHello whose header protection was removed with the key of
              another suite (garbage number, garbage payload) — the key log has the early secret, so the Early decryptor
              exists and the AEAD check is reached.
    Property (RFC 9000 A.3: largest_pn is the largest SUCCESSFULLY PROCESSED number; repair "only an authenticated QUIC
    packet moves the largest packet number of its space"): every frame the senders sent is still exported."""
    S, dg = valid_history(rng, idx)
    far = lambda: bytes([rng.randrange(0x20, 0x100)]) + bytes(rng.randrange(256) for _ in range(3))
    junk = lambda n: bytes(rng.randrange(256) for _ in range(n))
    out, kind = list(dg), idx % 2
    shorts = [i for i, d in enumerate(dg) if d[3] and d[3][0]["ht"] == "s"]
    cand = [i for i in shorts if any(dg[j][0] == dg[i][0] for j in shorts if j > i)]
    if kind == 0 and not cand:
        kind = 1
    if kind == 0:
        k = rng.choice(cand)
        fc, dcid, ver, specs, cut = dg[k]
        bad = dict(specs[0])
        bad["pn"] = far()
        bad["fb"] = bytes([(bad["fb"][0] & 0xfc) | 3])
        bad["pl"] = junk(rng.choice([16, 24, 60])) if rng.random() < 0.5 else bad["pl"][:-1] + bytes([bad["pl"][-1] ^ 0x80])
        out.insert(k, (fc, dcid, ver, [bad], 1))
    else:
        pos = 3 if S.f["retry"] else 1
        fc, dcid, ver, specs, cut = dg[pos - 1]
        ini = specs[0]
        pl = junk(rng.choice([20, 33, 80]))
        bad = dict(ini, pt="z", fb=bytes([0xD3 if ver == 1 else 0xE3]), tlb=None, tok=None, lb=varint(4 + len(pl)),
                   pn=far(), pl=pl, ts=ini["ts"])
        out.insert(pos, (fc, dcid, ver, [bad], 1))
    return S, out, kind


# ============================================================================= the run
def twin_check(ctx):
    rng = ctx.rng
    lines, want = [], []
    for _ in range(200):
        tag = rng.randrange(256)
        parts = [bytes(rng.randrange(256) for _ in range(rng.choice([0, 1, 3, 20, 300]))) for _ in range(rng.randrange(0, 4))]
        n = rng.choice([0, 1, 12, 16, 32, 48])
        lines.append(" ".join(["t.bytes", str(tag), str(n)] + [hx(p) for p in parts]))
        want.append(hx(toy_bytes(tag, parts, n)))
    got = ctx.driver("quicsession", lines)
    p = ctx.point("q2b.toy.twin")
    for l, w, g in zip(lines, want, got):
        p["cases"] += 1
        if w != g:
            ctx.disagree("q2b.toy.twin", {"op": l}, w, g)


def run_histories(ctx, impl, hists, point):
    """hists: list of (tag, S, dgrams, keylog, unbound). Runs the real code, then the model on the same lines."""
    lines, impl_out, meta = [], [], []
    for hi, (tag, S, dgs, keylog, unbound) in enumerate(hists):
        lines.append(f"cfg {1 if unbound else 0}")
        impl_out.append("ok")
        meta.append(None)
        lines.append("klclear")
        impl_out.append("ok")
        meta.append(None)
        for cr, l, sec in keylog:
            lines.append(f"kl {hx(cr)} {l} {hx(sec)}")
            impl_out.append("ok")
            meta.append(None)
        lines.append("new")
        impl_out.append("ok")
        meta.append(None)
        impl.new(keylog, unbound)
        exported, clean = [], True
        for di, (fc, dcid, ver, specs, cut) in enumerate(dgs):
            calls, esc, st = impl.dgram(fc, dcid, ver, specs, max(cut, 1))
            lines.append(dgram_line(fc, dcid, ver, specs))
            impl_out.append((calls, esc, st))
            meta.append((hi, di, [sp["pt"] for sp in specs]))
            for c in calls:
                ctx.hist(f"q2b.{tag}.caught", c)
            ctx.hist(f"q2b.{tag}.escaped", esc)
            if any(c != "none" for c in calls) or esc != "none":
                clean = False
            new = st.rsplit(" out=", 1)[1].split(":", 1)[1]
            exported += [e for e in new.split("|") if e]
            ctx.hist(f"q2b.{tag}.exported_per_dgram", min(len([e for e in new.split("|") if e]), 5))
            if esc != "none":
                break                                   # the real main loop would be dead here
        if tag == "pnauth" and exported != S.expected:
            ctx.fail("q2b-unauthenticated-packet-poisons-pn",
                     "one packet that fails authentication (garbage packet number after header-protection removal with "
                     "wrong keys / damage) makes the real QuicSession drop conformant packets that follow it",
                     {"history": hi, "suite": hex(S.suite), "features": S.f, "lines": lines[-(len(dgs) + 8):]},
                     expected=S.expected[:40], actual=exported[:40])
        if tag == "valid":
            exp = S.expected
            if not clean or exported != exp:
                ctx.fail("q2b-valid-history-not-exact",
                         "a conformant toy-sender connection is not exported exactly by the real QuicSession",
                         {"history": hi, "suite": hex(S.suite), "features": S.f,
                          "lines": lines[-(len(dgs) + 8):]}, expected=exp[:40], actual=exported[:40])
    p = ctx.point(point)
    replies = ctx.driver("quicsession", lines) if lines else []
    for l, io, m, mt in zip(lines, impl_out, replies, meta):
        if mt is None:
            if m != "ok":
                raise fw.HarnessError(f"quicsession driver rejected {l[:80]!r}: {m}")
            continue
        p["cases"] += 1
        calls, esc, st = io
        try:
            mc, mesc, mst = m.split(" ", 2)
        except ValueError:
            raise fw.HarnessError(f"quicsession driver: bad reply {m[:120]!r} to {l[:120]!r}")
        mcl = [] if mc == "-" else mc.split(",")
        # decrypt_packet is not called for Retry / Version Negotiation packets
        mcalls = [c for c, pt in zip(mcl, mt[2]) if pt not in ("r", "v")]
        impl_s = f"{','.join(calls) or '-'} {esc} {st}"
        model_s = f"{','.join(mcalls) or '-'} {mesc} {mst}"
        ctx.count(("q2b", l), nontrivial=True)
        if impl_s != model_s:
            ctx.disagree(point, {"history": mt[0], "dgram": mt[1], "op": l[:2000]}, impl_s, model_s)


def correspond(ctx, n_valid=None, n_malformed=None, n_pnauth=None):
    import logging
    logging.disable(logging.CRITICAL)
    n_valid = n_valid if n_valid is not None else ctx.n(400, 6000)
    n_malformed = n_malformed if n_malformed is not None else ctx.n(600, 9000)
    n_pnauth = n_pnauth if n_pnauth is not None else ctx.n(200, 2000)
    twin_check(ctx)
    rng = ctx.rng
    with Impl() as impl:
        hv = []
        for i in range(n_valid):
            S, dg = valid_history(rng, i)
            hv.append(("valid", S, dg, S.keylog(), True if i % 2 else False))
            ctx.hist("q2b.suite", hex(S.suite))
            ctx.hist("q2b.features", ",".join(sorted(k for k, v in S.f.items() if v)))
            ctx.hist("q2b.generations", max(S.gen))
        run_histories(ctx, impl, hv, "q2b.session.valid")
        hm = []
        for i in range(n_malformed):
            S, dg, kl, unbound = malformed_history(rng, i)
            hm.append(("malformed", S, dg, kl, unbound))
        run_histories(ctx, impl, hm, "q2b.session.malformed")
        hp = []
        for i in range(n_pnauth):
            S, dg, k = pn_poison_history(rng, i)
            hp.append(("pnauth", S, dg, S.keylog(), True))
            ctx.hist("q2b.pnauth.kind", ["damaged 1-RTT, far-away number", "wrong-key 0-RTT, garbage number"][k])
        run_histories(ctx, impl, hp, "q2b.session.pnauth")
    ctx.rule = (ctx.rule + " " if ctx.rule else "") + (
        "q2b: every datagram of every history is one correspondence case (real QuicSession.handle_packet vs Lean "
        "Quic.Session.handlePacket over the shared toy instance); valid histories come from an independent toy-primitive "
        "RFC 9000/9001 sender (suites 0x1301-0x1304, v1/v2, Retry, 0-RTT, coalescing, pn gaps/lengths 1-4 inside the "
        "RFC window, NEW_CONNECTION_ID switches, key updates by either side), malformed ones mutate them (bad tags, "
        "flipped key phase, None fields, odd class/type combinations, missing key-log groups, lost/duplicated/reordered "
        "datagrams, stray Retry/VN, handler exceptions, server-direction 0-RTT, over-long packet numbers); pnauth histories are "
        "conformant ones with one deliberately placed packet that fails authentication and carries a far-away four-byte "
        "packet number (damaged 1-RTT packet / 0-RTT packet unprotected with another suite's keys): everything the senders "
        "sent must still be exported (signature q2b-unauthenticated-packet-poisons-pn).")
    return ctx.point("q2b.session.valid")["cases"], ctx.point("q2b.session.malformed")["cases"]
