"""Minimal QUIC v1 sender for the end-to-end runs of C11 (independent of TLExport): Initial, Handshake and
1-RTT packets with TLS_AES_128_GCM_SHA256, carried in `c11_wire.Spec` UDP frames with correct checksums."""
import hashlib
import hmac
import struct

from cryptography.hazmat.primitives.ciphers import Cipher, algorithms, modes
from cryptography.hazmat.primitives.ciphers.aead import AESGCM

import c11_wire as W

SALT = bytes.fromhex("38762cf7f55934b34d179ae6a4c80cadccbb7f0a")


def hkdf_extract(salt, ikm):
    return hmac.new(salt, ikm, hashlib.sha256).digest()


def hkdf_expand(prk, info, n):
    out, t, i = b"", b"", 1
    while len(out) < n:
        t = hmac.new(prk, t + info + bytes([i]), hashlib.sha256).digest()
        out += t
        i += 1
    return out[:n]


def label(secret, lab, n):
    return hkdf_expand(secret, struct.pack(">H", n) + bytes([6 + len(lab)]) + b"tls13 " + lab + b"\x00", n)


def varint(v, w=None):
    if w is None:
        w = 1 if v < 64 else 2 if v < 16384 else 4 if v < 2 ** 30 else 8
    return (v | ({1: 0, 2: 1, 4: 2, 8: 3}[w] << (8 * w - 2))).to_bytes(w, "big")


class Keys:
    def __init__(self, secret):
        self.key, self.iv, self.hp = label(secret, b"quic key", 16), label(secret, b"quic iv", 12), label(secret, b"quic hp", 16)

    def seal(self, pn, hdr, pt):
        nonce = bytes(a ^ b for a, b in zip(self.iv, pn.to_bytes(12, "big")))
        return AESGCM(self.key).encrypt(nonce, pt, hdr)

    def mask(self, sample):
        return Cipher(algorithms.AES(self.hp), modes.ECB()).encryptor().update(sample)


def protect(keys, hdr_wo_pn, pn, pnlen, payload, long):
    if len(payload) < 4:
        payload += b"\x00" * (4 - len(payload))
    pnb = (pn & ((1 << (8 * pnlen)) - 1)).to_bytes(pnlen, "big")
    hdr = hdr_wo_pn + pnb
    ct = keys.seal(pn, hdr, payload)
    m = keys.mask(ct[4 - pnlen:4 - pnlen + 16])
    first = hdr[0] ^ (m[0] & (0x0F if long else 0x1F))
    return bytes([first]) + hdr[1:len(hdr_wo_pn)] + bytes(a ^ b for a, b in zip(pnb, m[1:1 + pnlen])) + ct


def long_pkt(keys, typ, dcid, scid, pn, pnlen, payload):
    h = bytes([0xC0 | (typ << 4) | (pnlen - 1)]) + b"\x00\x00\x00\x01" + bytes([len(dcid)]) + dcid + bytes([len(scid)]) + scid
    if typ == 0:
        h += varint(0)
    h += varint(pnlen + max(len(payload), 4) + 16, 2)
    return protect(keys, h, pn, pnlen, payload, True)


def short_pkt(keys, dcid, pn, pnlen, payload):
    return protect(keys, bytes([0x40 | (pnlen - 1)]) + dcid, pn, pnlen, payload, False)


def crypto(off, data):
    return b"\x06" + varint(off) + varint(len(data)) + data


def stream(sid, off, data):
    return bytes([0x08 | (4 if off else 0) | 2]) + varint(sid) + (varint(off) if off else b"") + varint(len(data)) + data


def hs(t, b):
    return bytes([t]) + len(b).to_bytes(3, "big") + b


def ext(t, b):
    return struct.pack(">HH", t, len(b)) + b


class QConn:
    def __init__(self, rng, v6=False, cport=50000, sport=443, t0=1700000100.0):
        self.rng, self.v6 = rng, v6
        if v6:
            self.cip = bytes.fromhex("fd000000000000000000000000000011")
            self.sip = bytes.fromhex("fd000000000000000000000000000012")
        else:
            self.cip, self.sip = bytes([10, 0, 1, 1]), bytes([10, 0, 1, 2])
        self.cport, self.sport, self.t = cport, sport, t0
        self.dcid0, self.scid_c, self.scid_s = self.rnd(8), self.rnd(4), self.rnd(8)
        isec = hkdf_extract(SALT, self.dcid0)
        self.ci, self.si = Keys(label(isec, b"client in", 32)), Keys(label(isec, b"server in", 32))
        self.sec = {k: self.rnd(32) for k in ("chs", "shs", "cap", "sap")}
        self.k = {k: Keys(v) for k, v in self.sec.items()}
        self.cr = self.rnd(32)
        self.pn = {}
        self.frames = []

    def rnd(self, n):
        return bytes(self.rng.getrandbits(8) for _ in range(n))

    def keylog(self):
        names = {"chs": "CLIENT_HANDSHAKE_TRAFFIC_SECRET", "shs": "SERVER_HANDSHAKE_TRAFFIC_SECRET",
                 "cap": "CLIENT_TRAFFIC_SECRET_0", "sap": "SERVER_TRAFFIC_SECRET_0"}
        return "".join(f"{names[k]} {self.cr.hex()} {v.hex()}\n" for k, v in self.sec.items())

    def nextpn(self, space, start=0):
        v = self.pn.get(space, start)
        self.pn[space] = v + 1
        return v

    def dgram(self, from_server, payload):
        self.t += 0.001
        if from_server:
            sp = W.Spec(self.v6, 17, self.sip, self.cip, self.sport, self.cport, payload, smac=W.MAC_B, dmac=W.MAC_A, ts=self.t)
        else:
            sp = W.Spec(self.v6, 17, self.cip, self.sip, self.cport, self.sport, payload, smac=W.MAC_A, dmac=W.MAC_B, ts=self.t)
        self.frames.append(sp)

    def handshake(self):
        exts = ext(0x2b, b"\x02\x03\x04") + ext(0x10, b"\x00\x03\x02h3") + ext(0x39, b"\x04\x04\x80\x10\x00\x00")
        ch = hs(1, b"\x03\x03" + self.cr + b"\x00" + b"\x00\x02\x13\x01" + b"\x01\x00" + struct.pack(">H", len(exts)) + exts)
        fr = crypto(0, ch)
        self.dgram(0, long_pkt(self.ci, 0, self.dcid0, self.scid_c, self.nextpn("ci"), 1, fr + b"\x00" * (1150 - len(fr))))
        sexts = ext(0x2b, b"\x03\x04") + ext(0x33, b"\x00\x1d\x00\x20" + self.rnd(32))
        sh = hs(2, b"\x03\x03" + self.rnd(32) + b"\x00" + b"\x13\x01" + b"\x00" + struct.pack(">H", len(sexts)) + sexts)
        p1 = long_pkt(self.si, 0, self.scid_c, self.scid_s, self.nextpn("si"), 1, crypto(0, sh))
        p2 = long_pkt(self.k["shs"], 2, self.scid_c, self.scid_s, self.nextpn("sh"), 1,
                      crypto(0, hs(8, b"\x00\x00") + hs(20, self.rnd(32))))
        self.dgram(1, p1 + p2)
        self.dgram(0, long_pkt(self.k["chs"], 2, self.scid_s, self.scid_c, self.nextpn("ch"), 1, crypto(0, hs(20, self.rnd(32)))))

    def app(self, from_server, frames):
        k = self.k["sap" if from_server else "cap"]
        dcid = self.scid_c if from_server else self.scid_s
        # server 1-RTT numbers start at 1000 so that datagrams of opposite directions are not merged
        pn = self.nextpn("sa", 1000) if from_server else self.nextpn("ca")
        self.dgram(from_server, short_pkt(k, dcid, pn, 2, frames))
