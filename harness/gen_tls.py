"""Independent RFC-level TLS *sender* (SSL 3.0 – TLS 1.3, every table suite) and TCP capture builder.

Implements the PROTECT direction of RFC 6101 / 2246 / 4346 / 5246 / 7366 / 7905 / 8446 record protection with
hashlib/hmac and raw `cryptography` primitives. Shares no code with tlexport. MAC bytes, padding bytes, explicit IVs
and nonces are random: a receiver must not depend on them (TLExport never verifies MACs).

A connection is scripted as     Script(version, suite code, handshake shape, [(dir, plaintext), …])
and rendered to `flights` [(dir, bytes)] (dir 0 = client→server), a key log and the ground-truth streams.
`TcpConn` turns flights into Ethernet frames under a segmentation schedule."""
import hashlib
import hmac
import struct
import zlib

import wire
import spec_suites
from cryptography.hazmat.primitives.ciphers import Cipher, algorithms, modes
from cryptography.hazmat.primitives.ciphers.aead import AESGCM, AESCCM, ChaCha20Poly1305

try:  # cryptography ≥ 43 moved the legacy ciphers
    from cryptography.hazmat.decrepit.ciphers import algorithms as legacy
except Exception:  # pragma: no cover
    legacy = algorithms

VER = {"ssl3": b"\x03\x00", "tls10": b"\x03\x01", "tls11": b"\x03\x02", "tls12": b"\x03\x03", "tls13": b"\x03\x03"}
HASH = {"SHA1": hashlib.sha1, "MD5": hashlib.md5, "SHA256": hashlib.sha256, "SHA384": hashlib.sha384}


def alg(name):
    return {"AES": algorithms.AES, "CAMELLIA": algorithms.Camellia,
            "3DES": getattr(legacy, "TripleDES", None) or algorithms.TripleDES,
            "IDEA": getattr(legacy, "IDEA", None) or algorithms.IDEA,
            "RC4": getattr(legacy, "ARC4", None) or algorithms.ARC4}[name]


# ----------------------------------------------------------------------------- key schedules (RFC)
def p_hash(h, secret, seed, n):
    a, out = seed, b""
    while len(out) < n:
        a = hmac.new(secret, a, h).digest()
        out += hmac.new(secret, a + seed, h).digest()
    return out[:n]


def prf10(secret, label, seed, n):
    half = (len(secret) + 1) // 2
    a = p_hash(hashlib.md5, secret[:half], label + seed, n)
    b = p_hash(hashlib.sha1, secret[len(secret) - half:], label + seed, n)
    return bytes(x ^ y for x, y in zip(a, b))


def prf_ssl3(ms, seed, n):
    out, i = b"", 1
    while len(out) < n:
        out += hashlib.md5(ms + hashlib.sha1(bytes([64 + i]) * i + ms + seed).digest()).digest()
        i += 1
    return out[:n]


def hkdf_expand(prk, info, n, h):
    out, t, i = b"", b"", 1
    while len(out) < n:
        t = hmac.new(prk, t + info + bytes([i]), h).digest()
        out += t
        i += 1
    return out[:n]


def hkdf_label(secret, label, n, h, context=b""):
    full = b"tls13 " + label
    return hkdf_expand(secret, struct.pack(">H", n) + bytes([len(full)]) + full + bytes([len(context)]) + context, n, h)


# ----------------------------------------------------------------------------- message builders
def rec(t, ver, body):
    return bytes([t]) + ver + struct.pack(">H", len(body)) + body


def hs(t, body):
    return bytes([t]) + len(body).to_bytes(3, "big") + body


def ext(t, body):
    return struct.pack(">HH", t, len(body)) + body


def client_hello(cr, ver, suites, sid=b"", exts=b"", ssl3=False, comp=0):
    b = ver + cr + bytes([len(sid)]) + sid + struct.pack(">H", len(suites)) + suites + (b"\x02\x01\x00" if comp else b"\x01\x00")
    if not ssl3 or exts:
        b += struct.pack(">H", len(exts)) + exts
    return hs(1, b)


def server_hello(sr, ver, suite, sid=b"", exts=b"", comp=0):
    return hs(2, ver + sr + bytes([len(sid)]) + sid + suite + bytes([comp]) + struct.pack(">H", len(exts)) + exts)


class Script:
    """One TLS connection. `shape` keys (all optional):
       abbreviated (bool), sid_len (0..32), extra_exts (bytes, ServerHello), etm (bool, CBC suites, not SSL 3.0),
       group ('each' | 'flight' | 'pairs': how whole handshake messages are grouped into records),
       hs_secrets (bool, TLS 1.3: handshake secrets present in the key log), warn_alert (bool, ≤ TLS 1.2 full handshake:
       a clear-text warning alert precedes the ServerHello; the connection continues), pad13 (callable rng→pad length),
       tickets (int, post-handshake NewSessionTicket records, TLS 1.3), offer (list of extra suite codes offered),
       frag13 (bool, TLS 1.3: the protected handshake flights are cut into records at arbitrary byte positions)."""

    def __init__(self, version, code, app, rng, **shape):
        self.v, self.code, self.app, self.rng, self.shape = version, code, list(app), rng, shape
        self.d = spec_suites.info(spec_suites.R[code])
        self.etm = bool(shape.get("etm")) and self.d["mode"] == "CBC" and version != "ssl3"
        self.cr, self.sr = rng.randbytes(32), rng.randbytes(32)
        self.seq = {0: 0, 1: 0}
        # record compression (RFC 3749 DEFLATE, up to TLS 1.2): one compression stream per direction, flushed at every record
        self.comp = 1 if shape.get("deflate") and version != "tls13" else 0
        self.zc = {0: zlib.compressobj(), 1: zlib.compressobj()} if self.comp else None
        # per direction, in stream order: ("clear", raw) | ("hs", raw, plaintext) | ("app", raw, plaintext) | ("alert", raw)
        self.rec_log = {0: [], 1: []}
        d = self.d
        self.hfun = HASH[d["mac"]]
        self.maclen = self.hfun().digest_size
        if version == "tls13":
            n = self.hfun().digest_size
            self.sec = {k: rng.randbytes(n) for k in ("chs", "shs", "cap", "sap")}
            self.k13 = {k: (hkdf_label(v, b"key", d["klen"], self.hfun), hkdf_label(v, b"iv", 12, self.hfun))
                        for k, v in self.sec.items()}
            self.epoch = {0: "hs", 1: "hs"}
            return
        self.ms = rng.randbytes(48)
        if shape.get("master"):
            self.ms = shape["master"]          # a resumed session: the master secret of an earlier connection, fresh randoms
        if shape.get("rsa_line"):
            # the key log names the PRE-master secret (`RSA <client_random> <pre-master>`, TLExport's own line form): the master
            # secret is RFC 5246 8.1 / RFC 2246 8.1 / SSL 3.0 6.1 applied to it
            self.pre = rng.randbytes(48)
            cs = self.cr + self.sr
            if version == "ssl3":
                self.ms = prf_ssl3(self.pre, cs, 48)
            elif version in ("tls10", "tls11"):
                self.ms = prf10(self.pre, b"master secret", cs, 48)
            else:
                self.ms = p_hash(hashlib.sha384 if d["mac"] == "SHA384" else hashlib.sha256, self.pre, b"master secret" + cs, 48)
        if d["aead"]:
            mac_kb, ivlen = 0, (12 if d["algo"] == "CHACHA20" else 4)
        elif d["algo"] == "RC4":
            mac_kb, ivlen = self.maclen, 0
        else:
            mac_kb, ivlen = self.maclen, d["block"]
        n = 2 * mac_kb + 2 * d["klen"] + 2 * ivlen
        if version == "ssl3":
            kb = prf_ssl3(self.ms, self.sr + self.cr, n)
        elif version in ("tls10", "tls11"):
            kb = prf10(self.ms, b"key expansion", self.sr + self.cr, n)
        else:
            kb = p_hash(hashlib.sha384 if d["mac"] == "SHA384" else hashlib.sha256, self.ms,
                        b"key expansion" + self.sr + self.cr, n)
        o = 2 * mac_kb
        self.key = {0: kb[o:o + d["klen"]], 1: kb[o + d["klen"]:o + 2 * d["klen"]]}
        o += 2 * d["klen"]
        self.iv = {0: kb[o:o + ivlen], 1: kb[o + ivlen:o + 2 * ivlen]}
        self.last = dict(self.iv)
        if d["algo"] == "RC4":
            self.rc4 = {i: Cipher(alg("RC4")(self.key[i]), mode=None).encryptor() for i in (0, 1)}

    # ------------------------------------------------------------------ key log
    def keylog_lines(self):
        if self.v == "tls13":
            lab = {"chs": "CLIENT_HANDSHAKE_TRAFFIC_SECRET", "shs": "SERVER_HANDSHAKE_TRAFFIC_SECRET",
                   "cap": "CLIENT_TRAFFIC_SECRET_0", "sap": "SERVER_TRAFFIC_SECRET_0"}
            keys = ("chs", "shs", "cap", "sap") if self.shape.get("hs_secrets", True) else ("cap", "sap")
            return [f"{lab[k]} {self.cr.hex()} {self.sec[k].hex()}" for k in keys]
        if self.shape.get("rsa_line"):
            return [f"RSA {self.cr.hex()} {self.pre.hex()}"]
        return [f"CLIENT_RANDOM {self.cr.hex()} {self.ms.hex()}"]

    # ------------------------------------------------------------------ record protection
    def protect(self, fs, typ, pt, pad13=0):
        d, ver, rng = self.d, VER[self.v], self.rng
        if self.v == "tls13":
            k, iv = self.k13[("s" if fs else "c") + self.epoch[fs]]
            n = self.seq[fs]
            self.seq[fs] += 1
            inner = pt + bytes([typ]) + b"\0" * pad13
            hdr = b"\x17\x03\x03" + struct.pack(">H", len(inner) + d["tag"])
            nonce = bytes(a ^ b for a, b in zip(iv, b"\0\0\0\0" + struct.pack(">Q", n)))
            c = {"GCM": lambda: AESGCM(k), "CCM": lambda: AESCCM(k, tag_length=d["tag"]),
                 "POLY1305": lambda: ChaCha20Poly1305(k)}[d["mode"]]()
            return hdr + c.encrypt(nonce, inner, hdr)
        n = self.seq[fs]
        self.seq[fs] += 1
        if self.comp:
            pt = self.zc[fs].compress(pt) + self.zc[fs].flush(zlib.Z_SYNC_FLUSH)
        if d["aead"]:
            aad = struct.pack(">Q", n) + bytes([typ]) + ver + struct.pack(">H", len(pt))
            if d["algo"] == "CHACHA20":
                nonce = bytes(a ^ b for a, b in zip(self.iv[fs], b"\0\0\0\0" + struct.pack(">Q", n)))
                body = ChaCha20Poly1305(self.key[fs]).encrypt(nonce, pt, aad)
            else:
                explicit = rng.randbytes(8)
                c = AESGCM(self.key[fs]) if d["mode"] == "GCM" else AESCCM(self.key[fs], tag_length=d["tag"])
                body = explicit + c.encrypt(self.iv[fs] + explicit, pt, aad)
            return rec(typ, ver, body)
        mac = rng.randbytes(self.maclen)
        if d["algo"] == "RC4":
            return rec(typ, ver, self.rc4[fs].update(pt + mac))
        bs = d["block"]
        inner = pt if self.etm else pt + mac
        padn = (bs - (len(inner) + 1) % bs) % bs
        if self.v != "ssl3" and padn + 2 * bs < 256:
            padn += bs * rng.randrange(0, 3)             # TLS allows up to 255 bytes of padding
        pad = bytes([padn]) * (padn + 1) if self.v != "ssl3" else rng.randbytes(padn) + bytes([padn])
        data = inner + pad
        iv = self.last[fs] if self.v in ("ssl3", "tls10") else rng.randbytes(bs)
        ct = Cipher(alg(d["algo"])(self.key[fs]), modes.CBC(iv)).encryptor().update(data)
        self.last[fs] = ct[-bs:]
        body = (b"" if self.v in ("ssl3", "tls10") else iv) + ct + (mac if self.etm else b"")
        return rec(typ, ver, body)

    # ------------------------------------------------------------------ handshake + data
    def _group(self, fs, msgs, protected):
        """whole handshake messages → records, grouped as the shape says"""
        how = self.shape.get("group", "flight")
        if how == "each":
            groups = [[m] for m in msgs]
        elif how == "pairs":
            groups = [msgs[i:i + 2] for i in range(0, len(msgs), 2)]
        else:
            groups = [msgs]
        out = b""
        if protected and self.v == "tls13" and self.shape.get("frag13") and len(b"".join(msgs)) > 8:
            # RFC 8446 5.1: handshake messages may be fragmented across records and coalesced arbitrarily — cut the
            # flight's message stream at random byte positions (message boundaries are not respected)
            stream = b"".join(msgs)
            cuts = sorted(self.rng.sample(range(1, len(stream)), min(len(stream) - 1, self.rng.choice([1, 1, 2, 3]))))
            groups = [[stream[a:b]] for a, b in zip([0] + cuts, cuts + [len(stream)])]
        for g in groups:
            body = b"".join(g)
            if protected:
                pad = self.shape["pad13"](self.rng) if self.v == "tls13" and "pad13" in self.shape else 0
                r = self.protect(fs, 22, body, pad)
                self.rec_log[fs].append(("hs", r, body))
            else:
                r = rec(22, VER[self.v], body)
                self.rec_log[fs].append(("clear", r))
            out += r
        return out

    def _clear(self, fs, raw):
        """an unprotected record (or nothing) of direction fs, logged in stream order"""
        if raw:
            self.rec_log[fs].append(("clear", raw))
        return raw

    def render(self):
        """→ (flights [(dir, bytes)], truth {0: bytes, 1: bytes})"""
        rng, sh, v = self.rng, self.shape, self.v
        code = struct.pack(">H", self.code)
        ver = VER[v]
        offer = code + b"".join(struct.pack(">H", c) for c in sh.get("offer", []))
        sid = rng.randbytes(sh.get("sid_len", 0))
        ext_s = sh.get("extra_exts", b"")
        if self.etm:
            ext_s += ext(0x16, b"")
        if v == "tls13":
            ext_s += ext(0x2B, b"\x03\x04")
            sid = sid or rng.randbytes(32)
        ext_c = ext(0x0D, b"\x00\x02\x04\x01") if v != "ssl3" else b""
        ch_rec_ver = ver if v == "ssl3" else b"\x03\x01"
        flights = [(0, self._clear(0, rec(22, ch_rec_ver, client_hello(self.cr, ver, offer, sid if sh.get("abbreviated") else b"",
                                                                       ext_c, ssl3=(v == "ssl3"), comp=self.comp))))]
        sh_msg = server_hello(self.sr, ver, code, sid, ext_s, comp=self.comp)
        ccs = rec(20, ver, b"\x01")
        if v == "tls13" and not sh.get("ccs13", True):
            ccs = b""                              # no middlebox-compatibility ChangeCipherSpec (RFC 8446 D.4 is optional)
        if v == "tls13":
            f = self._clear(1, rec(22, ver, sh_msg)) + self._clear(1, ccs)
            f += self._group(1, [hs(8, b"\0\0"), hs(11, rng.randbytes(80)), hs(15, rng.randbytes(70)),
                                 hs(20, rng.randbytes(self.hfun().digest_size))], True)
            flights.append((1, f))
            self.seq[1], self.epoch[1] = 0, "ap"
            flights.append((0, self._clear(0, ccs) + self._group(0, [hs(20, rng.randbytes(self.hfun().digest_size))], True)))
            self.seq[0], self.epoch[0] = 0, "ap"
            for _ in range(sh.get("tickets", 1)):
                flights.append((1, self._group(1, [hs(4, rng.randbytes(40))], True)))
        elif sh.get("abbreviated"):
            flights.append((1, self._clear(1, rec(22, ver, sh_msg)) + self._clear(1, ccs) + self._group(1, [hs(20, rng.randbytes(12))], True)))
            flights.append((0, self._clear(0, ccs) + self._group(0, [hs(20, rng.randbytes(12))], True)))
        else:
            warn = rec(21, ver, b"\x01\x70") if sh.get("warn_alert") else b""   # clear-text warning (unrecognized_name)
            flights.append((1, self._clear(1, warn) + self._group(1, [sh_msg, hs(11, rng.randbytes(100)), hs(14, b"")], False)))
            flights.append((0, self._group(0, [hs(16, rng.randbytes(64))], False) + self._clear(0, ccs)
                            + self._group(0, [hs(20, rng.randbytes(12))], True)))
            tick = [hs(4, rng.randbytes(30))] if sh.get("tickets", 1) else []
            flights.append((1, (self._group(1, tick, False) if tick else b"") + self._clear(1, ccs)
                            + self._group(1, [hs(20, rng.randbytes(12))], True)))
        truth = {0: b"", 1: b""}
        pos = {0: sum(len(b) for d, b in flights if d == 0), 1: sum(len(b) for d, b in flights if d == 1)}
        self.app_records = []      # (dir, offset of the record in the direction's byte stream, record length, plaintext)
        for i_, (d_, pt) in enumerate(self.app):
            if sh.get("mid_alert") is not None and sh["mid_alert"][0] == i_ and v != "tls13":
                # an encrypted warning alert (close_notify) in mid-connection; the peer's data already in flight follows.
                # What is exported after it is not claimed by C01; C13 still relates the runs with and without -a.
                da = sh["mid_alert"][1]
                ra = self.protect(da, 21, b"\x01\x00")
                self.rec_log[da].append(("alert", ra))
                flights.append((da, ra))
                pos[da] += len(ra)
            pad = sh["pad13"](rng) if v == "tls13" and "pad13" in sh else 0
            r = self.protect(d_, 23, pt, pad)
            self.rec_log[d_].append(("app", r, pt))
            if flights and flights[-1][0] == d_ and rng.random() < sh.get("coalesce", 0.3):
                flights[-1] = (d_, flights[-1][1] + r)
            else:
                flights.append((d_, r))
            self.app_records.append((d_, pos[d_], len(r), pt))
            pos[d_] += len(r)
            truth[d_] += pt
        return flights, truth


# ----------------------------------------------------------------------------- TCP capture builder
CMAC, SMAC = b"\x02\x00\x00\x00\x00\x01", b"\x02\x00\x00\x00\x00\x02"


class TcpConn:
    """Renders flights to frames. cut(dir, data, rng) → list of segment payloads (default: one per flight)."""

    def __init__(self, cip="10.0.0.1", sip="10.0.0.2", cport=40000, sport=443, cisn=1000, sisn=5000,
                 cmac=CMAC, smac=SMAC, t0=1_700_000_000_000_000, dt=lambda rng: 1234, tcp_options=b""):
        self.cip, self.sip, self.cport, self.sport = wire.ipb(cip), wire.ipb(sip), cport, sport
        self.seq = {0: cisn, 1: sisn}
        self.isn = {0: cisn, 1: sisn}          # sequence number of the first payload byte of each direction
        self.cmac, self.smac, self.t, self.dt, self.opts = cmac, smac, t0, dt, tcp_options
        self.pkts = []   # (ts_us, frame, dir, seq, payload)

    def frame(self, d, seq, payload, bad_csum=False):
        if d == 0:
            return wire.tcp_frame(self.cmac, self.smac, self.cip, self.sip, self.cport, self.sport, seq,
                                  self.seq[1], 0x18, payload, options=self.opts, bad_csum=bad_csum)
        return wire.tcp_frame(self.smac, self.cmac, self.sip, self.cip, self.sport, self.cport, seq,
                              self.seq[0], 0x18, payload, options=self.opts, bad_csum=bad_csum)

    def send(self, d, data, rng, cut=None):
        parts = cut(d, data, rng) if cut else [data]
        for p in parts:
            self.t += self.dt(rng)
            self.pkts.append((self.t, self.frame(d, self.seq[d], p), d, self.seq[d] & 0xFFFFFFFF, p))
            self.seq[d] += len(p)

    def offset(self, k):
        """stream offset of packet k's first payload byte in its direction"""
        _, _, d, seq, _ = self.pkts[k]
        return (seq - self.isn[d]) % 2 ** 32

    def reschedule(self, rng, dup=0.15, disp=0.25, maxdist=3, repack=0.12, partial=0.0):
        """TCP delivery effects inside a flight (a maximal run of consecutive same-direction segments): exact duplicate
        segments (retransmissions captured twice) and segments displaced by a bounded distance. The first data
        segment of each direction stays the first of its direction (a capture that starts mid-flight is C03's
        business). Timestamps stay increasing in capture order."""
        if not self.pkts:
            return
        times = [p[0] for p in self.pkts]
        flights, cur = [], [0]
        for k in range(1, len(self.pkts)):
            if self.pkts[k][2] == self.pkts[k - 1][2]:
                cur.append(k)
            else:
                flights.append(cur)
                cur = [k]
        flights.append(cur)
        first_of_dir = {}
        for k, p in enumerate(self.pkts):
            first_of_dir.setdefault(p[2], k)
        order = []
        for fl in flights:
            fl = list(fl)
            movable = [k for k in fl if k not in first_of_dir.values()]
            for _ in range(len(movable)):
                if len(fl) >= 2 and rng.random() < disp:
                    k = rng.choice(movable)
                    i = fl.index(k)
                    lo = 1 if fl[0] in first_of_dir.values() else 0
                    j = max(lo, min(len(fl) - 1, i + rng.choice([-1, 1]) * rng.randrange(1, maxdist + 1)))
                    fl.insert(j, fl.pop(i))
            out = []
            for k in fl:
                out.append(k)
                if rng.random() < dup:
                    out.insert(rng.randrange(out.index(k) + 1, len(out) + 1), k)     # an exact duplicate, later in the flight
            order += out
        extra = len(order) - len(times)
        t = times[-1]
        for _ in range(extra):
            t += rng.randrange(1, 5000)
            times.append(t)
        self.pkts = [(times[i],) + tuple(self.pkts[k][1:]) for i, k in enumerate(order)]
        # repacketised retransmissions (RFC 9293 3.8.1 allows a retransmission to cover more than the original segment):
        # a segment that starts at the sequence number of an earlier segment A and carries A's bytes followed by the bytes
        # of the segment after it, captured later in the same flight. It brings nothing new.
        k = 0
        while k < len(self.pkts) - 2:
            t0, _, d, seq, pl = self.pkts[k]
            nxt = next((q for q in self.pkts[k + 1:] if q[2] == d and q[3] == (seq + len(pl)) % 2 ** 32 and q[4]), None)
            if pl and nxt and rng.random() < repack:
                end = k + 1
                while end < len(self.pkts) and self.pkts[end][2] == d:
                    end += 1
                if self.pkts.index(nxt) < end:                       # both originals are in this flight
                    pos = rng.randrange(self.pkts.index(nxt) + 1, end + 1)
                    tt = self.pkts[pos - 1][0] + 1
                    self.pkts.insert(pos, (tt, self.frame(d, seq, pl + nxt[4]), d, seq, pl + nxt[4]))
                    for j in range(pos + 1, len(self.pkts)):        # keep the clock increasing
                        if self.pkts[j][0] <= self.pkts[j - 1][0]:
                            self.pkts[j] = (self.pkts[j - 1][0] + 1,) + tuple(self.pkts[j][1:])
                    k = pos
            k += 1
        # partial retransmissions: only the first part of an earlier segment is sent again (a sender that segments anew after its
        # MSS shrank, or an offloaded segment of which only the head was lost), captured later in the same flight. It brings nothing new.
        k = 0
        while partial and k < len(self.pkts) - 1:
            t0, _, d, seq, pl = self.pkts[k]
            if len(pl) >= 2 and rng.random() < partial:
                end = k + 1
                while end < len(self.pkts) and self.pkts[end][2] == d:
                    end += 1
                pos = rng.randrange(k + 1, end + 1)
                head = pl[:rng.randrange(1, len(pl))]
                tt = self.pkts[pos - 1][0] + 1
                self.pkts.insert(pos, (tt, self.frame(d, seq, head), d, seq, head))
                for j in range(pos + 1, len(self.pkts)):
                    if self.pkts[j][0] <= self.pkts[j - 1][0]:
                        self.pkts[j] = (self.pkts[j - 1][0] + 1,) + tuple(self.pkts[j][1:])
                k = pos
            k += 1

    def handshake_frames(self):
        """optional real TCP handshake (no payload; TLExport skips empty segments)"""
        out = []
        for d, fl in ((0, 0x02), (1, 0x12), (0, 0x10)):
            self.t += 100
            if d == 0:
                f = wire.tcp_frame(self.cmac, self.smac, self.cip, self.sip, self.cport, self.sport,
                                   self.seq[0] - (1 if fl == 2 else 0), self.seq[1] if fl != 2 else 0, fl, b"")
            else:
                f = wire.tcp_frame(self.smac, self.cmac, self.sip, self.cip, self.sport, self.cport,
                                   self.seq[1] - 1, self.seq[0], fl, b"")
            out.append((self.t, f, d, None, b""))
        return out

    def items(self):
        return [("pkt", t, f) for t, f, *_ in self.pkts]


def cut_mss(n):
    def cut(d, data, rng):
        return [data[i:i + n] for i in range(0, len(data), n)] or [data]
    return cut


def cut_random(maxparts=6):
    def cut(d, data, rng):
        if len(data) < 2:
            return [data]
        k = rng.randrange(0, min(maxparts, len(data) - 1) + 1)
        pts = sorted(rng.sample(range(1, len(data)), k))
        return [data[a:b] for a, b in zip([0] + pts, pts + [len(data)])]
    return cut


def cut_records(d, data, rng):
    """one segment per TLS record"""
    out, i = [], 0
    while i < len(data):
        n = 5 + int.from_bytes(data[i + 3:i + 5], "big")
        out.append(data[i:i + n])
        i += n
    return out


def build_capture(scripts_conns, rng, interleave=True):
    """[(Script, TcpConn, cut)] → (items, keylog lines, truths {conn index: truth}). Connections are interleaved
    by an order-preserving random merge of their packet lists, timestamps reassigned increasing."""
    per = []
    keylog, truths = [], {}
    for i, (sc, conn, cut) in enumerate(scripts_conns):
        flights, truth = sc.render()
        for d, data in flights:
            conn.send(d, data, rng, cut)
        if getattr(conn, "want_reschedule", False):
            conn.reschedule(rng)
        per.append(list(conn.pkts))
        keylog += sc.keylog_lines()
        truths[i] = truth
    merged, owners = [], []
    idx = [0] * len(per)
    t = 1_700_000_000_000_000 + rng.randrange(0, 10 ** 6)
    while any(idx[i] < len(per[i]) for i in range(len(per))):
        live = [i for i in range(len(per)) if idx[i] < len(per[i])]
        i = rng.choice(live) if interleave else live[0]
        _, f, *_ = per[i][idx[i]]
        t += rng.randrange(1, 50_000)
        merged.append(("pkt", t, f))
        owners.append((i, idx[i]))
        idx[i] += 1
    build_capture.last_owners = owners
    return merged, keylog, truths
