"""C07 — exported packets keep the endpoints, direction and capture time of their origin.

oracle: for every exported TLS data packet: MACs, IPs, IP version and client port of the connection whose plaintext it
carries, oriented sender→receiver; its timestamp is that of an input packet that carried (part of) the same TLS record;
the synthetic handshake carries the time of the first exported record; QUIC: address/time of the input datagram.
Timestamps are compared as integer microseconds.
"""
import e2e
import fw
import tool
import wire

THEOREMS = ["TLX.Props.C07.out_ts_from_carrier", "TLX.Props.C07.handshake_ts_first", "TLX.Props.C07.data_is_records",
            "TLX.Props.C05.metadata_is_overlap"]


def one(job):
    import random
    import logging
    logging.disable(logging.CRITICAL)
    seed, ntls, nquic, args = job
    rng = random.Random(seed)
    mx = e2e.Mixed(rng, [e2e.random_combo(rng) for _ in range(ntls)], n_quic=nquic, noise=True)
    kl = mx.keylog_text()
    # container variants: timestamps must survive if_tsresol / if_tsoffset / byte order (µs-representable instants)
    variant = rng.choice([{}, {}, {"be": True}, {"tsresol": 9}, {"tsresol": 6, "tsoffset": 1_000_000_000},
                          {"tsresol": 0x80 | 20, "be": True}, {"tsoffset": 1_700_000_000, "extra_blocks": True}])
    if variant.get("tsresol", 6) & 0x80:
        # a binary resolution (ticks of 2^-20 s): the instants are moved to multiples of 2^-6 s = 15625 µs, which both the capture's
        # tick grid and the export's microsecond grid represent exactly (no rounding question, that is C12's); order and ties are kept
        old_ts = [it[1] for it in mx.items]
        base = (old_ts[0] // 15625) * 15625
        remap = {}
        for i, t in enumerate(old_ts):
            remap[t] = base + i * 15625
        mx.items = [("pkt", remap[us], f) for _, us, f in mx.items]
        for q in mx.quic:
            q["expect"] = [(remap.get(t, t), d, b) for t, d, b in q["expect"]]
    cap = mx.capture(**variant)
    r = tool.run(cap, kl, list(args))
    blob = {"capture_hex": cap.hex(), "keylog": kl, "job": [seed, ntls, nquic, list(args)], "container": variant}
    if r.crashed:
        return [r.signature()], mx.describe(), blob, 0
    fails, multi = [], 0
    try:
        pkts, convs, udp = e2e.decode(r.out)
    except wire.FrameError as e:
        return [f"bad-frame:{e}"], mx.describe(), blob, 0
    sport_of = (lambda p: p) if "-m" not in args else (lambda p: 8080)
    for i, c in enumerate(mx.tls):
        conn, sc = c["conn"], c["script"]
        me = [k for k, kd in enumerate(mx.kinds) if kd == ("tls", i)][0]
        in_ts = [it[1] for it, o in zip(mx.items, mx.owners) if o == me]          # merged timestamps, per packet index
        cv = e2e.find_conv(convs, conn)
        if cv is None:
            if c["truth"][0] or c["truth"][1]:
                fails.append(f"missing-flow:{sc.v}")
            continue
        if cv["server"] != (conn.sip, sport_of(conn.sport)) or cv["client"] != (conn.cip, conn.cport):
            fails.append(f"endpoint-mismatch:{sc.v}: client {cv['client']} server {cv['server']}")
        if (cv["cmac"], cv["smac"]) != (conn.cmac, conn.smac) or cv["v6"] != (len(conn.cip) == 16):
            fails.append(f"mac-or-ipversion-mismatch:{sc.v}")
        # carriers of every application record: input packets whose byte range overlaps the record's range
        seg_ranges = {0: [], 1: []}
        pos = {0: 0, 1: 0}
        for k, (_, _, d, _, payload) in enumerate(conn.pkts):
            a = conn.offset(k)                 # from the sequence number: segments may be duplicated / displaced
            seg_ranges[d].append((a, a + len(payload), in_ts[k]))
        plain_pos = {0: 0, 1: 0}
        rec_of = {0: [], 1: []}     # (plaintext start, end, carrier timestamps)
        for d, off, ln, pt in sc.app_records:
            car = [t for a, b, t in seg_ranges[d] if a < off + ln and b > off]
            if len(car) >= 2:
                multi += 1
            rec_of[d].append((plain_pos[d], plain_pos[d] + len(pt), car))
            plain_pos[d] += len(pt)
        first_rec_ts = None
        out_pos = {"c2s": 0, "s2c": 0}
        for mine, us, payload in cv["segments"]:
            d = 0 if mine == "c2s" else 1
            a = out_pos[mine]
            out_pos[mine] += len(payload)
            owner = [r_ for r_ in rec_of[d] if r_[0] <= a and a + len(payload) <= r_[1] and r_[1] > r_[0]]
            if not owner:
                fails.append(f"segment-spans-records:{sc.v}: exported segment at stream offset {a} len {len(payload)} is not inside one record")
                continue
            if us not in owner[0][2]:
                fails.append(f"ts-mismatch:{sc.v}: exported segment time {us} is not the time of a packet that carried its record {owner[0][2]}")
            if first_rec_ts is None:
                first_rec_ts = owner[0][2]
        if cv["segments"] and not all(t == cv["hs_ts"][0] for t in cv["hs_ts"]):
            fails.append(f"handshake-ts-inconsistent:{sc.v}")
        # "the first exported record": the first application record handed to the builder; a zero-length record
        # (e.g. the empty CBC record of the 1/n-1 split) exports no packet of its own but is still the first one
        if sc.app_records:
            d0, off0, ln0, _ = sc.app_records[0]
            first_any = [t for a, b, t in seg_ranges[d0] if a < off0 + ln0 and b > off0]
            first_rec_ts = (first_rec_ts or []) + first_any
        if cv["segments"] and first_rec_ts is not None and cv["hs_ts"][0] not in first_rec_ts:
            fails.append(f"handshake-ts-mismatch:{sc.v}: handshake at {cv['hs_ts'][0]}, first exported record carried at {first_rec_ts}")
    for j, q in enumerate(mx.quic):
        conn = q["conn"]
        for us, p in pkts:
            if p["proto"] != 17 or not p["payload"]:
                continue
            from_c = (p["src"], p["sport"]) == (conn.cip, conn.cport) and p["dst"] == conn.sip
            from_s = (p["dst"], p["dport"]) == (conn.cip, conn.cport) and p["src"] == conn.sip
            if not (from_c or from_s):
                continue
            want_ports = (conn.cport, sport_of(conn.sport)) if from_c else (sport_of(conn.sport), conn.cport)
            if (p["sport"], p["dport"]) != want_ports:
                fails.append(f"quic-port-mismatch: {(p['sport'], p['dport'])} want {want_ports}")
            want_macs = (conn.cmac, conn.smac) if from_c else (conn.smac, conn.cmac)
            if (p["smac"], p["dmac"]) != want_macs:
                fails.append("quic-mac-mismatch")
            if (us, bool(from_s), bytes(p["payload"])) not in q["expect"]:
                fails.append(f"quic-datagram-origin-mismatch: exported datagram at {us} dir {'s' if from_s else 'c'} has no input datagram with that time, direction and stream data")
    return fails[:5], mx.describe(), blob, multi


def explore(ctx, scale=1):
    rng = ctx.rng
    n = ctx.n(30, 1500) * scale
    jobs = []
    for i in range(n):
        nt, nq = [(1, 0), (2, 1), (1, 1), (0, 1), (3, 0)][i % 5]
        jobs.append((rng.getrandbits(48), nt, nq, () if i % 4 else ("-m",)))
    results = tool.pmap(one, jobs, procs=16 if ctx.thorough() else 8)
    o = ctx.oracle.setdefault("origin-of-every-packet", {"runs": 0, "violations": 0})
    for job, (fails, desc, blob, multi) in zip(jobs, results):
        o["runs"] += 1
        ctx.count(job[0], nontrivial=(multi >= 1 or (job[1] and job[2])) and not fails)
        ctx.hist("kind", f"tls={job[1]} quic={job[2]}")
        ctx.hist("options", " ".join(job[3]) or "(none)")
        ctx.hist("records_spanning_packets", min(multi, 10))
        if fails:
            o["violations"] += 1
            kind = fails[0].split(":")[0] if not fails[0].startswith("crash") else fails[0].split(" ")[0]
            ctx.fail(f"C07:{{{'quic' if kind.startswith('quic') else 'tls'}}}:{kind}", "an exported packet does not carry the endpoints / time of its origin",
                     {"seed": job[0], "scenario": desc, **blob}, expected="addresses oriented sender→receiver, time of a carrier packet",
                     actual=fails, how="bin/check C07 --replay <this file>")
        else:
            ctx.sample({"scenario": desc, "records_spanning_several_packets": multi}, cap=3)


def run(ctx):
    ctx.rule = ("mixed captures (TLS random version/suite/shape with random segmentation so that records span 1..k packets, "
                "QUIC v1 random features, random MAC/IP/port values, IPv4/IPv6, timestamps with random sub-second parts, "
                "unrelated traffic), with and without -m. Every exported packet is traced back to its origin. non-trivial "
                "iff some record spans ≥ 2 input packets or TLS and QUIC are both present.")
    ctx.assumptions = ["microsecond timestamps: input timestamps are integer µs; the output is read back as integer µs"]
    import session_corr
    import export_props_quic_thms, export_props_thms, file_corr     # whole-program form (Props/ExportProps) about TLX.Export.framesFrom, tied file to file
    import translate                 # decision-logic functions re-translated from the source and proved equal to the model
    _tm, _tt = translate.wire(ctx, "C07")
    ctx.prove(["TLX.Props.C07", "TLX.Props.C05", "TLX.Props.C07Session", "TLX.Props.C02Out"] + export_props_thms.MODULES + export_props_quic_thms.MODULES + _tm)
    ctx.require_theorems(_tt)
    ctx.require_theorems(THEOREMS + session_corr.THEOREMS_C07 + export_props_thms.THEOREMS_C07 + export_props_quic_thms.THEOREMS_C07 + ["TLX.Props.C02Out." + t for t in ("out_key_from_frames", "out_key_occurs", "build_groups")])
    import c06_model
    c06_model.run_model(ctx)          # ties TLX.TcpOut (the model the theorems are about) to the real OutputBuilder
    import q1_udpout
    q1_udpout.correspond(ctx)         # ties TLX.Quic.UdpOut to the real QUICOutputbuilder
    file_corr.correspond(ctx, ctx.n(12, 200))     # ties the whole-program model (ExportProps' subject) file to file
    import c05
    # ties TLX.Reassembly (carriers, online delivery) to the real Session; C05's own framing oracle (and its open known
    # finding) stays in C05
    c05.reasm_corr(ctx, frac=0.3, oracle=False)
    session_corr.correspond(ctx)      # ties TLX.Session to the real Session
    explore(ctx)
    return ctx.finish(search=lambda c: explore(c, scale=2))


def replay(ctx, obj):
    j = obj["case"]["job"]
    fails = one((j[0], j[1], j[2], tuple(j[3])))[0]
    for f in fails:
        print("REPLAY-FAIL", f)
    print("REPLAY", "fails" if fails else "passes")
    return 1 if fails else 0
