"""Theorems of lean/TLX/Props/ExportSeg.lean (+ ExportSegEx.lean): C05 and C09 for the whole program (TLS) — statements
about `Pipeline.connOut` (one connection) and `Export.framesFrom` (one run). To be required by c05 / c09."""
MODULES = ["TLX.Lemmas.SessionCarriers", "TLX.Lemmas.ExportSeg", "TLX.Props.ExportSeg", "TLX.Props.ExportSegEx"]
_NS = "TLX.Props.ExportSeg."
_LM = "TLX.Lemmas.ExportSeg."
THEOREMS_C05 = ["TLX.Session.run_carriers"] + [_LM + n for n in [
    "keys_of_dirs", "released_dir_stream", "exported_of_keys",
]] + [_NS + n for n in [
    "connection_release_independent",
    "connection_segmentation_independent",
    "export_segmentation_independent",
    # non-vacuity and witnesses
    "Ex.seg_instance",
    "Ex.seg_frames_differ",
    "Ex.export_seg_instance",
    "Ex.order_matters",                      # `SameReleaseOrder` cannot be dropped
    "Ex.overtaken_first_segment_differs",    # the open finding of C05 stays outside the hypotheses
]]
THEOREMS_C09 = [_LM + n for n in [
    "genKeys_of_installed",                  # Pipeline.genKeys is connected to Keylog.installed12 / installed13
    "inner_congr12", "inner_congr13", "scan_lastOf",
    "ops_of_installed", "sameTlsSecrets_append",
    "hasTriple_fileText_iff", "wellFormed_fileText", "crOk_fileText",
]] + [_NS + n for n in [
    "connOut_keylog_independent",
    "tlsFrames_keylog_independent",
    "export_keylog_denotation_independent",
    "sameTlsSecrets_of_texts",
    "export_keylog_text_independent",
    "onlySecret_of_consistent",
    "Ex.keylog_instance",
    "Ex.onlySecret_instance",
]]
THEOREMS = THEOREMS_C05 + THEOREMS_C09
