"""Input-bytes work package: dpkt's frame dissection as `tlexport.packet.Packet` observes it (lean/TLX/Dissect.lean) and the
capture-file-to-main-loop glue of run() (lean/TLX/Ingest.lean), tied to the real code.

correspond(ctx)
  (a) frames        structured frames of every shape (the harness's own builders: v4 options, v6 extension chains, VLAN / QinQ,
                    MPLS, ISL, LLC / SNAP, TEB, GRE, AH, ICMP quotes, PPP / PPPoE, CDP, trailers, fragments, odd protocols,
                    lying length fields, bad versions, nesting up to depth 4), every frame through the REAL
                    `tlexport.packet.Packet` and through `tlxdriver ingest` op `framed`; compared: the exception class, or
                    tcp_packet / udp_packet / ipv6_packet, MACs, addresses, ports, seq, ack, tls_data, ip.p and bytes(packet.tcp/udp)
  (b) malformed     truncation of valid frames at EVERY byte position, random bytes, bit flips
  (c) recursion     20 pure nesting chains at their measured RecursionError boundary (the C-stack base of this process is
                    calibrated on ONE chain, the model predicts the other nineteen)
  (d) examples      the shortest input per exception class (`TLX.Props.C12Dissect.Ex.*`) on the real Packet
  (e) files         capture files (pcapng both byte orders / resolutions / offsets, legacy pcap µs / ns; DSBs with valid,
                    invalid and non-ASCII text; frames of (a); truncated and damaged files) through the glue of run():
                    the real Reader / dpkt.pcap.Reader + get_keys_from_string(buf.decode('ascii')) + Packet(buf, float(ts)) +
                    calculate_checksum_tcp/udp, against `Ingest.itemsWith` (driver op `file`)
"""
import struct
import sys

import dpkt

import wire

MODULES = ["TLX.Props.C12Dissect"]
THEOREMS = ["TLX.Props.C12Dissect." + n for n in (
    "dissect_build_v4", "dissect_build_v6", "extOk_of_WF", "dissect_total", "short_frame_aborts", "kinds_inhabited", "non_ip_ignored",
    "Ex.needData_aborts", "Ex.unpack_aborts", "Ex.index_aborts", "Ex.attribute_aborts", "Ex.recursion_aborts",
    "Ex.pack_aborts")]

EX = {
    "needdata": b"",
    "unpack": bytes(12) + b"\x00\x03\xaa\xaa\x03",
    "index": bytes(12) + b"\x88\x47\x00\x00\x01\x00",
    "attribute": bytes(12) + b"\x86\xdd" + b"\x60\0\0\0\0\x10\x2c\x40" + bytes(32) + bytes([60, 0, 0, 0, 0, 0, 0, 1]) +
                 bytes([59, 0, 1, 4, 0, 0, 0, 0]),
    "pack": bytes(12) + b"\x20\x00" + bytes([2, 180, 0, 0]) + bytes(65536),
}


def hx(b):
    return bytes(b).hex() if len(b) else "-"


def depth():
    f = sys._getframe(1)
    n = 0
    while f:
        n += 1
        f = f.f_back
    return n


def exc_kind(x):
    if isinstance(x, RecursionError):
        return "err:recursion"
    if isinstance(x, dpkt.NeedData):
        return "err:needdata"
    if isinstance(x, dpkt.UnpackError):
        return "err:unpack"
    if isinstance(x, dpkt.PackError):
        return "err:pack"
    if isinstance(x, IndexError):
        return "err:index"
    if isinstance(x, AttributeError):
        return "err:attribute"
    return "err:" + type(x).__name__


def real_frame(Packet, f):
    """canonical view of what Packet.__init__ leaves behind (same vocabulary as the driver)"""
    try:
        p = Packet(f, 0.0)
    except Exception as x:                      # noqa: every exception class is part of the comparison
        return exc_kind(x)
    if not hasattr(p, "ip"):
        return "other"
    pre = f"ip {int(p.ipv6_packet)} {hx(p.ethernet_src)} {hx(p.ethernet_dst)} {hx(p.ip_src)} {hx(p.ip_dst)} "
    if p.tcp_packet:
        return pre + f"tcp {p.sport} {p.dport} {p.seq} {p.ack} {hx(p.tls_data)} {p.ip.p} {hx(bytes(p.tcp))}"
    if p.udp_packet:
        return pre + f"udp {p.sport} {p.dport} {hx(p.tls_data)} {p.ip.p} {hx(bytes(p.udp))}"
    return pre + "none"


# ----------------------------------------------------------------------------- frame generator
class Gen:
    ETYPES = [0xbb, 0x800, 0x806, 0x2000, 0x2004, 0x6558, 0x8137, 0x86dd, 0x880b, 0x8864, 0x88a2, 0x8100, 0x88a8, 0x9100,
              0x9200, 0x8847, 0x8848, 0, 5, 0x30, 0x5dc, 0x5dd, 0x1234, 0x8035, 0x88cc]
    PROTOS = [0, 1, 2, 4, 6, 17, 41, 47, 50, 51, 58, 89, 103, 112, 118, 132, 43, 44, 60, 59, 255, 3]

    def __init__(self, rng):
        self.r = rng

    def rb(self, n):
        return bytes(self.r.randrange(256) for _ in range(n))

    def small(self):
        return self.r.choice([0, 0, 1, 2, 3, 4, 5, 8, 12, 20, 40, 60])

    def ip4(self, depth, p=None):
        r = self.r
        hl = r.choice([5, 5, 5, 6, 15, 4, 0, r.randrange(16)])
        v = r.choice([4, 4, 4, 6, 0, r.randrange(16)])
        p = r.choice(self.PROTOS) if p is None else p
        body = self.l4(p, depth)
        opts = self.rb(max(0, hl * 4 - 20))
        tot = 20 + len(opts) + len(body)
        ln = r.choice([tot, tot, tot, 0, tot - 1, tot + 5, 10, r.randrange(65536)]) & 0xffff
        off = r.choice([0, 0, 0, 0x2000, 0x4000, 1, 0x1fff, r.randrange(65536)])
        return struct.pack(">BBHHHBBH4s4s", (v << 4) | hl, 0, ln, 1, off, 64, p, 0, self.rb(4), self.rb(4)) + opts + body

    def ip6(self, depth, p=None):
        r = self.r
        chain = [r.choice([0, 43, 44, 51, 50, 60]) for _ in range(r.choice([0, 0, 1, 1, 2, 3]))]
        p = r.choice(self.PROTOS) if p is None else p
        seq = chain + [p]
        body = b""
        for i, k in enumerate(chain):
            nx = seq[i + 1]
            if k in (0, 60):
                ln = r.choice([0, 0, 1, 2])
                d = r.choice([bytes(ln * 8 + 6), self.rb(ln * 8 + 6), b"\x01" + bytes([ln * 8 + 4]) + bytes(ln * 8 + 4)])
                body += bytes([nx, ln]) + d
            elif k == 43:
                ln = r.choice([0, 2, 4])
                body += bytes([nx, ln, 0, 0]) + self.rb(4) + self.rb(ln * 8)
            elif k == 44:
                body += bytes([nx, 0]) + struct.pack(">H", r.choice([0, 0, 1, 8, 0xfff8, 9])) + self.rb(4)
            elif k == 51:
                ln = r.choice([1, 2, 4, 0])
                body += bytes([nx, ln, 0, 0]) + self.rb(8) + self.rb(max(0, (ln + 2) * 4 - 12))
            elif k == 50:
                body += self.rb(8)
        body += self.l4(p, depth)
        if r.random() < 0.1:
            body = body[:r.randrange(len(body) + 1)]
        pl = r.choice([len(body)] * 4 + [0, len(body) - 1, len(body) + 3, r.randrange(65536)]) & 0xffff
        v = r.choice([6, 6, 6, 4, 0])
        return struct.pack(">IHBB16s16s", (v << 28) | r.randrange(1 << 28), pl, seq[0], 64, self.rb(16), self.rb(16)) + body

    def tcp(self):
        r = self.r
        off = r.choice([5, 5, 5, 6, 8, 15, 4, 0])
        return struct.pack(">HHIIHHHH", r.randrange(65536), r.randrange(65536), r.randrange(1 << 32), r.randrange(1 << 32),
                           (off << 12) | 0x18, 100, r.randrange(65536), 0) + self.rb(max(0, off * 4 - 20)) + self.rb(self.small())

    def udp(self):
        r = self.r
        d = self.rb(self.small())
        return struct.pack(">HHHH", r.randrange(65536), r.randrange(65536), r.choice([8 + len(d), 0, 3, 9999]), 0) + d

    def l4(self, p, depth):
        r = self.r
        if depth > 4:
            return self.rb(self.small())
        if r.random() < 0.1:
            return self.rb(r.randrange(0, 40))
        if p == 6:
            b = self.tcp()
        elif p == 17:
            b = self.udp()
        elif p in (0, 4):
            b = self.ip4(depth + 1)
        elif p == 41:
            b = self.ip6(depth + 1)
        elif p == 47:
            fl = r.choice([0, 0, 0x2000, 0x1000, 0x8000, 0x4000, 0xb000, 1, 0x3081, r.randrange(65536)])
            et = r.choice(self.ETYPES)
            b = struct.pack(">HH", fl, et) + r.choice([b"", self.rb(4), self.rb(8), self.rb(12)]) + self.eth_payload(et, depth + 1)
        elif p == 51:
            ln = r.choice([0, 1, 2, 4])
            nx = r.choice(self.PROTOS)
            b = bytes([nx, ln, 0, 0]) + self.rb(8) + self.rb(max(4 * ln - 4, 0)) + self.l4(nx, depth + 1)
        elif p == 1:
            b = bytes([r.choice([0, 3, 4, 5, 8, 11, 12, 200]), 0, 0, 0]) + self.rb(4) + self.ip4(depth + 1)
        elif p == 58:
            b = bytes([r.choice([1, 2, 3, 4, 128, 129, 135]), 0, 0, 0]) + self.rb(4) + self.ip6(depth + 1)
        elif p == 132:
            b = self.rb(12)
            for _ in range(r.randrange(4)):
                b += bytes([r.choice([0, 1, 3]), 0]) + struct.pack(">H", r.choice([0, 1, 3, 4, 5, 8, 16, 17, 100])) + self.rb(r.randrange(20))
        else:
            b = self.rb(r.choice([0, 3, 4, 7, 8, 12, 24, 35, 40]))
        if r.random() < 0.15:
            b = b[:r.randrange(len(b) + 1)]
        return b

    def eth_payload(self, t, depth):
        r = self.r
        if depth > 4:
            return self.rb(self.small())
        if r.random() < 0.08:
            return self.rb(r.randrange(0, 30))
        if t == 0x800:
            b = self.ip4(depth)
        elif t == 0x86dd:
            b = self.ip6(depth)
        elif t == 0x6558:
            b = self.frame(depth + 1)
        elif t in (0x8100, 0x88a8, 0x9100, 0x9200):
            b = b""
            t2 = t
            for _ in range(r.choice([1, 1, 2, 3, 4, 5])):
                t2 = r.choice(self.ETYPES + [0x8100] * 8 + [0x800, 0x86dd] * 4)
                b += self.rb(2) + struct.pack(">H", t2)
                if t2 not in (0x8100, 0x88a8, 0x9100, 0x9200):
                    break
            b += self.eth_payload(t2 if t2 not in (0x8100, 0x88a8, 0x9100, 0x9200) else 0x800, depth + 1)
        elif t in (0x8847, 0x8848):
            n = r.choice([1, 1, 2, 3, 24, 25])
            b = b""
            for i in range(n):
                s = 1 if i == n - 1 else 0
                if r.random() < 0.1:
                    s ^= 1
                b += struct.pack(">I", (r.randrange(1 << 20) << 12) | (s << 8) | 64)
            k = r.random()
            if k < 0.3:
                b += self.ip4(depth + 1)
            elif k < 0.5:
                b += self.ip6(depth + 1)
            elif k < 0.7:
                b += r.choice([b"", b"\0\0\0\0", b"\0\0"]) + self.frame(depth + 1)
            elif k >= 0.8:
                b += self.rb(self.small())
        elif t == 0x8864:
            pp = r.choice([0x0021, 0x0057, 0x21, 0x57, 0xc021])
            b = bytes([0x11, r.choice([0, 0, 0, 9])]) + self.rb(4) + (struct.pack(">H", pp) if r.random() < 0.6 else bytes([pp & 0xff])) + \
                (self.ip4(depth + 1) if pp & 0xff == 0x21 else self.ip6(depth + 1))
        elif t == 0x880b:
            pp = r.choice([0x21, 0x57, 0x0021, 0x0057, 0xc021])
            b = b"\xff\x03" + (struct.pack(">H", pp) if r.random() < 0.5 else bytes([pp & 0xff])) + \
                (self.ip4(depth + 1) if pp & 0xff == 0x21 else self.ip6(depth + 1))
        elif t == 0x88a2:
            b = bytes([0x10, 0, 0, 1, 0, r.choice([0, 1, 2])]) + self.rb(4) + self.rb(r.choice([0, 5, 8, 12, 20]))
        elif t == 0x2000:
            b = self.rb(4)
            for _ in range(r.randrange(4)):
                b += struct.pack(">HH", r.choice([1, 2, 3]), r.choice([0, 2, 4, 8, 9, 20, 3])) + self.rb(r.randrange(20))
        elif t == 0x2004:
            b = self.rb(1)
            for _ in range(r.randrange(4)):
                b += struct.pack(">HH", 1, r.choice([0, 4, 8])) + self.rb(r.randrange(10))
        elif t <= 1500:
            k = r.random()
            if k < 0.3:
                et = r.choice(self.ETYPES)
                ll, pl = b"\xaa\xaa\x03\0\0\0" + struct.pack(">H", et), self.eth_payload(et, depth + 1)
            elif k < 0.5:
                ll, pl = bytes([6, 6, 3]), self.ip4(depth + 1)
            elif k < 0.6:
                ll, pl = bytes([r.choice([0x10, 0xe0]), 0, 3]), self.rb(r.choice([10, 30, 40]))
            elif k < 0.7:
                ll, pl = bytes([0x42, 0x42, 3]), self.rb(r.choice([10, 35, 40]))
            elif k < 0.8:
                ll, pl = b"\xff\xff", self.rb(r.choice([0, 10, 28, 30, 40]))
            else:
                ll, pl = self.rb(3), self.rb(self.small())
            b = ll + pl
            if r.random() < 0.3:
                b = b[:r.randrange(len(b) + 1)]
            b += r.choice([b"", b"", bytes(10), self.rb(4), self.rb(3), bytes(46) + self.rb(4) + self.rb(3)])
        else:
            b = self.rb(r.choice([0, 8, 16, 28, 30, 46]))
        return b

    def frame(self, depth=0):
        r = self.r
        t = r.choice(self.ETYPES + [0x800, 0x86dd] * 6)
        dst = r.choice([self.rb(6)] * 8 + [b"\x01\x00\x0c\x00\x00\x00", b"\x03\x00\x0c\x00\x00\x01"])
        pl = self.eth_payload(t, depth)
        if t <= 1500 and t != 0 and r.random() < 0.7:
            t = len(pl) if len(pl) <= 1500 else t
        f = dst + self.rb(6) + struct.pack(">H", t) + pl
        if dst[:5] in (b"\x01\x00\x0c\x00\x00", b"\x03\x00\x0c\x00\x00") and r.random() < 0.7 and depth < 3:
            f = dst + self.rb(20) + self.frame(depth + 1)
        k = r.random()
        if k < 0.1:
            f = f[:r.randrange(len(f) + 1)]
        elif k < 0.2:
            f += self.rb(r.randrange(1, 10))
        return f

    # ---- valid frames (a sender's view; correct lengths and checksums unless said otherwise)
    def valid(self):
        r = self.r
        v6 = r.random() < 0.45
        src, dst = (self.rb(16), self.rb(16)) if v6 else (self.rb(4), self.rb(4))
        data = self.rb(r.choice([0, 0, 1, 5, 20, 100, 300]))
        bad = r.random() < 0.15
        if r.random() < 0.6:
            opts = r.choice([b"", b"", b"\x01\x01\x01\x01", b"\x02\x04\x05\xb4" + b"\x01\x03\x03\x07", self.rb(4 * r.randrange(11))])
            l4, proto = wire.tcp_segment(src, dst, r.randrange(65536), r.randrange(65536), r.randrange(1 << 32),
                                         r.randrange(1 << 32), r.choice([0x18, 0x10, 0x02, 0x11]), data, options=opts,
                                         bad_csum=bad), 6
        else:
            l4, proto = wire.udp_datagram(src, dst, r.randrange(65536), r.randrange(65536), data, bad_csum=bad), 17
        if r.random() < 0.1:
            proto = r.choice([1, 2, 47, 50, 89, 132, 253])
        if v6:
            chain = []
            for _ in range(r.choice([0, 0, 1, 2, 3, 5])):
                chain.append(r.choice([0, 60, 43, 44, 51]))
            seq = chain + [proto]
            ext = b""
            for i, k in enumerate(chain):
                nx = seq[i + 1]
                if k in (0, 60):
                    n = r.choice([0, 1, 2])
                    body = b""
                    while len(body) < n * 8 + 6:
                        room = n * 8 + 6 - len(body)
                        if room == 1 or r.random() < 0.3:
                            body += b"\0"
                        else:
                            ln = r.randrange(0, room - 1)
                            body += bytes([r.choice([1, 1, 5, 0xc2, 0x3e]), ln]) + self.rb(ln)
                    ext += bytes([nx, n]) + body
                elif k == 43:
                    n = r.choice([0, 2, 4])
                    ext += bytes([nx, n, r.choice([0, 2, 3, 4]), n // 2]) + self.rb(4 + 8 * n)
                elif k == 44:
                    ext += bytes([nx, 0]) + struct.pack(">H", r.choice([0, 0, 0, 1, 8 * r.randrange(1, 100) + 1])) + self.rb(4)
                else:
                    n = r.choice([1, 2, 4])
                    ext += bytes([nx, n, 0, 0]) + self.rb(8) + self.rb((n + 2) * 4 - 12)
            ip = struct.pack(">IHBB", (6 << 28) | r.randrange(1 << 28), len(ext) + len(l4), seq[0], 64) + src + dst + ext + l4
        else:
            opts = r.choice([b"", b"", b"", b"\x01\x01\x01\x00", self.rb(4 * r.randrange(11))])
            off = r.choice([0, 0, 0, 0, 0x4000, 0x2000, 0x2000 | 185, 185])
            h = struct.pack(">BBHHHBBH", 0x40 | (5 + len(opts) // 4), 0, 20 + len(opts) + len(l4), r.randrange(65536), off, 64, proto, 0) + src + dst + opts
            ip = h[:10] + struct.pack(">H", wire.csum(h)) + h[12:] + l4
        et = b"\x86\xdd" if v6 else b"\x08\x00"
        k = r.random()
        if k < 0.15:
            et = b"\x81\x00" + self.rb(2) + et
        elif k < 0.22:
            et = b"\x88\xa8" + self.rb(2) + b"\x81\x00" + self.rb(2) + et
        elif k < 0.27:
            et = b"\x88\x47" + struct.pack(">I", (r.randrange(1 << 20) << 12) | 0x100 | 64) + b""
            if not v6 and ip[0] != 0x45:
                pass
        f = self.rb(6) + self.rb(6) + et + ip
        k = r.random()
        if k < 0.25:
            f += r.choice([bytes(r.randrange(1, 20)), self.rb(4), self.rb(r.randrange(1, 12))])
        return f


def chains():
    eh = lambda t: bytes(12) + struct.pack(">H", t)
    ip4 = lambda p, inner: struct.pack(">BBHHHBBH4s4s", 0x45, 0, 0, 1, 0, 64, p, 0, bytes(4), bytes(4)) + inner
    ip6 = lambda p, inner: struct.pack(">IHBB16s16s", 6 << 28, 0, p, 64, bytes(16), bytes(16)) + inner

    def nest(fn, n, inner):
        b = inner
        for _ in range(n):
            b = fn(b)
        return b
    isl = b"\x01\x00\x0c\x00\x00" + bytes(21)
    return {
        "ipip": lambda n: eh(0x800) + nest(lambda b: ip4(4, b), n, ip4(6, bytes(20))),
        "teb": lambda n: eh(0x6558) * n + eh(0x0806) + bytes(28),
        "teb0": lambda n: eh(0x6558) * n + bytes(14),
        "ipip-udp": lambda n: eh(0x800) + nest(lambda b: ip4(4, b), n, ip4(17, bytes(8))),
        "ipip-short": lambda n: eh(0x800) + nest(lambda b: ip4(4, b), n, b""),
        "ip6ip6": lambda n: eh(0x86dd) + nest(lambda b: ip6(41, b), n, ip6(6, bytes(20))),
        "ip6ext": lambda n: eh(0x86dd) + nest(lambda b: ip6(41, b), n, ip6(0, bytes([6, 0, 1, 4, 0, 0, 0, 0]) + bytes(20))),
        "isl": lambda n: isl * n + eh(0x0806) + bytes(28),
        "isl-ip": lambda n: isl * n + eh(0x0800) + ip4(6, bytes(20)),
        "ah": lambda n: eh(0x800) + ip4(51, nest(lambda b: bytes([51, 1, 0, 0]) + bytes(8) + b, n, bytes([6, 1, 0, 0]) + bytes(8) + bytes(20))),
        "gre": lambda n: eh(0x800) + nest(lambda b: ip4(47, struct.pack(">HH", 0, 0x800) + b), n, ip4(17, bytes(8))),
        "gre-teb-key": lambda n: eh(0x800) + ip4(47, nest(lambda b: struct.pack(">HH", 0x2000, 0x6558) + bytes(4) + eh(0x800) + ip4(47, b), n,
                                                          struct.pack(">HH", 0, 0x806) + bytes(28))),
        "icmp": lambda n: eh(0x800) + nest(lambda b: ip4(1, bytes([3, 0, 0, 0]) + bytes(4) + b), n, ip4(1, bytes([8, 0, 0, 0, 0, 0, 0, 0]))),
        "icmp6": lambda n: eh(0x86dd) + nest(lambda b: ip6(58, bytes([1, 0, 0, 0]) + bytes(4) + b), n, ip6(58, bytes([128, 0, 0, 0, 0, 0, 0, 0]))),
        "ppp": lambda n: eh(0x880b) + nest(lambda b: b"\xff\x03\x21" + ip4(47, struct.pack(">HH", 0, 0x880b) + b), n, b"\xff\x03\x21" + ip4(6, bytes(20))),
        "pppoe": lambda n: eh(0x8864) + nest(lambda b: bytes([0x11, 0, 0, 0, 0, 0]) + b"\x21" + ip4(47, struct.pack(">HH", 0, 0x8864) + b), n,
                                             bytes([0x11, 0, 0, 0, 0, 0]) + b"\x57" + ip6(17, bytes(8))),
        "mpls-pw": lambda n: nest(lambda b: eh(0x8847) + struct.pack(">I", 0x00001140) + bytes(4) + b, n, eh(0x0806) + bytes(28)),
        "vlan-teb": lambda n: nest(lambda b: eh(0x8100) + struct.pack(">HH", 5, 0x6558) + b, n, eh(0x2000) + bytes(4) + struct.pack(">HH", 1, 8) + bytes(4)),
        "ip6-frag-ip6": lambda n: eh(0x86dd) + nest(lambda b: ip6(44, bytes([41, 0, 0, 0, 0, 0, 0, 1]) + b), n, ip6(17, bytes(8))),
        "ip4-ah-ip6": lambda n: eh(0x800) + nest(lambda b: ip4(51, bytes([41, 1, 0, 0]) + bytes(8) + ip6(4, b)), n, ip4(6, bytes(20))),
    }


# ----------------------------------------------------------------------------- (a)–(d)
def compare(ctx, point, frames, Packet, cbase):
    pt = ctx.point(point)
    base = depth()                                   # this frame calls real_frame, which calls Packet(...)
    real = [real_frame(Packet, f) for f in frames]
    out = ctx.driver("ingest", [f"framed {base + 1} {cbase} {hx(f)}" for f in frames])
    for f, a, b in zip(frames, real, out):
        pt["cases"] += 1
        kind = a.split()[0] if not a.startswith("ip ") else "ip-" + (a.split()[6])
        ctx.hist(point, kind)
        ctx.count((point, f), nontrivial=kind not in ("other",))
        if a != b:
            ctx.disagree(point, {"frame": f.hex()[:4000]}, a[:600], b[:600])


def boundary(Packet, fn, hi=1300):
    def rec(n):
        try:
            Packet(fn(n), 0.0)
            return False
        except RecursionError:
            return True
        except Exception:
            return False
    lo = 1
    if rec(lo) or not rec(hi):
        return None
    while hi - lo > 1:
        m = (lo + hi) // 2
        if rec(m):
            hi = m
        else:
            lo = m
    return lo, hi


def calibrate_c(ctx, Packet):
    """C-stack units already in use when Packet(...) is called from this process: fitted on the IP-in-IP chain only"""
    fn = chains()["ipip"]
    base = depth()
    lo, hi = boundary(Packet, fn)
    ok = []
    lines = [f"framed {base + 2} {c} {hx(fn(n))}" for c in range(0, 41) for n in (lo, hi)]
    out = ctx.driver("ingest", lines)
    for c in range(0, 41):
        a, b = out[2 * c], out[2 * c + 1]
        if not a.startswith("err") and b == "err:recursion":
            ok.append(c)
    return ok[len(ok) // 2] if ok else 5


def corr_frames(ctx, n_struct, n_valid):
    from tlexport.packet import Packet
    g = Gen(ctx.rng)
    cbase = calibrate_c(ctx, Packet)
    ctx.extra["c_base"] = cbase
    frames = [g.frame() for _ in range(n_struct)]
    compare(ctx, "frame-structured", frames, Packet, cbase)
    valid = [g.valid() for _ in range(n_valid)]
    compare(ctx, "frame-valid", valid, Packet, cbase)
    # (b) malformed: truncation at every byte position, random bytes, bit flips, lying lengths
    mal = []
    for f in valid[:ctx.n(25, 200)]:
        mal += [f[:k] for k in range(len(f))]
    for _ in range(ctx.n(600, 6000)):
        mal.append(g.rb(ctx.rng.choice([0, 1, 13, 14, 15, 20, 34, 54, 60, 100])))
    for f in valid[:ctx.n(600, 6000)]:
        b = bytearray(f)
        for _ in range(ctx.rng.choice([1, 1, 2, 4])):
            k = ctx.rng.randrange(12, min(len(b), 80))
            b[k] ^= 1 << ctx.rng.randrange(8)
        mal.append(bytes(b))
    compare(ctx, "frame-malformed", mal, Packet, cbase)
    # (c) recursion boundary
    pt = ctx.point("recursion-boundary")
    base = depth()
    for name, fn in chains().items():
        bd = boundary(Packet, fn)
        if bd is None:
            continue
        lo, hi = bd
        ns = [max(1, lo // 2), lo - 1, lo, hi, hi + 1, hi * 2]
        real = []
        for n in ns:
            real.append(real_frame(Packet, fn(n)))
        out = ctx.driver("ingest", [f"framed {base + 1} {cbase} {hx(fn(n))}" for n in ns])
        for n, a, b in zip(ns, real, out):
            pt["cases"] += 1
            ctx.hist("recursion-boundary", f"{name}:{lo}")
            if a != b:
                ctx.disagree("recursion-boundary", {"chain": name, "n": n, "boundary": [lo, hi]}, a[:80], b[:80])
    # (d) the shortest inputs per exception kind, on the real code and in the model at the tool's own depth
    pt = ctx.point("examples")
    for kind, f in EX.items():
        a = real_frame(Packet, f)
        b = ctx.driver("ingest", [f"frame {hx(f)}"])[0]
        pt["cases"] += 1
        if not (a == b == "err:" + kind):
            ctx.disagree("examples", {"kind": kind, "frame": f.hex()[:200]}, a, b)


# ----------------------------------------------------------------------------- (e) capture files
def real_file(data, legacy, c):
    """lines 204-232 of run(): reader choice, DSB decoding, Packet, checksum verdict — with the real functions"""
    import io
    from tlexport.packet import Packet
    from tlexport.dpkt_dsb import Reader
    from tlexport import keylog_reader
    from tlexport.checksums import calculate_checksum_tcp, calculate_checksum_udp
    toks = []
    try:
        fh = io.BufferedReader(io.BytesIO(data))
        rd = dpkt.pcap.Reader(fh) if legacy else Reader(fh)
        tag = -1
        for ts, buf in rd:
            tag += 1
            if ts == -1:
                keys = keylog_reader.get_keys_from_string(buf.decode("ascii"))
                toks.append("dsb:" + ",".join(f"{hx(k.label.encode())}.{hx(k.client_random.encode())}.{hx(k.value.encode())}" for k in keys))
                continue
            p = Packet(buf, float(ts))
            us = int(round(float(ts) * 1e6))
            ok = 1
            if (p.tcp_packet or p.udp_packet) and len(p.tls_data) != 0 and c:
                ok = int(bool(calculate_checksum_tcp(p) if p.tcp_packet else calculate_checksum_udp(p)))
            if p.tcp_packet or p.udp_packet:
                toks.append(f"pkt:{tag}:{'tcp' if p.tcp_packet else 'udp'}:{hx(p.ip_src)}:{p.sport}:{hx(p.ip_dst)}:{p.dport}:{ok}:"
                            f"{p.seq if p.tcp_packet else 0}:{us}:{hx(p.ethernet_src)}:{hx(p.ethernet_dst)}:{int(p.ipv6_packet)}:{hx(p.tls_data)}")
            elif hasattr(p, "ip"):
                toks.append(f"pkt:{tag}:other:-:0:-:0:1:0:{us}:{hx(p.ethernet_src)}:{hx(p.ethernet_dst)}:{int(p.ipv6_packet)}:-")
            else:
                toks.append(f"pkt:{tag}:other:-:0:-:0:1:0:{us}:-:-:0:-")
    except Exception as x:                      # noqa: where it was raised and its class are the comparison
        import traceback
        tb = traceback.extract_tb(x.__traceback__)
        if any(fr.filename.endswith("packet.py") for fr in tb):
            return "err:frame-" + exc_kind(x)[4:]
        if any(fr.filename.endswith("checksums.py") for fr in tb):
            return "err:overflow" if isinstance(x, OverflowError) else "err:" + type(x).__name__
        if len(tb) == 1 and isinstance(x, UnicodeDecodeError):
            return "err:unicode"
        return "err:container-" + _container_kind(x)
    return " ".join(toks) if toks else "-"


def _container_kind(x):
    m = str(x)
    if isinstance(x, dpkt.NeedData):
        return "needdata"
    if isinstance(x, dpkt.UnpackError):
        return "len-mismatch"
    if isinstance(x, struct.error):
        return "struct"
    if isinstance(x, UnicodeDecodeError):
        return "unicode"
    for k, v in (("not a SHB", "not-shb"), ("invalid pcapng header", "hdr-short"), ("endianness", "endianness"),
                 ("unknown pcapng version", "version"), ("IDB not found", "no-idb"), ("read length", "read-neg"),
                 ("invalid tcpdump header", "bad-magic")):
        if k in m:
            return v
    return type(x).__name__


KEYLINES = [b"CLIENT_RANDOM " + b"ab" * 32 + b" " + b"cd" * 48, b"CLIENT_HANDSHAKE_TRAFFIC_SECRET " + b"01" * 32 + b" " + b"ef" * 32,
            b"# comment", b"", b"SERVER_TRAFFIC_SECRET_0 " + b"AB" * 32 + b" " + b"99" * 32 + b" trailing", b"client_random aa bb",
            b"EXPORTER_SECRET " + b"12" * 32 + b" ", b"X " + b"00" * 32 + b" 11"]


def gen_file(ctx, g):
    r = ctx.rng
    items = []
    us = r.randrange(1_600_000_000, 1_700_000_000) * 1_000_000 + r.randrange(1_000_000)
    for _ in range(r.choice([0, 1, 2, 3, 5, 8, 12])):
        us += r.randrange(0, 3_000_000)
        k = r.random()
        if k < 0.2:
            lines = [r.choice(KEYLINES) for _ in range(r.randrange(0, 5))]
            txt = r.choice([b"\n", b"\r\n"]).join(lines) + r.choice([b"", b"\n"])
            if r.random() < 0.08:
                txt += bytes([r.choice([0x80, 0xc3, 0xff])]) + b"\n"
            items.append(("dsb", txt))
        elif k < 0.75:
            items.append(("pkt", us, g.valid()))
        else:
            items.append(("pkt", us, g.frame()))
    legacy = r.random() < 0.3
    if legacy:
        data = wire.pcap_legacy(items, be=r.random() < 0.5, nano=r.random() < 0.5)
    else:
        res = r.choice([None, None, 6, 9, 3, 0x80 | 10, 0x80 | 20, 0])
        data = wire.pcapng(items, be=r.random() < 0.5, tsresol=res, tsoffset=r.choice([0, 0, 0, 1, 1_600_000_000]),
                           extra_blocks=r.random() < 0.5, shb_opts=r.random() < 0.5)
    k = r.random()
    what = "whole"
    if k < 0.12 and len(data) > 30:
        data = data[:r.randrange(len(data))]
        what = "truncated"
    elif k < 0.2 and len(data) > 40:
        b = bytearray(data)
        b[r.randrange(len(b))] ^= 1 << r.randrange(8)
        data = bytes(b)
        what = "bitflip"
    return data, legacy, what


def corr_files(ctx, n):
    g = Gen(ctx.rng)
    pt = ctx.point("capture-file")
    cases = []
    for _ in range(n):
        data, legacy, what = gen_file(ctx, g)
        c = ctx.rng.random() < 0.6
        cases.append((data, legacy, c, what))
    real = [real_file(d, lg, c) for d, lg, c, _ in cases]
    out = ctx.driver("ingest", [f"file {int(lg)} {int(c)} {hx(d)}" for d, lg, c, _ in cases])
    for (d, lg, c, what), a, b in zip(cases, real, out):
        pt["cases"] += 1
        ctx.hist("capture-file", what + ("/legacy" if lg else "/pcapng") + ("/" + a.split(":")[1][:24] if a.startswith("err") else "/ok"))
        ctx.count(("file", d), nontrivial=not a.startswith("err:container") and a != "-")
        if a != b:
            ctx.disagree("capture-file", {"file": d.hex()[:6000], "legacy": lg, "c": c, "what": what}, a[:1500], b[:1500])


def correspond(ctx, scale=1):
    import logging
    import fw
    logging.disable(logging.CRITICAL)
    with fw.quiet():
        corr_frames(ctx, ctx.n(4000, 60000) * scale, ctx.n(2500, 30000) * scale)
        corr_files(ctx, ctx.n(400, 5000) * scale)
    ctx.rule = ("frames: structured generator over every dpkt class reachable from Ethernet (nesting ≤ 4), valid frames with "
                "options / extension chains / VLAN / trailers / fragments, truncation at every byte position, random bytes, bit "
                "flips, 20 nesting chains at the recursion boundary; files: pcapng / legacy containers around such frames and "
                "DSBs, whole / truncated / bit-flipped; non-trivial iff the frame is not `other` / the file is not a container error")
