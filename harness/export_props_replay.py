"""Replay of the witness behind the hypothesis `hkeys` of `TLX.Props.ExportProps.export_cut_prefix_tls*` on the REAL tool
(toy world of pipeline_corr): a capture whose key material sits in a Decryption Secrets Block AFTER the packets. Cutting
the capture before that block removes the keys, and with `-a` the export of the cut capture is then NOT a prefix of the
export of the whole capture (the decrypted Finished / application data appear in the middle of the conversation).

    PYTHONPATH=$TLX_REPO:harness python harness/export_props_replay.py
"""
import random

import e2e
import pipeline_corr
import tool
import wire


def rows(out):
    return [] if not out else [(d["sport"], d["dport"], d.get("flags", 0), d["payload"]) for _us, d in wire.read_output(out)]


def main(seed=5):
    rng = random.Random(seed)
    with pipeline_corr.toy_world():
        sc = e2e.Scenario(rng, [(0x009C, "tls12", False)], sports=[443])
        pkts = list(sc.items)
        dsb = ("dsb", ("\n".join(sc.keylog) + "\n").encode())
        res = {}
        for a in ([], ["-a"]):
            full = tool.run(wire.pcapng(pkts + [dsb]), None, a)
            cut = tool.run(wire.pcapng(pkts), None, a)            # the same file cut after the last packet block
            rf, rc = rows(full.out), rows(cut.out)
            data_f = [r for r in rf if r[2] == 0x18]
            data_c = [r for r in rc if r[2] == 0x18]
            res[tuple(a)] = (len(rc), len(rf), rc == rf[:len(rc)], data_c == data_f[:len(data_c)])
            print(f"args={a}: cut {len(rc)} frames ({len(data_c)} data), full {len(rf)} frames ({len(data_f)} data); "
                  f"cut is a frame prefix of full: {rc == rf[:len(rc)]}; data payload prefix: {data_c == data_f[:len(data_c)]}")
    return res


if __name__ == "__main__":
    main()
