"""Standalone run of the packet-level QUIC session package (q2b): proofs + axiom audit + correspondence.
   cd /root/wt/q2b && PYTHONPATH=/repo:harness /venv/bin/python -W ignore harness/q2b_selftest.py [n_valid n_malformed]"""
import json
import sys
import time

import fw
import q2b_session as Q


def main():
    ctx = fw.Ctx("C02", "quick", int(sys.argv[3]) if len(sys.argv) > 3 else 0)
    t0 = time.time()
    ok = ctx.prove(Q.MODULES)
    ctx.require_theorems(Q.THEOREMS)
    t1 = time.time()
    nv = int(sys.argv[1]) if len(sys.argv) > 1 else None
    nm = int(sys.argv[2]) if len(sys.argv) > 2 else None
    Q.correspond(ctx, nv, nm)
    t2 = time.time()
    print(f"prove ok={ok} ({t1 - t0:.1f}s)  theorems audited={len(ctx.theorems)}  proof problems={len(ctx.proof_problems)}")
    for p in ctx.proof_problems[:10]:
        print("  PROOF-PROBLEM", json.dumps(p)[:600])
    print(f"correspondence ({t2 - t1:.1f}s):")
    for name, p in ctx.corr.items():
        print(f"  {name}: cases={p['cases']} disagreements={p['disagreements']}")
    for d in ctx.disagreements[:5]:
        print("  DISAGREE", d["point"], json.dumps(d["case"])[:400])
        print("     impl :", d["impl"][:1500])
        print("     model:", d["model"][:1500])
    print(f"sender-check failures: {len(ctx.failures)}")
    for f in ctx.failures[:3]:
        print("  FAIL", f["signature"], json.dumps(f["case"], default=str)[:800])
        print("     expected:", f["expected"][:6])
        print("     actual  :", f["actual"][:6])
    bad = (not ok) or ctx.proof_problems or ctx.disagreements or ctx.failures
    print("RESULT", "FAIL" if bad else "OK")
    return 1 if bad else 0


if __name__ == "__main__":
    sys.exit(main())
