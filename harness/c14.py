"""C14 — every cipher-suite code point resolves to the parameters its IANA name denotes.

proof:          lean/TLX/Props/C14.lean over lean/TLX/Gen/CipherTable.lean, regenerated from /repo each run
correspondence: Lean `CipherSuite.resolve` vs real `split_cipher_suite` on all 65 536 code points
oracle/search:  real `split_cipher_suite` vs independent registry copy + token-grammar parser (Python)
"""
import fw
import extract
import spec_suites

THEOREMS = ["TLX.Props.C14.table_ok", "TLX.Props.C14.resolve_sound_complete"]


def run(ctx):
    ctx.rule = ("all 65 536 two-byte code points, enumerated completely on every run (plus every table key that is "
                "not two bytes long, if any); a code point is non-trivial iff it is in TLExport's table or in the "
                "independent registry copy")
    ctx.assumptions = ["the independent registry copy (harness/spec_iana.py, lean/TLX/Spec/IanaRegistry.lean) was written "
                       "from memory of the IANA registry; a disagreement with the source table is adjudicated against the RFCs"]
    ctx.gen_tables = extract.all_tables()
    import translate                 # decision-logic functions re-translated from the source and proved equal to the model
    _tm, _tt = translate.wire(ctx, "C14")
    import oncode_thms               # the property theorems stated on the regenerated definitions themselves (Props/OnCode)
    _om, _ot = oncode_thms.wire("C14")
    _tm, _tt = _tm + _om, _tt + _ot
    ctx.prove(["TLX.Props.C14"] + _tm)
    ctx.require_theorems(_tt)
    ctx.require_theorems(THEOREMS)

    import tlexport.cipher_suite_parser as csp
    impl = []
    for c in range(65536):
        try:
            r = spec_suites.render_impl(csp.split_cipher_suite(c.to_bytes(2, "big")))
        except Exception as e:  # noqa
            r = f"crash:{type(e).__name__}"
        impl.append(r)
    # oracle: the property itself, against the independent Python spec
    accepted = 0
    for c in range(65536):
        name = spec_suites.R.get(c)
        r = impl[c]
        nontrivial = r != "none" or name is not None
        ctx.count(c, nontrivial=nontrivial and (r != "none" or c in csp.cipher_suites))
        if r == "none":
            continue
        accepted += 1
        tname = csp.cipher_suites.get(c.to_bytes(2, "big"))
        if r.startswith("crash"):
            ctx.fail("C14:{accepted}:crash", "split_cipher_suite raises", {"code": c}, actual=r)
        elif name is None or tname != name:
            ctx.fail("C14:{accepted}:not-iana-name", "accepted code point is not the IANA code point of its name",
                     {"code": f"{c:04X}", "table_name": tname}, expected=name, actual=tname)
        elif spec_suites.denote(name) != r:
            ctx.fail("C14:{accepted}:wrong-params", "resolved parameters differ from what the IANA name denotes",
                     {"code": f"{c:04X}", "name": name}, expected=spec_suites.denote(name), actual=r)
        if accepted <= 3:
            ctx.sample({"code": f"{c:04X}", "name": name, "impl": r})
    # keys of other lengths can never be a ServerHello's suite id but show a damaged table
    for k in csp.cipher_suites:
        if len(k) != 2:
            ctx.fail("C14:{table}:bad-key", "table key is not a two-byte code point", {"key": k.hex()})
    ctx.hist("accepted_code_points", accepted)
    ctx.oracle["spec"] = {"runs": 65536, "accepted": accepted}
    ctx.exhaustive = True
    # correspondence: Lean model on all code points
    try:
        replies = ctx.driver("suite", [f"suite {c}" for c in range(65536)])
        p = ctx.point("suite.resolve")
        p["cases"] = 65536
        for c in range(65536):
            if replies[c] != impl[c]:
                ctx.disagree("suite.resolve", {"code": f"{c:04X}"}, impl[c], replies[c])
    except fw.HarnessError as e:
        ctx.notes.append(f"driver unavailable: {e}")
        ctx.point("suite.resolve")["unavailable"] = True
    return ctx.finish()


def replay(ctx, obj):
    import tlexport.cipher_suite_parser as csp
    c = int(obj["case"]["code"], 16) if isinstance(obj["case"].get("code"), str) else obj["case"]["code"]
    r = spec_suites.render_impl(csp.split_cipher_suite(c.to_bytes(2, "big")))
    name = spec_suites.R.get(c)
    want = spec_suites.denote(name) if name else "none"
    print("REPLAY code", f"{c:04X}", "impl", r, "spec", name, want)
    bad = (r != "none") and (name is None or r != want or csp.cipher_suites.get(c.to_bytes(2, "big")) != name)
    print("REPLAY", "fails" if bad else "passes")
    return 1 if bad else 0
