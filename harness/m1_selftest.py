"""Self-test of the main-loop work package: regenerate constants, prove, audit, run the correspondence, print the counts.
run: cd /root/wt/m1 && PYTHONPATH=/repo:harness /venv/bin/python -W ignore harness/m1_selftest.py"""
import json
import os
import sys
import time

import fw
import m1_mainloop as mm


def main():
    t0 = time.time()
    ctx = fw.Ctx("C04", os.environ.get("VERIF_TIER", "quick"), int(os.environ.get("VERIF_SEED", "0") or 0))
    ctx.gen_tables = mm.regen()
    ok = ctx.prove(mm.MODULES)
    ctx.require_theorems(mm.THEOREMS)
    t1 = time.time()
    mm.correspond(ctx)
    print(f"repo under test: {fw.REPO}")
    print(f"proof stage: {'ok' if ok and not ctx.proof_problems else 'BROKEN'}  theorems audited: {len(ctx.theorems)}  "
          f"required: {len(mm.THEOREMS)}  ({t1 - t0:.1f} s)")
    for p in ctx.proof_problems[:10]:
        print("  PROOF-PROBLEM", json.dumps(p)[:600])
    for name, pt in ctx.corr.items():
        print(f"  {pt['cases']:7d} cases  {pt['disagreements']:5d} disagreements  {name}")
    print(f"sequences/captures: {ctx.evaluations}  distinct non-trivial: {len(ctx.distinct)}  ({time.time() - t1:.1f} s)")
    for k in ("route_tls", "route_quic", "route_sessions", "run_class"):
        print(f"  {k}: {ctx.distribution.get(k)}")
    for d in ctx.disagreements[:5]:
        print("  DISAGREE", json.dumps(d, default=str)[:1500])
    print("  witness of C04.Ex.quic_route_counterexample on the real code:", mm.replay_cross_routing())
    bad = bool(ctx.proof_problems or ctx.disagreements)
    print("RESULT", "FLAGGED" if bad else "agree")
    return 1 if bad else 0


if __name__ == "__main__":
    sys.exit(main())
