"""Correspondence runner for the QUIC TLS handshake-message parser (part of C02).

model:  lean/TLX/Quic/TlsMsgs.lean (driver `tlxdriver tlsmsgs`)
real:   tlexport.quic.quic_tls_parser.QuicTlsSession.handle_record, driven in-process
proofs: lean/TLX/Props/C02Hello.lean

`correspond(ctx)` compares, record by record, the canonical state line of the real object with the
model's. The messages come from an independent RFC 8446 encoder written here (never from the model).
A small oracle-free sanity check (`tlsmsgs.spec`) compares what the real parser extracted from valid
hellos with what the generator put in.
"""
import signal

MODULES = ["TLX.Props.C02Hello"]
THEOREMS = ["TLX.Props.C02Hello.client_hello_parsed",
            "TLX.Props.C02Hello.client_hello_fields",
            "TLX.Props.C02Hello.server_hello_parsed",
            "TLX.Props.C02Hello.server_hello_parsed_partial",
            "TLX.Props.C02Hello.server_hello_parsed_counterexample",
            "TLX.Props.C02Hello.encrypted_extensions_parsed",
            "TLX.Props.C02Hello.alpn_parsed",
            "TLX.Props.C02Hello.greasy_bit_parsed",
            "TLX.Props.C02Hello.get_extensions_total",
            "TLX.Props.C02Hello.raises_iff",
            "TLX.Props.C02Hello.raises_only_client_hello",
            "TLX.Props.C02Hello.raise_shortest",
            "TLX.Props.C02Hello.raise_truncated_before_compression"]

GREASE_EXT = [0x0a0a + 0x1010 * i for i in range(16)]


# ------------------------------------------------------------------ independent encoder (RFC 8446 §4)
def u8(n): return n.to_bytes(1, "big")
def u16(n): return n.to_bytes(2, "big")
def u24(n): return n.to_bytes(3, "big")
def vec8(b): return u8(len(b)) + b
def vec16(b): return u16(len(b)) + b


def varint(v, width=None):
    """RFC 9000 §16; width in {1,2,4,8} or minimal."""
    if width is None:
        width = 1 if v < 1 << 6 else 2 if v < 1 << 14 else 4 if v < 1 << 30 else 8
    p = {1: 0, 2: 1, 4: 2, 8: 3}[width]
    return ((p << (8 * width - 2)) | v).to_bytes(width, "big")


def enc_ext(ty, body): return u16(ty) + vec16(body)


def enc_exts(exts):
    return vec16(b"".join(enc_ext(t, b) for t, b in exts))


def handshake(msg_type, body): return u8(msg_type) + u24(len(body)) + body


def enc_client_hello(lv, rnd, sid, suites, comp, exts):
    body = lv + rnd + vec8(sid) + vec16(b"".join(suites)) + vec8(comp)
    if exts is not None:
        body += enc_exts(exts)
    return handshake(1, body)


def enc_server_hello(lv, rnd, sid, suite, comp, exts):
    body = lv + rnd + vec8(sid) + suite + u8(comp)
    if exts is not None:
        body += enc_exts(exts)
    return handshake(2, body)


def enc_encrypted_extensions(exts): return handshake(8, enc_exts(exts))


def alpn_body(names): return vec16(b"".join(vec8(n) for n in names))


def tp_body(params, rng=None):
    out = b""
    for pid, val in params:
        w = None
        if rng is not None and rng.random() < 0.2:
            need = 1 if pid < 1 << 6 else 2 if pid < 1 << 14 else 4 if pid < 1 << 30 else 8
            w = rng.choice([x for x in (1, 2, 4, 8) if x >= need])
        out += varint(pid, w) + varint(len(val)) + val
    return out


# ------------------------------------------------------------------ generators
def rbytes(rng, n): return bytes(rng.getrandbits(8) for _ in range(n))


def gen_tp(rng):
    """-> (body, ids or None when deliberately damaged)"""
    params = []
    for _ in range(rng.randrange(0, 8)):
        r = rng.random()
        if r < 0.25:
            pid = 0x2ab2
            val = b"" if rng.random() < 0.8 else rbytes(rng, rng.randrange(1, 4))
        elif r < 0.35:
            pid = 27 + 31 * rng.randrange(0, 1 << rng.choice((4, 10, 20, 40)))
            val = rbytes(rng, rng.randrange(0, 12))
        elif r < 0.45:
            pid = rng.choice((0x2ab1, 0x2ab3, 0x6ab2, 0x2a, 0xb2, 0x2ab200, 0xaab2))
            val = rbytes(rng, rng.randrange(0, 5))
        else:
            pid = rng.randrange(0, 0x12)
            val = varint(rng.randrange(0, 1 << rng.choice((6, 14, 30)))) if pid not in (0, 2, 0xf) else rbytes(rng, rng.choice((8, 16, 20)))
        params.append((pid, val))
    body = tp_body(params, rng)
    r = rng.random()
    if r < 0.12 and body:
        return body[:rng.randrange(0, len(body))], None          # truncated somewhere
    if r < 0.16:
        return body + rbytes(rng, rng.randrange(1, 4)), None     # trailing junk
    if r < 0.19:
        return body + varint(rng.randrange(0, 64)) + varint(rng.randrange(1, 1 << 40)), None  # huge length, clamps
    return body, [p for p, _ in params]


def gen_exts(rng, role, info):
    """role: 'ch' | 'sh' | 'ee'. info collects what a correct parser should see."""
    exts = []
    for _ in range(rng.choice((0, 1, 2, 2, 3, 4, 6, 9))):
        r = rng.random()
        if r < 0.2:
            k = rng.choice((1, 1, 1, 2, 3, 0))
            names = [rng.choice((b"h3", b"h3-29", b"hq-interop", b"doq", b"", rbytes(rng, rng.randrange(1, 20)))) for _ in range(k)]
            body = alpn_body(names)
            if rng.random() < 0.1:
                body = rbytes(rng, rng.randrange(0, 6))
            exts.append((16, body))
        elif r < 0.4:
            if role == "ch" and rng.random() < 0.8:
                vs = [rng.choice((b"\x03\x04", b"\x03\x03", u16(rng.choice(GREASE_EXT)))) for _ in range(rng.randrange(1, 4))]
                body = vec8(b"".join(vs))
            else:
                body = rng.choice((b"\x03\x04", b"\x03\x03", b"\x7f\x1c", rbytes(rng, rng.choice((0, 1, 2, 3)))))
            exts.append((43, body))
        elif r < 0.65:
            body, ids = gen_tp(rng)
            exts.append((57, body))
        elif r < 0.75:
            exts.append((rng.choice(GREASE_EXT), rbytes(rng, rng.choice((0, 0, 1, 5)))))
        elif r < 0.85:
            exts.append((rng.choice((0, 10, 13, 51, 45, 0xffa5, 0x39ff, 0x1000 + 43, 0x1000 + 16)), rbytes(rng, rng.randrange(0, 40))))
        else:
            exts.append((rng.randrange(0, 65536), rbytes(rng, rng.randrange(0, 300) if rng.random() < 0.1 else rng.randrange(0, 8))))
    info["exts"] = exts
    return exts


def gen_hello(rng):
    """-> (kind, record bytes, info)"""
    info = {}
    kind = rng.choice(("ch", "ch", "ch", "sh", "sh", "ee"))
    lv = rng.choice((b"\x03\x03", b"\x03\x03", b"\x03\x01", rbytes(rng, 2)))
    rnd = rbytes(rng, 32)
    sid = rbytes(rng, rng.choice((0, 0, 32, 32, rng.randrange(0, 33))))
    if kind == "ch":
        ns = rng.choice((1, 1, 2, 3, rng.randrange(1, 41)))
        suites = [rng.choice((b"\x13\x01", b"\x13\x02", b"\x13\x03", b"\x00\xff", rbytes(rng, 2))) for _ in range(ns)]
        comp = rng.choice((b"\x00", b"\x00", b"\x01\x00", rbytes(rng, rng.randrange(1, 9))))
        exts = gen_exts(rng, "ch", info) if rng.random() < 0.93 else None
        rec = enc_client_hello(lv, rnd, sid, suites, comp, exts)
        info.update(random=rnd, suite=suites[0], sid=sid, lv=lv, nsuites=ns, ncomp=len(comp))
    elif kind == "sh":
        suite = rng.choice((b"\x13\x01", b"\x13\x02", b"\x13\x03", rbytes(rng, 2)))
        exts = gen_exts(rng, "sh", info) if rng.random() < 0.93 else None
        rec = enc_server_hello(lv, rnd, sid, suite, rng.choice((0, 0, 0, 1)), exts)
        info.update(suite=suite, sid=sid, lv=lv)
    else:
        rec = enc_encrypted_extensions(gen_exts(rng, "ee", info))
    info["noexts"] = kind != "ee" and "exts" not in info
    return kind, rec, info


def expected_from_exts(info):
    """What a correct reading of the extension list yields for a *fresh* session (independent of the model)."""
    alpn, vers, greasy = None, None, False
    for ty, body in info.get("exts") or []:
        if ty == 16 and len(body) >= 3 and len(body) == 3 + body[2] and int.from_bytes(body[:2], "big") == len(body) - 2:
            alpn = body[3:]
        if ty == 43 and len(body) == 2:
            vers = body
    return alpn, vers, greasy


def mutate(rng, rec):
    """Malformed variants of a (mostly valid) record."""
    r = rng.random()
    n = len(rec)
    if r < 0.30 and n > 1:      # truncate, keep the stale length field
        return rec[:rng.randrange(0, n)]
    if r < 0.55 and n > 5:      # truncate and fix the handshake length (what handle_buffer would pass)
        k = rng.randrange(4, n)
        return rec[:1] + u24(k - 4) + rec[4:k]
    if r < 0.65 and n > 4:      # wrong handshake length
        return rec[:1] + u24(rng.choice((0, n - 5, n - 3, n + 10, 0xffffff, rng.randrange(0, 1 << 24)))) + rec[4:]
    if r < 0.80 and n > 8:      # flip/overwrite a byte (length fields live everywhere)
        i = rng.randrange(0, n)
        return rec[:i] + bytes([rng.choice((0, 1, 2, 0xff, rng.getrandbits(8)))]) + rec[i + 1:]
    if r < 0.88:                # append junk
        return rec + rbytes(rng, rng.randrange(1, 6))
    if r < 0.94 and n > 6:      # delete a byte
        i = rng.randrange(4, n)
        return rec[:i] + rec[i + 1:]
    return rbytes(rng, rng.choice((0, 1, 3, 4, 5, 6, 37, 38, 39, 43, 44, 45, rng.randrange(0, 120))))


def boundary_truncations(rec):
    """Every prefix of a record, once with the stale and once with the repaired length field."""
    out = []
    for k in range(0, len(rec) + 1):
        out.append(rec[:k])
        if k >= 4:
            out.append(rec[:1] + u24(k - 4) + rec[4:k])
    return out


# ------------------------------------------------------------------ the real code
class Hang(Exception):
    pass


class Real:
    def __init__(self):
        from tlexport.quic.quic_tls_parser import QuicTlsSession
        self.cls = QuicTlsSession
        self.hung = False
        self.reset()

    def reset(self):
        self.s = self.cls()

    def _alarm(self, *a):
        self.hung = True
        raise Hang()

    def rec(self, ty, data):
        self.hung = False
        old = signal.signal(signal.SIGALRM, self._alarm)
        signal.setitimer(signal.ITIMER_REAL, 5.0)
        try:
            self.s.handle_record(ty, data)
            st = "ok"
        except Hang:
            st = "err:hang"
        except IndexError:
            st = "err:index"
        except Exception as e:  # noqa
            st = "err:" + type(e).__name__
        finally:
            signal.setitimer(signal.ITIMER_REAL, 0)
            signal.signal(signal.SIGALRM, old)
        if self.hung:
            st = "err:hang"
        return st + " " + self.state()

    def state(self):
        s = self.s

        def h(b):
            if b is None:
                return "N"
            if not isinstance(b, (bytes, bytearray)):
                return "?" + repr(b)
            return b.hex() if len(b) else "-"
        return (f"cr={h(s.client_random)} cs={h(s.ciphersuite)} alpn={h(s.alpn)} vers={h(s.tls_vers)} "
                f"greasy={1 if s.greasy_bit is True else 0 if s.greasy_bit is False else repr(s.greasy_bit)} "
                f"new={1 if s.new_data is True else 0 if s.new_data is False else repr(s.new_data)} "
                f"sid={h(getattr(s, 'session_id', None))}")


def hx(b): return b.hex() if b else "-"


def run_sessions(ctx, real, sessions, point):
    """sessions: list of lists of ops ('rec', type, bytes) | ('clrnew',). One fresh object per session."""
    p = ctx.point(point)
    lines, impl = [], []
    index = []
    for si, ops in enumerate(sessions):
        real.reset()
        lines.append("reset")
        impl.append("ok")
        index.append((si, None))
        for oi, op in enumerate(ops):
            if op[0] == "clrnew":
                real.s.new_data = False
                lines.append("clrnew")
                impl.append("ok")
            else:
                _, ty, data = op
                res = real.rec(ty, data)
                lines.append(f"rec {ty} {hx(data)}")
                impl.append(res)
                p["cases"] += 1
                ctx.hist(point + ".result", res.split(" ")[0])
                ctx.hist(point + ".alpn", "N" if " alpn=N " in res else "set")
                ctx.hist(point + ".greasy", res.split("greasy=")[1][0])
                if res.startswith("err:hang"):
                    ctx.disagree(point + ".hang", {"type": ty, "record": data.hex()}, res, "model terminates")
            index.append((si, oi))
    replies = ctx.driver("tlsmsgs", lines)
    for (si, oi), a, b, ln in zip(index, impl, replies, lines):
        if a != b:
            ops = sessions[si]
            ctx.disagree(point, {"session": [(o[0], o[1], o[2].hex()) if o[0] == "rec" else o for o in ops], "at": oi,
                                 "line": ln[:400]}, a, b)
    return impl, replies


def correspond(ctx, scale=1):
    rng = ctx.rng
    real = Real()

    # --- valid stream: one message per fresh session + oracle-free sanity
    nvalid = ctx.n(2600, 40000) * scale
    sessions, metas = [], []
    for _ in range(nvalid):
        kind, rec, info = gen_hello(rng)
        sessions.append([("rec", rec[0], rec)])
        metas.append((kind, rec, info))
    impl, _ = run_sessions(ctx, real, sessions, "tlsmsgs.valid")
    j = 0
    for (kind, rec, info), ses in zip(metas, sessions):
        j += 1                      # skip the 'reset' reply
        line = impl[j]
        j += 1
        f = dict(kv.split("=", 1) for kv in line.split(" ")[1:])
        ctx.hist("valid.kind", kind)
        ctx.hist("valid.next", len(info.get("exts") or []))
        ctx.hist("valid.sidlen", len(info.get("sid", b"")) // 8 * 8)
        if kind == "ch":
            ctx.hist("valid.nsuites", min(info["nsuites"], 10))
        nontriv = bool(info.get("exts")) or kind == "ch"
        ctx.count((kind, rec), nontrivial=nontriv)
        alpn, vers, _ = expected_from_exts(info)
        want = {}
        short_sh = kind == "sh" and len(rec) < 44
        if kind == "ch":
            want = {"cr": info["random"].hex(), "cs": info["suite"].hex(), "sid": hx(info["sid"]), "new": "1",
                    "vers": (vers or info["lv"]).hex()}
        elif kind == "sh" and not short_sh:
            want = {"cs": info["suite"].hex(), "new": "1", "vers": vers.hex() if vers else "N"}
        elif kind == "ee":
            want = {"new": "1", "vers": vers.hex() if vers else "N"}
        # RFC 8446 4.2: an extension type appears at most once. The independent expectation for ALPN is only defined for
        # such lists; what the code makes of a message that repeats the ALPN extension is pinned by the model
        # correspondence (tlsmsgs.valid), not by this spec point.
        n_alpn = sum(1 for ty, _ in (info.get("exts") or []) if ty == 16)
        if not short_sh and (n_alpn == 0 or (n_alpn == 1 and alpn is not None)):
            # no ALPN extension → nothing recorded; one RFC 7301-conformant extension → its protocol name.
            # (A single extension whose list length field is wrong is malformed: no expectation.)
            want["alpn"] = hx(alpn) if alpn is not None else "N"
        if not line.startswith("ok "):
            ctx.disagree("tlsmsgs.spec", {"kind": kind, "record": rec.hex()}, line, "valid message must not raise")
        for k, v in want.items():
            if f.get(k) != v:
                ctx.disagree("tlsmsgs.spec", {"kind": kind, "record": rec.hex(), "field": k}, f.get(k), v)
        ctx.point("tlsmsgs.spec")["cases"] += 1
    # greasy sanity on clean transport parameters
    gs = []
    for _ in range(ctx.n(300, 3000)):
        while True:
            body, ids = gen_tp(rng)
            if ids is not None:
                break
        rec = enc_encrypted_extensions([(57, body)])
        gs.append((rec, 0x2ab2 in ids))
    impl, _ = run_sessions(ctx, real, [[("rec", 8, r)] for r, _ in gs], "tlsmsgs.valid")
    for i, (rec, g) in enumerate(gs):
        line = impl[2 * i + 1]
        ctx.point("tlsmsgs.spec")["cases"] += 1
        ctx.hist("valid.greasy", int(g))
        if f"greasy={int(g)} " not in line:
            ctx.disagree("tlsmsgs.spec", {"kind": "ee-tp", "record": rec.hex(), "field": "greasy"}, line, int(g))

    # --- malformed stream
    sessions = []
    nb = ctx.n(6, 60)
    for _ in range(nb):            # every prefix of a few messages
        kind, rec, info = gen_hello(rng)
        if len(rec) > 400:
            continue
        for t in boundary_truncations(rec):
            sessions.append([("rec", rec[0], t)])
    for _ in range(ctx.n(2500, 40000) * scale):
        kind, rec, info = gen_hello(rng)
        m = mutate(rng, rec)
        ty = rec[0] if rng.random() < 0.85 else rng.choice((1, 2, 8, 0, 4, 11, 20, rng.randrange(0, 256)))
        sessions.append([("rec", ty, m)])
    for n in (0, 1, 3, 4, 5, 6, 7, 37, 38, 39, 40, 43, 44, 45):   # short records around the guards
        for ty in (1, 2, 8):
            for fill in (0, 0xff):
                sessions.append([("rec", ty, bytes([ty, 0, 0, max(0, n - 4) & 0xff]) [:n] + bytes([fill]) * max(0, n - 4))])
                sessions.append([("rec", ty, bytes([ty, 0, 0, 0])[:n] + bytes([fill]) * max(0, n - 4))])
    for _ in range(ctx.n(400, 6000)):                               # pure random
        sessions.append([("rec", rng.choice((1, 2, 8, rng.randrange(0, 256))), rbytes(rng, rng.randrange(0, 100)))])
    run_sessions(ctx, real, sessions, "tlsmsgs.malformed")
    for s in sessions:
        ctx.count(("m", s[0][1], s[0][2]), nontrivial=len(s[0][2]) >= 6)

    # --- sequences on one session: state carries over
    sessions = []
    for _ in range(ctx.n(300, 5000) * scale):
        ops = []
        for _ in range(rng.randrange(2, 7)):
            kind, rec, info = gen_hello(rng)
            ty = rec[0]
            if rng.random() < 0.35:
                rec = mutate(rng, rec)
            if rng.random() < 0.05:
                ty = rng.randrange(0, 256)
            ops.append(("rec", ty, rec))
            if rng.random() < 0.4:
                ops.append(("clrnew",))
        sessions.append(ops)
        ctx.hist("seq.len", len([o for o in ops if o[0] == "rec"]))
    run_sessions(ctx, real, sessions, "tlsmsgs.sequences")
    for s in sessions:
        ctx.count(("s", tuple(o[2] if o[0] == "rec" else b"" for o in s)), nontrivial=True)
    # --- the concrete witnesses named in Props/C02Hello.lean, replayed on the real code
    w_short = bytes([1, 0, 0, 34, 3, 3]) + b"\xab" * 32
    w_trunc = bytes([1, 0, 0, 39, 3, 3]) + b"\xab" * 32 + bytes([0, 0, 2, 0x13, 0x01])
    w_sh42 = enc_server_hello(b"\x03\x03", b"\x07" * 32, b"", b"\x13\x01", 0, None)
    wit = [(1, w_short, "err:index cr=" + "ab" * 32 + " cs=N alpn=N vers=0303 greasy=0 new=0 sid=N"),
           (1, w_trunc, "err:index cr=" + "ab" * 32 + " cs=1301 alpn=N vers=0303 greasy=0 new=0 sid=-"),
           (2, w_sh42, "ok cr=N cs=N alpn=N vers=N greasy=0 new=0 sid=N")]
    impl, _ = run_sessions(ctx, real, [[("rec", t, r)] for t, r, _ in wit], "tlsmsgs.witness")
    for i, (t, r, want) in enumerate(wit):
        if impl[2 * i + 1] != want:
            ctx.disagree("tlsmsgs.witness", {"type": t, "record": r.hex()}, impl[2 * i + 1], want)
    ctx.sample({"tlsmsgs": {"record": metas[0][1].hex()[:200], "kind": metas[0][0]}})
