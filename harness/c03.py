"""C03 — an undecryptable or damaged flow never aborts the run or disturbs other flows.

oracle (fault enumeration on the real tool): a victim flow + healthy bystanders; every single fault of the property's
list is applied to the victim; required: the run ends normally, every bystander's exported packets are identical to
the fault-free run, and for information-removing faults the victim contributes at most a prefix of its plaintext.
"""
import struct

import e2e
import fw
import gen_tls
import tool
import wire

THEOREMS = []
import re
import spec_iana
UNSUPPORTED_BY_NAME = sorted(c for c, n in spec_iana.R.items()
                             if re.search(r"ARIA|CAMELLIA_\d+_GCM|NULL|SEED|DES40|RC2|EXPORT|_DES_CBC", n))
UNSUPPORTED_CLASSES = {}
for _c in UNSUPPORTED_BY_NAME:
    _n = spec_iana.R[_c]
    _k = next(k for k in ("ARIA", "CAMELLIA", "NULL", "SEED", "DES40", "RC2", "EXPORT", "_DES_CBC") if k in _n) + \
        ("-GCM" if "GCM" in _n else "")
    UNSUPPORTED_CLASSES.setdefault(_k, []).append(_c)
INFO_REMOVING = {"delete", "cut-after", "cut-before", "drop-keys", "unknown-suite", "http-on-443", "udp-noise",
                 "no-keys"}


def conn_of(mx, k):
    kind, j = mx.kinds[k]
    return (mx.tls[j]["conn"], 6) if kind == "tls" else (mx.quic[j]["conn"], 17)


def fingerprint(pkts, mx, k):
    conn, proto = conn_of(mx, k)
    return e2e.flow_packets(pkts, conn.cip, conn.cport, conn.sip, proto)


def victim_view(pkts, mx):
    """what the victim (connection 0) contributes: TLS → (c2s, s2c) bytes; QUIC → (tuple of datagrams c→s, s→c)"""
    conn, proto = conn_of(mx, 0)
    if proto == 6:
        convs = wire.tcp_conversations(pkts)
        c = e2e.find_conv(convs, conn)
        return (c["c2s"], c["s2c"]) if c else (b"", b"")
    d = {False: [], True: []}
    for row in e2e.flow_packets(pkts, conn.cip, conn.cport, conn.sip, 17):
        if row[10]:
            d[(row[3], row[4]) != (conn.cip, conn.cport)].append(row[10])      # direction by (address, port): both ends may share an address
    return (tuple(d[False]), tuple(d[True]))


def victim_truth(mx):
    kind, j = mx.kinds[0]
    if kind == "tls":
        t = mx.tls[j]["truth"]
        return (t[0], t[1])
    ex = mx.quic[j]["expect"]
    return (tuple(b for _, d, b in ex if not d), tuple(b for _, d, b in ex if d))


def is_prefix(a, b):
    return a == b[:len(a)]


def is_subsequence(a, b):
    it = iter(b)
    return all(any(x == y for y in it) for x in a)


def contributes_only_true_data(got, truth):
    """TLS (bytes): the exported stream is a prefix of the sender's stream.
    QUIC (tuple of datagrams): every exported datagram is one of the sender's datagrams, in order — QUIC datagrams are
    decrypted independently and the protocol itself runs with gaps (C02: 'packet numbers with gaps'), so after a lost
    datagram the later ones still appear; nothing else (no ciphertext, no invented or merged payload) may appear."""
    if isinstance(truth, tuple):
        return is_subsequence(got, truth)
    return is_prefix(got, truth)


def make_faults(mx, rng, exhaustive):
    """→ list of (kind, description, items, keylog_lines). Victim is connection 0 (TLS or QUIC)."""
    faults = []
    items, owners = mx.items, mx.owners
    vic = [j for j, o in enumerate(owners) if o == 0]
    conn, proto = conn_of(mx, 0)
    kl = mx.keylog
    vlines = set(mx.tls[mx.kinds[0][1]]["keylog"] if proto == 6 else mx.quic[mx.kinds[0][1]]["keylog"])
    vkl = [j for j, l in enumerate(kl) if l in vlines]

    def payload_of(j):
        k = vic.index(j)
        if proto == 6:
            return conn.pkts[k][4]
        return wire.parse_frame(items[j][2])["payload"]

    def rebuilt(j, payload):
        k = vic.index(j)
        if proto == 6:
            t, f, d, seq, _ = conn.pkts[k]
            return ("pkt", items[j][1], conn.frame(d, seq, payload))
        if conn.dirs[k]:
            f = wire.udp_frame(conn.smac, conn.cmac, conn.sip, conn.cip, conn.sport, conn.cport, payload)
        else:
            f = wire.udp_frame(conn.cmac, conn.smac, conn.cip, conn.sip, conn.cport, conn.sport, payload)
        return ("pkt", items[j][1], f)

    pos = vic if exhaustive else rng.sample(vic, min(len(vic), 4))
    for j in pos:
        faults.append(("delete", f"delete packet {j}", items[:j] + items[j + 1:], kl))
        faults.append(("cut-after", f"victim flow ends after packet {j} (capture ends mid-connection)",
                       [it for q, it in enumerate(items) if q <= j or owners[q] != 0], kl))
        faults.append(("cut-before", f"victim flow starts at packet {j} (capture starts mid-connection)",
                       [it for q, it in enumerate(items) if q >= j or owners[q] != 0], kl))
        payload = bytes(payload_of(j))
        if payload:
            b = rng.randrange(len(payload) * 8)
            flipped = bytearray(payload)
            flipped[b // 8] ^= 1 << (b % 8)
            faults.append(("bitflip", f"flip bit {b} of packet {j}", items[:j] + [rebuilt(j, bytes(flipped))] + items[j + 1:], kl))
            faults.append(("overwrite", f"overwrite payload of packet {j}",
                           items[:j] + [rebuilt(j, rng.randbytes(len(payload)))] + items[j + 1:], kl))
            cuts = {1, 5, len(payload) // 2, len(payload) - 1, rng.randrange(1, max(2, min(len(payload), 60)))}
            if proto == 6:
                cuts.add(0)
            for cutlen in cuts - {len(payload)}:
                if cutlen >= 0:
                    faults.append(("shorten", f"shorten packet {j} to {cutlen} bytes",
                                   items[:j] + [rebuilt(j, payload[:cutlen])] + items[j + 1:], kl))
    subsets = range(1, 1 << len(vkl)) if len(vkl) <= 4 else [rng.getrandbits(len(vkl)) | 1 for _ in range(6)]
    for m in subsets:
        drop = {vkl[b] for b in range(len(vkl)) if m >> b & 1}
        faults.append(("drop-keys" if len(drop) < len(vkl) else "no-keys", f"remove key-log lines {sorted(drop)}", items,
                       [l for j, l in enumerate(kl) if j not in drop]))
    wrong = []
    for j, l in enumerate(kl):
        if j in vkl:
            lab, cr, sec = l.split(" ")
            wrong.append(f"{lab} {cr} {rng.randbytes(len(sec) // 2).hex()}")
        else:
            wrong.append(l)
    faults.append(("wrong-keys", "victim secrets replaced by random ones", items, wrong))
    if proto == 6:
        for j in vic:      # unknown suite id in ServerHello
            k = vic.index(j)
            t, f, d, seq, payload = conn.pkts[k]
            if d == 1 and payload[:1] == b"\x16" and payload[5:6] == b"\x02" and len(payload) > 5 + 4 + 2 + 32:
                sid_len = payload[5 + 4 + 2 + 32]
                off = 5 + 4 + 2 + 32 + 1 + sid_len
                if off + 2 <= len(payload):
                    # an unassigned id, and registered ids whose NAME denotes something the decryptor has no routine for
                    # (ARIA, Camellia-GCM, NULL, SEED, single DES, RC2, export suites): whatever the table says, such a
                    # flow must export nothing
                    for sid in [0x7f7f] + [rng.choice(v) for _, v in sorted(UNSUPPORTED_CLASSES.items())]:
                        p2 = payload[:off] + sid.to_bytes(2, "big") + payload[off + 2:]
                        faults.append(("unknown-suite", f"cipher-suite id {sid:#06x} (no decrypt routine for it) in ServerHello",
                                       items[:j] + [rebuilt(j, p2)] + items[j + 1:], kl))
                break
    return faults


def extra_traffic(rng, t0):
    """plain HTTP on 443 and arbitrary UDP payloads (foreign traffic added to the capture)"""
    out = []
    cip, sip = bytes([10, 9, 9, 9]), bytes([192, 168, 9, 9])
    seq = 7000
    for i, data in enumerate([b"GET / HTTP/1.1\r\nHost: x\r\n\r\n", b"HTTP/1.1 200 OK\r\nContent-Length: 5\r\n\r\nhello",
                              rng.randbytes(rng.randrange(1, 300))]):
        d = i % 2
        f = wire.tcp_frame(gen_tls.CMAC, gen_tls.SMAC, cip if d == 0 else sip, sip if d == 0 else cip,
                           51000 if d == 0 else 443, 443 if d == 0 else 51000, seq, 1, 0x18, data)
        out.append(("pkt", t0 + 10 + i, f))
    return out


def udp_noise(rng, t0, n, firsts=None):
    out = []
    for i in range(n):
        ln = rng.choice([1, 2, 3, 5, 6, 7, 20, 21, 22, 50, 1200, 1500]) if rng.random() < 0.7 else rng.randrange(1, 1501)
        data = bytearray(rng.randbytes(ln))
        if firsts is not None:
            data[0] = firsts[i % len(firsts)]
        elif rng.random() < 0.6:
            data[0] = rng.choice([0xC0, 0xC3, 0xD0, 0xE0, 0xF0, 0x40, 0x44, 0x5F, 0x7F, 0x80, 0x00, 0x16, 0xFF])
        if rng.random() < 0.4 and len(data) >= 5:
            data[1:5] = rng.choice([b"\0\0\0\x01", b"\0\0\0\0", b"\x6b\x33\x43\xcf", b"\xff\0\0\x1d"])
        dport = rng.choice([443, 443, 44330, 53, 4433, rng.randrange(1, 65536)])
        f = wire.udp_frame(gen_tls.CMAC, gen_tls.SMAC, bytes([10, 8, 8, rng.randrange(1, 250)]), bytes([192, 168, 8, 8]),
                           rng.randrange(1024, 65536), dport, bytes(data))
        out.append(("pkt", t0 + 100 + i, f))
    return out


def one(job):
    import random
    import logging
    logging.disable(logging.CRITICAL)
    seed, victim_kind, ntls, nquic, exhaustive = job[:5]
    qfeat = job[5] if len(job) > 5 else None
    forced = job[6] if len(job) > 6 else None          # cipher suite / version of the TLS victim
    rng = random.Random(seed)
    # lengths 8 and 24 (= 8 mod 16): an AEAD record of that length has a block-aligned body when it is mistaken for CBC
    short = lambda: [(0, rng.randbytes(rng.randrange(1, 80))), (1, rng.randbytes(rng.randrange(1, 200))),
                     (0, rng.randbytes(rng.randrange(0, 50))), (1, rng.randbytes(rng.randrange(1, 90))),
                     (0, rng.randbytes(8)), (1, rng.randbytes(24))]
    tls_n = ntls + (1 if victim_kind == "tls" else 0)
    quic_n = nquic + (1 if victim_kind == "quic" else 0)
    combos = [e2e.random_combo(rng) for _ in range(tls_n)]
    if forced and combos:
        combos[0] = tuple(forced)
    mx = e2e.Mixed(rng, combos, n_quic=quic_n, noise=False,
                   tls_app=[short() for _ in range(tls_n)],
                   quic_features=[dict(qfeat) for _ in range(quic_n)] if qfeat else None)
    if victim_kind == "quic":       # make the victim connection index 0
        qk = [k for k, kd in enumerate(mx.kinds) if kd[0] == "quic"][0]
        perm = [qk] + [k for k in range(len(mx.kinds)) if k != qk]
        inv = {old: new for new, old in enumerate(perm)}
        mx.kinds = [mx.kinds[k] for k in perm]
        mx.owners = [inv[o] for o in mx.owners]
    base = tool.run(mx.capture(), mx.keylog_text())
    res = {"desc": mx.describe(), "victim": victim_kind, "n_faults": 0, "kinds": {}, "fails": []}
    blob0 = {"capture_hex": mx.capture().hex(), "keylog": mx.keylog_text(), "argv": []}
    if base.crashed:
        res["fails"].append(("baseline", "fault-free run", base.signature(), blob0))
        return res
    try:
        bp = wire.read_output(base.out)
        base_fp = [fingerprint(bp, mx, k) for k in range(len(mx.kinds))]
    except wire.FrameError as e:
        res["fails"].append(("baseline", "fault-free run", f"bad-frame:{e}", blob0))
        return res
    eps = []
    for k in range(len(mx.kinds)):
        c, proto = conn_of(mx, k)
        eps.append({"cip": c.cip.hex(), "cport": c.cport, "sip": c.sip.hex(), "proto": proto})
    # reference without the victim flow at all: what the bystanders export when the (possibly undecryptable) flow is
    # simply absent — every faulted run, the key-less ones included, must leave them exactly there
    alone_items = [it for it, o in zip(mx.items, mx.owners) if o != 0]
    alone = tool.run(wire.pcapng(alone_items), mx.keylog_text())
    if alone.crashed:
        res["fails"].append(("baseline", "bystanders-only run", alone.signature(), blob0))
        return res
    try:
        ap = wire.read_output(alone.out)
        for k in range(1, len(mx.kinds)):
            if fingerprint(ap, mx, k) != base_fp[k]:
                res["fails"].append(("presence", "the victim flow is present (no fault yet)",
                                     f"bystander-changed:{k}:{mx.kinds[k][0]}", dict(blob0, kind="presence", endpoints=eps, baseline={
                                         "capture_hex": wire.pcapng(alone_items).hex(), "keylog": mx.keylog_text(), "argv": []})))
                return res
    except wire.FrameError as e:
        res["fails"].append(("baseline", "bystanders-only run", f"bad-frame:{e}", blob0))
        return res
    truth = victim_truth(mx)
    faults = make_faults(mx, rng, exhaustive)
    t_end = mx.items[-1][1]
    faults.append(("http-on-443", "plain HTTP on port 443 added", mx.items + extra_traffic(rng, t_end), mx.keylog))
    for _ in range(3 if exhaustive else 1):
        noise = udp_noise(rng, t_end, rng.randrange(1, 30))
        pos = rng.randrange(len(mx.items) + 1)
        faults.append(("udp-noise", f"{len(noise)} arbitrary UDP datagrams inserted at {pos}",
                       mx.items[:pos] + noise + mx.items[pos:], mx.keylog))
    for kind, what, items, kl in faults:
        res["n_faults"] += 1
        res["kinds"][kind] = res["kinds"].get(kind, 0) + 1
        cap = wire.pcapng(items)
        kls = "\n".join(kl) + "\n"
        r = tool.run(cap, kls)
        blob = {"capture_hex": cap.hex(), "keylog": kls, "argv": [], "fault": what, "kind": kind, "endpoints": eps,
                "truth_victim": [[x.hex() for x in t] if isinstance(t, tuple) else t.hex() for t in truth],
                "baseline": blob0}
        if r.crashed:
            res["fails"].append((kind, what, r.signature(), blob))
            continue
        try:
            pk = wire.read_output(r.out)
            bad = next((k for k in range(1, len(mx.kinds)) if fingerprint(pk, mx, k) != base_fp[k]), None)
            if bad is not None:
                res["fails"].append((kind, what, f"bystander-changed:{bad}:{mx.kinds[bad][0]}", blob))
            elif kind in INFO_REMOVING:
                got = victim_view(pk, mx)
                if not (contributes_only_true_data(got[0], truth[0]) and contributes_only_true_data(got[1], truth[1])):
                    res["fails"].append((kind, what, "victim-not-prefix", blob))
        except wire.FrameError as e:
            res["fails"].append((kind, what, f"bad-frame:{e}", blob))
    return res


def explore(ctx, scale=1):
    rng = ctx.rng
    n = ctx.n(10, 400) * scale
    jobs = []
    for i in range(n):
        vk = "quic" if i % 3 == 2 else "tls"
        jobs.append((rng.getrandbits(48), vk, rng.randrange(0, 3), rng.randrange(0, 2) + (1 if i % 2 else 0), i < ctx.n(3, 60)))
    for k in range(2 * scale):
        # several QUIC connections of the same client software: every ClientHello is cut at the same offset and sent in
        # two datagrams; a fault on the victim (a lost first fragment leaves its second one pending for good) must not
        # reach the bystanders' CRYPTO streams
        jobs.append((rng.getrandbits(48), "quic", 0, 2, True,
                     (("ch_split", "asc"), ("ch_cuts", (90 + 17 * k,)), ("ch_multi", True), ("retry", False), ("zero_rtt", False))))
    for k in range(4 * scale):
        # TLS <= 1.2 victims with CBC and AEAD suites (fixed suites, several segmentations): the ServerHello faults
        # (unknown / unsupported suite ids) need a victim whose ServerHello sits whole in one segment
        jobs.append((rng.getrandbits(48), "tls", 0, 1, False, None,
                     [(0x002F, "tls12", False), (0x003C, "tls12", True), (0x0035, "tls11", False), (0x009C, "tls12", False)][k % 4]))
    results = tool.pmap(one, jobs) if ctx.thorough() else tool.pmap(one, jobs, procs=8)
    o = ctx.oracle.setdefault("fault-enumeration", {"runs": 0, "violations": 0})
    for job, res in zip(jobs, results):
        seed = job[0]
        o["runs"] += res["n_faults"]
        for k, v in res["kinds"].items():
            ctx.distribution.setdefault("fault", {})
            ctx.distribution["fault"][k] = ctx.distribution["fault"].get(k, 0) + v
        ctx.hist("victim", res["victim"])
        ctx.hist("bystanders", f"tls={job[2]} quic={job[3]}")
        ctx.evaluations += res["n_faults"]
        for k in range(res["n_faults"]):
            ctx.distinct.add((seed, k).__hash__().to_bytes(8, "big", signed=True))
        for kind, what, sig, blob in res["fails"]:
            o["violations"] += 1
            short = sig.split(" ")[0]
            ctx.fail(f"C03:{{{kind}}}:{short.split(':')[0] + (':' + short.split(':', 1)[1] if short.startswith('crash') else '')}",
                     f"fault '{what}' on the victim flow: {sig}",
                     {"seed": seed, "scenario": res["desc"], "victim_kind": res["victim"], "fault": what, **blob},
                     expected="run ends normally, bystanders unchanged, victim ⊑ prefix", actual=sig,
                     how="bin/check C03 --replay <this file>")
        if not res["fails"]:
            ctx.sample({"scenario": res["desc"], "victim": res["victim"], "faults": res["kinds"]}, cap=3)


def run(ctx):
    ctx.rule = ("a victim connection (TLS of any version/suite, or QUIC v1 with random features) + 1–4 healthy TLS and QUIC bystander connections interleaved in one capture; every "
                "single fault from {delete packet k, cut after k, start at k, flip a bit / overwrite / shorten payload k, "
                "remove every non-empty subset of the victim's key-log lines, random secrets, unknown suite id in "
                "ServerHello, plain HTTP on 443, 1–30 arbitrary UDP datagrams of length 1..1500 (long/short-header-like "
                "first bytes, QUIC versions) inserted anywhere}; at every victim packet position for the first captures "
                "(exhaustive), at 4 random positions for the rest. One evaluation = one faulted run; non-trivial = the "
                "fault changes the tool's input; distinct = (capture seed, fault index).")
    ctx.assumptions = ["bystander equality is judged on the strictly decoded output packets of that connection (timestamps, "
                       "addresses, flags, seq/ack, payload)"]
    import session_corr
    import c02_model
    import m1_mainloop
    quic = ["q2a_dissect", "q2b_session"]
    ctx.gen_tables.update(m1_mainloop.regen())
    quic = quic + ["quic_pipeline_corr"]
    import translate                 # decision-logic functions re-translated from the source and proved equal to the model
    _tm, _tt = translate.wire(ctx, "C03")
    import oncode_thms               # the property theorems stated on the regenerated definitions themselves (Props/OnCode)
    _om, _ot = oncode_thms.wire("C03")
    _tm, _tt = _tm + _om, _tt + _ot
    import export_inputs_thms, export_inputs2_thms, export_faults_thms, c02_loss_thms          # whole-program form: bystander conversations unaffected (Props/ExportInputs)
    ctx.prove(["TLX.Props.C03", "TLX.Props.C04", "TLX.Props.C01Pipeline"] + c02_model.modules(quic) + _tm + export_inputs_thms.MODULES + export_inputs2_thms.MODULES + export_faults_thms.MODULES + c02_loss_thms.MODULES)
    ctx.require_theorems(export_inputs_thms.THEOREMS_C03 + export_inputs2_thms.THEOREMS_NAT + export_inputs2_thms.THEOREMS_C03 + export_faults_thms.THEOREMS + c02_loss_thms.THEOREMS)
    import file_corr
    file_corr.correspond(ctx, ctx.n(12, 200))     # ties the whole-program model (the theorems' subject) file to file
    ctx.require_theorems(_tt)
    ctx.require_theorems(session_corr.THEOREMS_C03 + [t for t in c02_model.theorems(quic) if t.rsplit(".", 1)[1] in (
        "dissect_total", "dissect_loop_total", "dissect_progress", "session_total", "session_total_run",
        "wrong_keys_export_nothing", "wrong_keys_export_nothing_fresh", "session_total_counterexample")] + [
        "TLX.Props.C01Pipeline.connOut_never_raises", "TLX.Props.C02Pipeline.quic_conn_never_raises",
        "TLX.Props.C02Pipeline.quic_machine_never_raises", "TLX.Props.C02Pipeline.quic_run_never_raises"] + [
        "TLX.Props.C04." + t for t in ("tls_solo_equals_merged", "quic_solo_equals_merged", "tls_quic_independent",
                                       "unrelated_ignored", "empty_cid_never_chosen", "short_never_creates")])
    session_corr.correspond(ctx)      # ties TLX.Session (the model the theorems are about) to the real Session
    c02_model.run_model(ctx, quic)    # ties the QUIC dissector and packet-level session models to the real code
    m1_mainloop.correspond(ctx)       # ties the main-loop model (routing: the bystander clause) to the real code
    explore(ctx)

    def search(c):
        session_corr.search(c)
        if not c.failures:
            explore(c, scale=2)
    return ctx.finish(search=search)


def replay(ctx, obj):
    c = obj["case"]
    r = e2e.replay_run(c)
    print("REPLAY tool:", r.signature(), "| fault:", c.get("fault"))
    bad = r.crashed
    if not bad and "baseline" in c:
        b = e2e.replay_run(c["baseline"])
        try:
            pk, bp = wire.read_output(r.out), wire.read_output(b.out)
            for i, e in enumerate(c["endpoints"]):
                args = (bytes.fromhex(e["cip"]), e["cport"], bytes.fromhex(e["sip"]), e["proto"])
                if i >= 1 and e2e.flow_packets(pk, *args) != e2e.flow_packets(bp, *args):
                    print("REPLAY-FAIL bystander", i, "changed")
                    bad = True
            if c.get("kind") in INFO_REMOVING:
                e = c["endpoints"][0]
                rows = e2e.flow_packets(pk, bytes.fromhex(e["cip"]), e["cport"], bytes.fromhex(e["sip"]), e["proto"])
                for di, from_server in enumerate((False, True)):
                    mine = [row[10] for row in rows if row[10] and ((row[3], row[4]) != (bytes.fromhex(e["cip"]), e["cport"])) == from_server]
                    t = c["truth_victim"][di]
                    ok = (b"".join(mine) == bytes.fromhex(t)[:len(b"".join(mine))]) if isinstance(t, str) else \
                        ([x.hex() for x in mine] == t[:len(mine)])
                    if not ok:
                        print("REPLAY-FAIL victim direction", di, "is not a prefix of its plaintext")
                        bad = True
        except wire.FrameError as ex:
            print("REPLAY-FAIL", ex)
            bad = True
    print("REPLAY", "fails" if bad else "passes")
    return 1 if bad else 0
