"""C03 — an undecryptable or damaged flow never aborts the run or disturbs other flows.

oracle (fault enumeration on the real tool): a victim flow + healthy bystanders; every single fault of the property's
list is applied to the victim; required: the run ends normally, every bystander's exported packets are identical to
the fault-free run, and for information-removing faults the victim contributes at most a prefix of its plaintext.
"""
import struct

import e2e
import fw
import gen_tls
import tool
import wire

THEOREMS = []
INFO_REMOVING = {"delete", "cut-after", "cut-before", "drop-keys", "unknown-suite", "http-on-443", "udp-noise",
                 "no-keys"}


def conv_fingerprint(out, conn):
    """everything exported for one connection: the packets of its conversation, in order"""
    pkts = wire.read_output(out)
    mine = [(us, p) for us, p in pkts if p["proto"] == 6 and
            {(p["src"], p["sport"]), (p["dst"], p["dport"])} >= {(conn.cip, conn.cport)} and
            conn.sip in (p["src"], p["dst"])]
    return [(us, p["src"], p["sport"], p["dst"], p["dport"], p["flags"], p["seq"], p["ack"], bytes(p["payload"]))
            for us, p in mine]


def victim_streams(out, conn):
    try:
        _, convs, _ = e2e.decode(out)
    except wire.FrameError as e:
        return None, f"bad-frame:{e}"
    c = e2e.find_conv(convs, conn)
    if c is None:
        return (b"", b""), None
    return (c["c2s"], c["s2c"]), None


def make_faults(sc, rng, exhaustive):
    """→ list of (kind, description, items, keylog_lines). Victim is connection 0."""
    faults = []
    items, owners = sc.items, sc.owners
    vic = [j for j, (ci, _) in enumerate(owners) if ci == 0]
    conn = sc.parts[0][1]
    kl = sc.keylog
    vkl = [j for j, o in enumerate(sc.keylog_owner) if o == 0]

    def rebuilt(j, payload):
        ci, k = owners[j]
        t, f, d, seq, _ = conn.pkts[k]
        return ("pkt", items[j][1], conn.frame(d, seq, payload))

    pos = vic if exhaustive else rng.sample(vic, min(len(vic), 4))
    for j in pos:
        faults.append(("delete", f"delete packet {j}", items[:j] + items[j + 1:], kl))
        faults.append(("cut-after", f"victim flow ends after packet {j} (capture ends mid-connection)",
                       [it for q, it in enumerate(items) if q <= j or owners[q][0] != 0], kl))
        faults.append(("cut-before", f"victim flow starts at packet {j} (capture starts mid-connection)",
                       [it for q, it in enumerate(items) if q >= j or owners[q][0] != 0], kl))
        payload = conn.pkts[owners[j][1]][4]
        if payload:
            b = rng.randrange(len(payload) * 8)
            flipped = bytearray(payload)
            flipped[b // 8] ^= 1 << (b % 8)
            faults.append(("bitflip", f"flip bit {b} of packet {j}", items[:j] + [rebuilt(j, bytes(flipped))] + items[j + 1:], kl))
            faults.append(("overwrite", f"overwrite payload of packet {j}",
                           items[:j] + [rebuilt(j, rng.randbytes(len(payload)))] + items[j + 1:], kl))
            for cutlen in {0, 1, 5, len(payload) // 2, len(payload) - 1} - {len(payload)}:
                if cutlen >= 0:
                    faults.append(("shorten", f"shorten packet {j} to {cutlen} bytes",
                                   items[:j] + [rebuilt(j, payload[:cutlen])] + items[j + 1:], kl))
    # key-log faults
    subsets = range(1, 1 << len(vkl)) if len(vkl) <= 4 else [rng.getrandbits(len(vkl)) | 1 for _ in range(4)]
    for m in subsets:
        drop = {vkl[b] for b in range(len(vkl)) if m >> b & 1}
        faults.append(("drop-keys" if len(drop) < len(vkl) else "no-keys", f"remove key-log lines {sorted(drop)}", items,
                       [l for j, l in enumerate(kl) if j not in drop]))
    wrong = []
    for j, l in enumerate(kl):
        if j in vkl:
            lab, cr, sec = l.split(" ")
            wrong.append(f"{lab} {cr} {rng.randbytes(len(sec) // 2).hex()}")
        else:
            wrong.append(l)
    faults.append(("wrong-keys", "victim secrets replaced by random ones", items, wrong))
    # unknown suite id in ServerHello: rewrite the first server flight
    for j in vic:
        k = owners[j][1]
        t, f, d, seq, payload = conn.pkts[k]
        if d == 1 and payload[:1] == b"\x16" and payload[5:6] == b"\x02" and len(payload) > 5 + 4 + 2 + 32:
            sid_len = payload[5 + 4 + 2 + 32]
            off = 5 + 4 + 2 + 32 + 1 + sid_len
            if off + 2 <= len(payload):
                p2 = payload[:off] + b"\x7f\x7f" + payload[off + 2:]
                faults.append(("unknown-suite", "unknown cipher-suite id in ServerHello",
                               items[:j] + [rebuilt(j, p2)] + items[j + 1:], kl))
            break
    return faults


def extra_traffic(rng, t0):
    """plain HTTP on 443 and arbitrary UDP payloads (foreign traffic added to the capture)"""
    out = []
    cip, sip = bytes([10, 9, 9, 9]), bytes([192, 168, 9, 9])
    seq = 7000
    for i, data in enumerate([b"GET / HTTP/1.1\r\nHost: x\r\n\r\n", b"HTTP/1.1 200 OK\r\nContent-Length: 5\r\n\r\nhello",
                              rng.randbytes(rng.randrange(1, 300))]):
        d = i % 2
        f = wire.tcp_frame(gen_tls.CMAC, gen_tls.SMAC, cip if d == 0 else sip, sip if d == 0 else cip,
                           51000 if d == 0 else 443, 443 if d == 0 else 51000, seq, 1, 0x18, data)
        out.append(("pkt", t0 + 10 + i, f))
    return out


def udp_noise(rng, t0, n, firsts=None):
    out = []
    for i in range(n):
        ln = rng.choice([1, 2, 3, 5, 6, 7, 20, 21, 22, 50, 1200, 1500]) if rng.random() < 0.7 else rng.randrange(1, 1501)
        data = bytearray(rng.randbytes(ln))
        if firsts is not None:
            data[0] = firsts[i % len(firsts)]
        elif rng.random() < 0.6:
            data[0] = rng.choice([0xC0, 0xC3, 0xD0, 0xE0, 0xF0, 0x40, 0x44, 0x5F, 0x7F, 0x80, 0x00, 0x16, 0xFF])
        if rng.random() < 0.4 and len(data) >= 5:
            data[1:5] = rng.choice([b"\0\0\0\x01", b"\0\0\0\0", b"\x6b\x33\x43\xcf", b"\xff\0\0\x1d"])
        dport = rng.choice([443, 443, 44330, 53, 4433, rng.randrange(1, 65536)])
        f = wire.udp_frame(gen_tls.CMAC, gen_tls.SMAC, bytes([10, 8, 8, rng.randrange(1, 250)]), bytes([192, 168, 8, 8]),
                           rng.randrange(1024, 65536), dport, bytes(data))
        out.append(("pkt", t0 + 100 + i, f))
    return out


def one(job):
    import random
    import logging
    logging.disable(logging.CRITICAL)
    seed, combos, exhaustive = job
    rng = random.Random(seed)
    short_app = [[(0, rng.randbytes(rng.randrange(1, 80))), (1, rng.randbytes(rng.randrange(1, 200))),
                  (0, rng.randbytes(rng.randrange(0, 50))), (1, rng.randbytes(rng.randrange(1, 90)))] for _ in combos]
    sc = e2e.Scenario(rng, combos, app=short_app)
    base = tool.run(sc.capture(), sc.keylog_text())
    res = {"desc": sc.describe(), "n_faults": 0, "kinds": {}, "fails": []}
    if base.crashed:
        res["fails"].append(("baseline", "fault-free run", base.signature(), sc.replay_blob()))
        return res
    conns = [c for _, c, _ in sc.parts]
    try:
        base_fp = [conv_fingerprint(base.out, c) for c in conns]
    except wire.FrameError as e:
        res["fails"].append(("baseline", "fault-free run", f"bad-frame:{e}", sc.replay_blob()))
        return res
    truth = sc.truths[0]
    faults = make_faults(sc, rng, exhaustive)
    t_end = sc.items[-1][1]
    faults.append(("http-on-443", "plain HTTP on port 443 added", sc.items + extra_traffic(rng, t_end), sc.keylog))
    for _ in range(3 if exhaustive else 1):
        noise = udp_noise(rng, t_end, rng.randrange(1, 30))
        pos = rng.randrange(len(sc.items) + 1)
        faults.append(("udp-noise", f"{len(noise)} arbitrary UDP datagrams inserted at {pos}",
                       sc.items[:pos] + noise + sc.items[pos:], sc.keylog))
    for kind, what, items, kl in faults:
        res["n_faults"] += 1
        res["kinds"][kind] = res["kinds"].get(kind, 0) + 1
        cap = wire.pcapng(items)
        kls = "\n".join(kl) + "\n"
        r = tool.run(cap, kls)
        blob = {"capture_hex": cap.hex(), "keylog": kls, "argv": [], "fault": what, "kind": kind,
                "endpoints": [{"cip": c.cip.hex(), "cport": c.cport, "sip": c.sip.hex(), "sport": c.sport} for c in conns],
                "truth_victim": {"c2s": truth[0].hex(), "s2c": truth[1].hex()},
                "bystander_fp": [[list(map(lambda x: x.hex() if isinstance(x, bytes) else x, row)) for row in fp] for fp in base_fp[1:]]}
        if r.crashed:
            res["fails"].append((kind, what, r.signature(), blob))
            continue
        try:
            for i, c in enumerate(conns[1:], 1):
                if conv_fingerprint(r.out, c) != base_fp[i]:
                    res["fails"].append((kind, what, f"bystander-changed:{i}", blob))
                    break
            else:
                if kind in INFO_REMOVING:
                    (c2s, s2c), err = victim_streams(r.out, conns[0])
                    if err:
                        res["fails"].append((kind, what, err, blob))
                    elif not (truth[0].startswith(c2s) and truth[1].startswith(s2c)):
                        res["fails"].append((kind, what, "victim-not-prefix", blob))
        except wire.FrameError as e:
            res["fails"].append((kind, what, f"bad-frame:{e}", blob))
    return res


def explore(ctx, scale=1):
    rng = ctx.rng
    n = ctx.n(10, 400) * scale
    jobs = []
    reps = e2e.class_representatives(rng)
    for i in range(n):
        victim = reps[i % len(reps)] if i < len(reps) and ctx.thorough() else e2e.random_combo(rng)
        bys = [e2e.random_combo(rng) for _ in range(rng.randrange(1, 3))]
        jobs.append((rng.getrandbits(48), [victim] + bys, i < ctx.n(3, 60)))
    results = tool.pmap(one, jobs) if ctx.thorough() else tool.pmap(one, jobs, procs=8)
    o = ctx.oracle.setdefault("fault-enumeration", {"runs": 0, "violations": 0})
    for (seed, combos, exh), res in zip(jobs, results):
        o["runs"] += res["n_faults"]
        for k, v in res["kinds"].items():
            ctx.distribution.setdefault("fault", {})
            ctx.distribution["fault"][k] = ctx.distribution["fault"].get(k, 0) + v
        ctx.hist("victim_version", res["desc"][0]["version"])
        ctx.hist("bystanders", len(combos) - 1)
        ctx.evaluations += res["n_faults"]
        for k in range(res["n_faults"]):
            ctx.distinct.add((seed, k).__hash__().to_bytes(8, "big", signed=True))
        for kind, what, sig, blob in res["fails"]:
            o["violations"] += 1
            short = sig.split(" ")[0]
            ctx.fail(f"C03:{{{kind}}}:{short.split(':')[0] + (':' + short.split(':', 1)[1] if short.startswith('crash') else '')}",
                     f"fault '{what}' on the victim flow: {sig}",
                     {"seed": seed, "victim": res["desc"][0], "fault": what, **blob},
                     expected="run ends normally, bystanders unchanged, victim ⊑ prefix", actual=sig,
                     how="bin/check C03 --replay <this file>")
        if not res["fails"]:
            ctx.sample({"victim": res["desc"][0]["version"] + "/" + res["desc"][0]["name"], "faults": res["kinds"]}, cap=3)


def run(ctx):
    ctx.rule = ("a victim TLS connection (any version/suite) + 1–2 healthy bystander connections in one capture; every "
                "single fault from {delete packet k, cut after k, start at k, flip a bit / overwrite / shorten payload k, "
                "remove every non-empty subset of the victim's key-log lines, random secrets, unknown suite id in "
                "ServerHello, plain HTTP on 443, 1–30 arbitrary UDP datagrams of length 1..1500 (long/short-header-like "
                "first bytes, QUIC versions) inserted anywhere}; at every victim packet position for the first captures "
                "(exhaustive), at 4 random positions for the rest. One evaluation = one faulted run; non-trivial = the "
                "fault changes the tool's input; distinct = (capture seed, fault index).")
    ctx.assumptions = ["bystander equality is judged on the strictly decoded output packets of that connection (timestamps, "
                       "addresses, flags, seq/ack, payload)"]
    explore(ctx)
    return ctx.finish(search=lambda c: explore(c, scale=2))


def replay(ctx, obj):
    c = obj["case"]
    r = e2e.replay_run(c)
    print("REPLAY tool:", r.signature(), "| fault:", c.get("fault"))
    bad = r.crashed
    if not bad:
        class EP:
            pass
        eps = []
        for e in c["endpoints"]:
            ep = EP()
            ep.cip, ep.cport, ep.sip, ep.sport = bytes.fromhex(e["cip"]), e["cport"], bytes.fromhex(e["sip"]), e["sport"]
            eps.append(ep)
        for i, ep in enumerate(eps[1:]):
            fp = [list(map(lambda x: x.hex() if isinstance(x, bytes) else x, row)) for row in conv_fingerprint(r.out, ep)]
            if fp != c["bystander_fp"][i]:
                print("REPLAY-FAIL bystander", i + 1, "changed")
                bad = True
        if c.get("kind") in INFO_REMOVING:
            (c2s, s2c), err = victim_streams(r.out, eps[0])
            t = c["truth_victim"]
            if err or not (bytes.fromhex(t["c2s"]).startswith(c2s) and bytes.fromhex(t["s2c"]).startswith(s2c)):
                print("REPLAY-FAIL victim stream is not a prefix of its plaintext", err)
                bad = True
    print("REPLAY", "fails" if bad else "passes")
    return 1 if bad else 0
