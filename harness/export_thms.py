"""End-to-end theorems about the whole program as one Lean function (`TLX.Export.exportFile`, lean/TLX/Props/Export.lean).
The function itself is tied to the real tool by harness/file_corr.py (output files compared byte for byte)."""
MODULES = ["TLX.Props.Export", "TLX.Props.C01File", "TLX.Props.C09Found", "TLX.Props.C01File2"]
P = "TLX.Props.Export."
THEOREMS = [P + n for n in (
    "framesFrom_error_iff", "exportFrom_stages", "goodFrame_of", "export_wellformed",
    "export_ignores_prior_state", "export_is_function",
    "export_badOptions_iff", "export_abort_ingest_iff", "export_abort_write_iff", "export_total", "abort_kinds",
    "export_demux_tls", "export_demux_frames")] + ["TLX.Props.C01File." + n for n in (
    # C01 from the bytes of the capture file and the key-log text to the bytes of the output file
    "ingest_of_capture", "session_of_items", "file_of_frames", "export_of_session",
    "tls12_file_exact", "tls13_file_exact", "exact_frames_parse",
    "dissect_seg", "capOk_of_described", "flow_filter", "dirSegs_flow", "roles_of_flow", "capture_read",
    "described_session", "tls12_capture_exact", "tls13_capture_exact", "Ex.tls12_file_instance")] + [
    "TLX.Props.C09Found." + n for n in (
        "getKey_line", "parse_fileText", "keylog_line_found", "findSessionSecrets_fileText", "found12_fileText",
        "found13_fileText", "srcHexClass_any")] + ["TLX.Props.C01File2." + n for n in (
    # no abort alternative; the key log as file text
    "reassemble_total", "connOut_fits", "recordsFit_of_total", "export_of_session_file", "exported_lt", "capInfo_ts",
    "tls12_capture_exact_file", "tls13_capture_exact_file", "tls12_capture_exact_text", "tls13_capture_exact_text",
    "views_of_ignored", "othersFit_of_ignored", "Ex.tls12_text_instance")]
# lemmas the theorems rest on (audited with them: same import closure)
LEMMAS = ["TLX.Lemmas.DissectAddr.dissect_addr_lengths", "TLX.Lemmas.Export.itemsWith_good",
          "TLX.Lemmas.Export.runItems_good", "TLX.Lemmas.Export.framesFrom_wf"]
