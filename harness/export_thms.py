"""End-to-end theorems about the whole program as one Lean function (`TLX.Export.exportFile`, lean/TLX/Props/Export.lean).
The function itself is tied to the real tool by harness/file_corr.py (output files compared byte for byte)."""
MODULES = ["TLX.Props.Export"]
P = "TLX.Props.Export."
THEOREMS = [P + n for n in (
    "framesFrom_error_iff", "exportFrom_stages", "goodFrame_of", "export_wellformed",
    "export_ignores_prior_state", "export_is_function",
    "export_badOptions_iff", "export_abort_ingest_iff", "export_abort_write_iff", "export_total", "abort_kinds",
    "export_demux_tls", "export_demux_frames")]
# lemmas the theorems rest on (audited with them: same import closure)
LEMMAS = ["TLX.Lemmas.DissectAddr.dissect_addr_lengths", "TLX.Lemmas.Export.itemsWith_good",
          "TLX.Lemmas.Export.runItems_good", "TLX.Lemmas.Export.framesFrom_wf"]
