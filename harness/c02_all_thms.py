"""Theorems of lean/TLX/Props/C02AllConn.lean, C02AllRfc.lean, C02AllFile.lean, C02All.lean (+ instance in C02AllEx.lean):
ONE combined C02 theorem from capture file + key-log text to output file — `quic_capture_exact_all` /
`quic_capture_all_ranges`: optional Retry, one interleaved history with 0-RTT packets anywhere (exported for the tool's
Early suite — a predicate on the offer order, `EarlyAt` — missing otherwise), any 1-RTT history, other QUIC connections
separated on the capture, TLS and other traffic, hypotheses in RFC / file terms (`QuicCaptureAll`)."""
MODULES = ["TLX.Props.C02AllConn", "TLX.Props.C02AllRfc", "TLX.Props.C02AllFile", "TLX.Props.C02All", "TLX.Props.C02AllEx"]
_P = "TLX.Props.C02All."
THEOREMS = [_P + n for n in [
    "quic_capture_exact_all", "quic_capture_all_ranges", "session_of_all", "capture_session_gen", "retry_prefix",
    "quic_connection_exact_from", "quic_connection_exact_retry_any", "ptrace_prefix",
    "steps_quiet", "steps_hello", "chIns_complete", "ecs_hello", "ecs_keep", "ecs_of_early",
    "sync_zr", "sync_short", "ydg_of_rfc", "ydgs_of_rfc", "routes_of_rfc", "sync_afterRetry", "mix_of_rfc", "hsDgOk_of_rfc",
    "quicView3", "ownIn_append", "xHeader_wire", "retry_wire_header", "quicRun_y", "own_run_tail",
    "ownIn_noise", "ownIn_phaseA", "ownIn_phaseB", "mixItems3_mem", "oneItems3_mem", "evBase_of_described",
    "carriesX_of_described", "carries1_of_described", "among_others", "connIs_new", "expectedOutX_block",
    "no_abort_of_all_fit",
    "Ex.mixIns0", "Ex.insA0", "Ex.dgA", "Ex.early0", "Ex.ydg0", "Ex.ydgS", "Ex.ydgC", "Ex.mixDgs0", "Ex.described0",
    "Ex.send1_0", "Ex.routesB0", "Ex.distinct0", "Ex.othIn0", "Ex.sepOwn0", "Ex.sepOther0", "Ex.captureAll0", "Ex.block0",
    "Ex.quic_all_instance",
]]
