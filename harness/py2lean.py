"""A small Python→Lean 4 translator for the decision logic of TLExport (restricted subset, see `SUBSET`).

`translate(func, spec)` emits ONE Lean `def` (plus, for state-passing functions, one result `structure`) whose meaning
is the Python function's, under the runtime `lean/TLX/PyRt.lean`. Whatever is outside the subset raises
`Untranslatable(function, node, reason)` — the translator never guesses.

SPEC (a dict; everything the source does not say itself)
  name      Lean name of the definition
  params    [(python name, type)]   parameters — for a fragment also the locals that are live at its start
  places    [(python expression text, lean name, type, mode)]  attribute/subscript expressions that are treated as
            variables (`self.x`, `packet.sport`, `self.tab[KEY[p.t]]`): mode "r" = input only, "rw" = input and field
            of the returned state record (state passing). The spec author asserts that distinct places do not alias
            and that reading one cannot raise.
  consts    {python expression text: (lean term, type)}   enum members and other opaque constants
  ret       type of the returned value, "None" for procedures
  select    fragment of the body instead of the whole body:
              {"start": text}                 the statement whose source starts with `text` (unique in the function)
              {"start": text, "end": text2}   the statements from that one to the one starting with `text2`, same block
              {"if_test": text}               the test expression of the `if` statement starting with `text`
              {"within": text, …}             search only inside the compound statement starting with `text`
              {"lambda_in": text}             the body of the one lambda in the statement starting with `text`
  outs      [(local name, type)]   locals of a fragment that are results (fields of the returned record)
  actions   {call statement text: lean term}, action_type: calls with effects outside the model become entries of
            the trace field `acts : List action_type`
  raise_state  False: an exception discards the attribute writes (a constructor: the object is never seen) — the result
            is `Except Err St` instead of `Res St α`
  drop_calls   call statements the spec declares outside the model (`super().__init__(src_packet)`)
  drop_stmts   statements (by the start of their text) the spec declares outside the model: they only build a logging string
  log_effects  True: logging / print calls are not dropped: their arguments are evaluated for the exceptions they raise
  obj_methods  {(type, method): {lean, args, ret, raises}}: a method of an opaque object a local holds, as an external function
  split_loops  True: the round of a pure `for` fold becomes a definition of its own (`<name>.loop<k>`)
  instances    opaque types whose values are classes a local holds: calling such a local (`mac()`) is the value itself
  calls     {python function name: {lean, args, ret, raises}}   other translated functions this one calls
  fuel      {start of a `while` statement: python expression}   an upper bound of its rounds (see `PyRt.whileS`)
  externals [(lean name, lean type)]   functions outside the model (`cryptography`, dpkt …): leading parameters of the
            definition; `calls` entries name them in their `lean` text
  ctors     {class name: {type, fields: [(keyword, type)], consts, ignore}}   keyword-only constructor calls as records
  objects   parameter names that are objects only read/written through places (`return x, obj` returns `x`)
  exits     True: the value of the definition is how the fragment was left (`PyRt.Exit`: fall / cont / brk / ret)
  state     {type, param}: the attribute state is ONE record the spec declares elsewhere (a family of methods that call
            each other): places of mode "s" are its fields, the definition takes it as its last parameter and returns it
  always_res  True: the result is `PyRt.Res state α` even if nothing in the body can raise (uniform for callers)
  tparams   type parameters of the definition (`{δ : Type}`): opaque types its spec types mention
  state_calls  {python callee text: entry}: calls that pass the state on (statement, or whole right-hand side):
              kind "shared": another definition over the same state record (lean, exts, args, rplaces, ret)
              kind "method": a method of an object held in an `Option` place (recv, lean, args, ret): AttributeError on None,
                             the external `lean : X → args → PyRt.Res X ret` returns the object afterwards
              kind "ext":    a method outside the model that reads / writes the listed places (lean, args, reads, writes, ret)
  maybe_attrs  places of type `Option T` that stand for attributes which may not exist yet: a read is AttributeError on `none`
  pairdicts {place: default literal}: a dict keyed by a bool that is only read through `.get(k, default)`: the pair of
            its values at False / True (absent = default)
  list_truth   True: `if xs:` on a list is `len(xs) != 0`
  setattr_names  {name expression: attribute}: `setattr(obj, <name>, v)` with a literal name or one of these is `obj.<attribute> = v`
  absent_or_none  places `ns.a : Option T` whose `none` stands for "attribute absent, or None": `if 'a' not in ns or ns.a is None: …; return`
               narrows the place to the value in what follows
  stmt_rewrites  {statement text: python statements}: a call into a library outside the subset (dpkt), stated as assignments from
               `calls` externals — what the library does is then a parameter of the theorem, the glue around it is translated
  raise_as     {exception expression: PyRt.Err constructor}: `raise X`
  externals named `py_int` / `str_lower`: `int(s)` of a str (`Option Int`, none = ValueError; also `[int(x) for x in strs]`) and `s.lower()`
  `[x for x in xs if c]` (c cannot raise) is `List.filter`
types: Int, Nat (an int known to be ≥ 0), Bool, Bytes, List T, Set T (a Python set; only `in` and `|` under `in`),
       Option T, Dict K V, anything else = an opaque type with decidable equality (only == != and assignment).
"""
import ast
import hashlib
import textwrap

SUBSET = """statements: assignment / augmented assignment to local names and to places, if/elif/else, return, match on
constants (value patterns, `|`, `_`), pass, continue (fragments with exits), docstrings, logging.* and print calls
(dropped), action calls named by the spec, `<place>.append(x)` on a list place, `for i in range(a[, b])` whose body has no return/break/continue (a fold).
expressions: int/bool/bytes/None literals, names, + - * // % << >> & | ^ ~, ** with an exponent ≥ 0, unary - and not, comparisons incl. chained,
and/or on bools, in / not in on lists, sets, dicts and `d.keys()`, len(), x[i] and x[a:b] on bytes, d[k], int(x),
int("..", base) and bytes.fromhex("..") on literals, int.from_bytes(x, "big"[, signed=False]), int.to_bytes / n.to_bytes
(k, "big"), bytes concatenation, conditional expressions, `is None` / `is not None` / `is False` / `is True`."""

KEYWORDS = {"prefix", "end", "at", "from", "then", "else", "open", "instance", "in", "do", "fun", "let", "have", "show",
            "match", "with", "if", "def", "theorem", "example", "import", "namespace", "section", "variable", "universe",
            "structure", "inductive", "class", "where", "deriving", "macro", "syntax", "infix", "infixl", "infixr",
            "postfix", "notation", "local", "private", "protected", "mutual", "partial", "unsafe", "return", "for",
            "by", "calc", "Type", "Prop", "Sort", "set_option", "attribute", "export", "extends", "using", "seal",
            "suffices", "obtain", "mut", "try", "catch", "finally", "break", "continue", "unless", "exists", "forall"}


# identifiers the emitted Lean text uses: a Python local of that name would capture them
EMITTED = {"some", "none", "true", "false", "decide", "not", "List", "Int", "Nat", "Bool", "Bytes", "TLX", "PyRt", "Option",
           "Except", "Unit", "id", "min", "max", "acts"}


def lname_ok(n):
    return n not in EMITTED and not n.startswith("py_")


class Untranslatable(Exception):
    def __init__(self, function, node, reason):
        self.function, self.node, self.reason = function, node, reason
        line = getattr(node, "lineno", None)
        try:
            src = ast.unparse(node) if isinstance(node, ast.AST) else str(node)
        except Exception:
            src = repr(node)
        src = src.splitlines()[0][:100] if src else ""
        super().__init__(f"{function}: line {line}: {reason}: `{src}`")


class _NotSimple(Exception):
    pass


def lname(n):
    return f"«{n}»" if n in KEYWORDS else n


def ind(s, n=2):
    return "\n".join((" " * n + l) if l else l for l in s.split("\n"))


class V:
    """a translated expression or variable: Lean term, type, known non-negative (ints)"""
    __slots__ = ("term", "typ", "nn", "lit", "parts")

    def __init__(self, term, typ, nn=False, lit=None, parts=None):
        self.term, self.typ, self.nn, self.lit, self.parts = term, typ, nn or typ == "Nat", lit, parts

    def __repr__(self):
        return f"V({self.term}:{self.typ})"


def is_int(t):
    return t in ("Int", "Nat")


def elem_type(t):
    for p in ("List ", "Set ", "Option "):
        if t.startswith(p):
            return unparen(t[len(p):])
    return None


TYPE_ALIAS = {"Str": "List Nat"}           # spec types that are names for Lean types (a spec may add its own: `types`)


class RawType(str):
    """a type given as Lean text (the type of an external function)"""


def ty(t):
    """Lean spelling of a spec type"""
    if isinstance(t, RawType):
        return str(t)
    if t in TYPE_ALIAS:
        return TYPE_ALIAS[t]
    if t == "Acc":
        return "PyRt.Acc"
    if t.startswith("Fmt:"):
        return "List PyRt.Fld"
    if t.startswith("Tup:"):
        return "List Bytes"
    if t.startswith("Set "):
        return "List " + ty_arg(t[4:])
    if t.startswith("List "):
        return "List " + ty_arg(t[5:])
    if t.startswith("Option "):
        return "Option " + ty_arg(t[7:])
    if t.startswith("Dict "):
        k, v = split_dict(t)
        return f"PyRt.Dict {ty_arg(k)} {ty_arg(v)}"
    if t.startswith("Table "):
        k, v = split_table(t)
        return f"List ({ty_arg(k)} × {ty_arg(v)})"
    if "|" in t:
        a, b = t.split("|")
        return f"Sum {ty_arg(a)} {ty_arg(b)}"
    if t == "None":
        return "Unit"
    return t


def split_prod(t):
    """the components of `A × B × C` (top level)"""
    parts, depth, cur = [], 0, ""
    for ch in t:
        depth += (ch == "(") - (ch == ")")
        if ch == "×" and depth == 0:
            parts.append(cur.strip())
            cur = ""
        else:
            cur += ch
    return parts + [cur.strip()]


def split_table(t):
    """`Table K; V`: a dict display as an association list in display order"""
    k, v = t[len("Table "):].split(";", 1)
    return k.strip(), v.strip()


def unparen(t):
    """`t` without ONE pair of parentheses around the whole of it"""
    t = t.strip()
    if t.startswith("("):
        depth = 0
        for i, ch in enumerate(t):
            depth += (ch == "(") - (ch == ")")
            if depth == 0:
                return t[1:-1].strip() if i == len(t) - 1 else t
    return t


def ty_arg(t):
    s = ty(unparen(t))
    return f"({s})" if " " in s else s


def split_dict(t):
    parts = t.split()
    assert parts[0] == "Dict" and len(parts) == 3, t
    return parts[1], parts[2]


# ----------------------------------------------------------------------------------------------- frames (exits)
class Frame:
    def fall(self, env): raise NotImplementedError
    def ret(self, val, env, node): raise NotImplementedError
    def raise_(self, errterm, env): raise NotImplementedError
    def cont(self, env, node): raise NotImplementedError
    def brk(self, env, node): raise NotImplementedError


class Translator:
    def __init__(self, fn_name, spec):
        self.fn = fn_name
        self.spec = spec
        self.name = spec["name"]
        self.places = {p[0]: p for p in spec.get("places", [])}
        self.consts = dict(spec.get("consts", {}))
        self.actions = dict(spec.get("actions", {}))
        self.ret = spec.get("ret", "None")
        self.outs = list(spec.get("outs", []))
        self.exits = bool(spec.get("exits", False))
        self.tmp = 0
        self.hoists = None
        self.raises = False
        self.joins = {}
        self.init_used = set()
        self.synthetic = set()
        self.owned = set()
        self.seen_types = {}
        self.state = spec.get("state")
        self.state_calls = dict(spec.get("state_calls", {}))
        self.maybe_attrs = set(spec.get("maybe_attrs", ()))
        self.pairdicts = dict(spec.get("pairdicts", {}))
        TYPE_ALIAS.clear()
        TYPE_ALIAS.update({"Str": "List Nat"})
        TYPE_ALIAS.update(spec.get("types", {}))

    # ------------------------------------------------------------------------------------------- helpers
    def bad(self, node, reason):
        raise Untranslatable(self.fn, node, reason)

    def fresh(self, stem):
        self.tmp += 1
        return f"{stem}_{self.tmp}"

    def key(self, node):
        return ast.unparse(node)

    def to_int(self, v):
        if v.typ == "Int":
            return v.term
        if v.typ == "Nat":
            return f"({v.lit} : Int)" if v.lit is not None else f"(Int.ofNat {v.term})"
        return None

    def to_nat(self, v):
        """a Nat term for an int known to be ≥ 0"""
        if v.typ == "Nat":
            return v.term
        if v.typ == "Int" and v.nn:
            return f"(Int.toNat {v.term})"
        return None

    def coerce(self, v, typ, node):
        """the value as an element of `typ` (assignment to a place, return, join)"""
        if v.typ == typ:
            return v.term
        if typ == "Int" and v.typ == "Nat":
            return self.to_int(v)
        if typ == "Nat" and v.typ == "Int" and v.nn:
            return self.to_nat(v)
        if typ.startswith("Option "):
            inner = elem_type(typ)
            if v.typ == "NoneType":
                return f"(none : {ty(typ)})"
            if v.typ.startswith("Option "):
                self.bad(node, f"type {v.typ} where {typ} is expected")
            return f"(some {self.coerce(v, inner, node)})"
        for src, fmt in self.spec.get("unions", {}).get(typ, ()):
            if v.typ == src:
                return "(" + fmt.format(v.term) + ")"
        if v.typ == "EmptyDict" and typ.startswith("Table "):
            return f"([] : {ty(typ)})"
        if "|" in typ:
            a, b = typ.split("|")
            if is_int(v.typ) and a == "Int":
                return f"(Sum.inl {self.to_int(v)} : {ty(typ)})"
            if v.typ == a:
                return f"(Sum.inl {v.term} : {ty(typ)})"
            if v.typ == b:
                return f"(Sum.inr {v.term} : {ty(typ)})"
        if v.typ == "EmptyList" and typ.startswith("List "):
            return f"([] : {ty(typ)})"
        if ("×" in typ and "×" in v.typ and not typ.startswith(("List ", "Option ", "Table ", "Set ", "Dict "))
                and not v.typ.startswith(("List ", "Option ", "Table ", "Set ", "Dict "))):
            want, have = split_prod(typ), split_prod(v.typ)
            if len(want) == len(have):
                # a tuple display (or value) whose components are coerced one by one
                parts = []
                for j, (w, h) in enumerate(zip(want, have)):
                    proj = v.term + ".2" * j + (".1" if j < len(have) - 1 else "")
                    comp = v.parts[j] if v.parts is not None and len(v.parts) == len(have) else V(f"({proj})", unparen(h))
                    parts.append(self.coerce(comp, unparen(w), node))
                return "(" + ", ".join(parts) + ")"
        if v.typ == "EmptyDict" and typ in self.spec.get("empty_dict", {}):
            return self.spec["empty_dict"][typ]
        self.bad(node, f"type {v.typ} where {typ} is expected")

    # ------------------------------------------------------------------------------------------- expressions
    def expr(self, node, env):
        k = self.key(node)
        if k in self.consts:
            term, typ = self.consts[k][:2]
            if "{st}" in term and "__st" in env:
                term = term.replace("{st}", env["__st"].term)        # a test the spec maps to the state record
            if len(self.consts[k]) == 3 and self.consts[k][2] == "raises":
                return V(self.hoist(term, typ, node), typ)            # an external the spec names for this expression; it may raise
            return V(term, typ)
        if k in self.places:
            if k in self.pairdicts:
                self.bad(node, "a bool-keyed dict place read other than through `.get(key, default)`")
            return self.read_place(k, env, node)
        m = getattr(self, "e_" + type(node).__name__, None)
        if m is None:
            self.bad(node, f"expression form {type(node).__name__} is outside the subset")
        return m(node, env)

    def read_place(self, k, env, node, raw=False):
        _, ln, typ, mode = self.places[k]
        if mode == "s":
            v = V(f"{env['__st'].term}.{lname(ln)}", typ)
        else:
            v = env.get(("place", k))
            if v is None:
                self.bad(node, "place is not bound here")
            if getattr(v, "initial", False) or v.term == self.places[k][1]:
                self.init_used.add(k)
        if k in self.spec.get("maybe_keys", ()) and not raw:
            # `d["name"]` of a dict whose entries are the spec's Option places: KeyError on `none`
            inner = elem_type(typ)
            return V(self.hoist(f"PyRt.someE PyRt.Err.key {v.term}", inner, node), inner)
        if k in self.maybe_attrs and not raw:
            if not typ.startswith("Option "):
                self.bad(node, "a maybe-attribute place whose type is not Option")
            inner = elem_type(typ)
            return V(self.hoist(f"PyRt.attrE {v.term}", inner, node), inner)
        return V(v.term, v.typ, v.nn)

    def e_Constant(self, node, env):
        c = node.value
        if isinstance(c, bool):
            return V("true" if c else "false", "Bool")
        if isinstance(c, int):
            if c >= 0:
                return V(f"({c} : Nat)", "Nat", True, lit=c)
            return V(f"({c} : Int)", "Int", False, lit=c)
        if isinstance(c, bytes):
            return V("([" + ", ".join(str(b) for b in c) + "] : Bytes)", "Bytes")
        if isinstance(c, str):
            return V("([" + ", ".join(str(ord(ch)) for ch in c) + "] : List Nat)", "Str", lit=c)   # the code points
        if c is None:
            return V("none", "NoneType")
        self.bad(node, f"literal of type {type(c).__name__} is outside the subset")

    def e_Name(self, node, env):
        v = env.get(node.id)
        if v is not None and node.id in self.spec.get("maybe_locals", {}):
            # a local that a loop may or may not have assigned: `none` = unbound (UnboundLocalError when read)
            t = self.spec["maybe_locals"][node.id]
            return V(self.hoist(f"PyRt.unboundE {v.term}", t, node), t)
        known = self.seen_types.get(node.id, self.spec.get("locals", {}).get(node.id))
        if (v is None and node.id in getattr(self, "assigned_anywhere", ()) and ("maybe", node.id) not in env
                and known is not None):
            # a local of this function that no statement on the path to here has assigned: UnboundLocalError
            t = known
            return V(self.hoist(f"(Except.error PyRt.Err.unbound : Except PyRt.Err {ty_arg(t)})", t, node), t)
        if v is None:
            self.bad(node, f"name `{node.id}` is not a parameter, a local assigned on every path to here, or a spec constant")
        return V(v.term, v.typ, v.nn, v.lit)

    def e_Attribute(self, node, env):
        if isinstance(node.value, ast.Name) and node.value.id in env:
            x = env[node.value.id]
            f = self.spec.get("attr_funcs", {}).get((x.typ, node.attr))
            g = self.spec.get("attr_guards", {}).get((x.typ, node.attr))
            if f is not None and g is not None:
                # an attribute only some classes of this object have: AttributeError where the spec's guard says it is absent
                return V(self.hoist(f"PyRt.guardE PyRt.Err.attr ({g} {x.term}) ({f[0]} {x.term})", f[1], node), f[1])
            if f is not None:
                return V(f"({f[0]} {x.term})", f[1])
        elif self.spec.get("attr_funcs") and not isinstance(node.value, ast.Name):
            x = self.expr(node.value, env)
            f = self.spec["attr_funcs"].get((x.typ, node.attr))
            if f is not None:
                return V(f"({f[0]} {x.term})", f[1])
        self.bad(node, "attribute read that the spec does not list as a place or constant")

    def e_Tuple(self, node, env):
        els = [self.expr(e, env) for e in node.elts]
        if len(els) < 2 or any(e.typ in ("NoneType", "EmptyDict", "EmptyList") for e in els):
            self.bad(node, "tuple display with fewer than two elements or an element of unknown type")
        return V("(" + ", ".join(e.term for e in els) + ")", " × ".join(e.typ if " " not in e.typ else f"({e.typ})" for e in els),
                 parts=els)

    def e_List(self, node, env):
        if not node.elts:
            return V("[]", "EmptyList")
        els = [self.expr(e, env) for e in node.elts]
        t = els[0].typ
        for e in els[1:]:
            t = self.join_type(t, e.typ, node)
        return V("[" + ", ".join(self.coerce(e, t, node) for e in els) + "]", f"List {t}" if " " not in t else f"List ({t})")

    def e_ListComp(self, node, env):
        """`[e for x in it]` (one generator, no condition, an element expression that cannot raise)"""
        g0 = node.generators[0] if len(node.generators) == 1 else None
        if (g0 is not None and len(g0.ifs) == 1 and not g0.is_async and isinstance(g0.target, ast.Name) and isinstance(node.elt, ast.Name)
                and node.elt.id == g0.target.id):
            # `[x for x in xs if c]` with a condition that cannot raise: the elements for which it holds, in order
            saved = self.hoists
            self.hoists = []
            try:
                lst, bound, hs = self.loop_iter(g0, env)
                if hs or self.hoists:
                    self.bad(node, "a list comprehension whose iterable may raise")
            finally:
                self.hoists = saved
            env2 = dict(env)
            for n, t, nn in bound:
                env2[n] = V(lname(n), t, nn)
            c = self.strict(lambda: self.expr(g0.ifs[0], env2))
            if c.typ != "Bool" or len(bound) != 1:
                self.bad(node, "list comprehension condition that is not a bool")
            et = ty(bound[0][1])
            return V(f"(List.filter (fun ({lname(bound[0][0])} : {et}) => {c.term}) {lst})", f"List {ty_arg(bound[0][1]) if ' ' in et else bound[0][1]}")
        if len(node.generators) != 1 or node.generators[0].ifs or node.generators[0].is_async:
            self.bad(node, "list comprehension with several generators or a condition")
        g = node.generators[0]
        saved = self.hoists
        self.hoists = []
        try:
            lst, bound, hs = self.loop_iter(g, env)
            if hs or self.hoists:
                self.bad(node, "a list comprehension whose iterable may raise")
        finally:
            self.hoists = saved
        env2 = dict(env)
        for n, t, nn in bound:
            env2[n] = V(lname(n), t, nn)
        if (len(bound) == 1 and bound[0][1] == "Str" and isinstance(node.elt, ast.Call) and self.key(node.elt.func) == "int"
                and len(node.elt.args) == 1 and not node.elt.keywords and isinstance(node.elt.args[0], ast.Name)
                and node.elt.args[0].id == bound[0][0] and any(n == "py_int" for n, _ in self.spec.get("externals", ()))):
            # `[int(x) for x in strs]`: the first element `int` refuses raises ValueError (nothing else happens in the rounds before)
            return V(self.hoist(f"PyRt.someE PyRt.Err.value (List.mapM py_int {lst})", "List Int", node), "List Int")
        e = self.strict(lambda: self.expr(node.elt, env2))
        ety = " × ".join(ty_arg(t) if " " in ty(t) else ty(t) for _, t, _ in bound)
        if len(bound) == 1:
            fn = f"(fun ({lname(bound[0][0])} : {ety}) => {e.term})"
        else:
            pre = " ".join(f"let {lname(n)} : {ty(t)} := py_i" + ".2" * k + (".1" if k < len(bound) - 1 else "") + ";"
                           for k, (n, t, _) in enumerate(bound))
            fn = f"(fun (py_i : {ety}) => {pre} {e.term})"
        rt = e.typ if " " not in e.typ else f"({e.typ})"
        return V(f"(List.map {fn} {lst})", f"List {rt}")

    def e_Dict(self, node, env):
        if not node.keys:
            return V("{}", "EmptyDict")
        if any(k is None for k in node.keys):
            self.bad(node, "dict display with `**`")
        ks = [self.expr(k, env) for k in node.keys]
        vs = [self.expr(v, env) for v in node.values]        # (Python evaluates key, value, key, value …: nothing here may raise)
        if any(k.typ != ks[0].typ or k.lit is None for k in ks):
            self.bad(node, "dict display whose keys are not literals of one type")
        vt = vs[0].typ
        for v in vs[1:]:
            vt = self.join_type(vt, v.typ, node)
        if vt in ("NoneType", "EmptyDict", "EmptyList"):
            self.bad(node, "dict display whose values have no known type")
        ents = ", ".join(f"({k.term}, {self.coerce(v, vt, node)})" for k, v in zip(ks, vs))
        vts = vt if " " not in vt else f"({vt})"
        return V(f"([{ents}] : List ({ty_arg(ks[0].typ)} × {ty_arg(vt)}))", f"Table {ks[0].typ}; {vts}")

    def arith(self, node, a, b, natop, intop, nn):
        """both Nat → the Nat operation; else the Int operation on casts"""
        if a.typ == "Nat" and b.typ == "Nat" and natop:
            return V(f"({a.term} {natop} {b.term})", "Nat", True)
        ai, bi = self.to_int(a), self.to_int(b)
        if ai is None or bi is None:
            self.bad(node, f"operand types {a.typ}, {b.typ}")
        return V(intop(ai, bi), "Int", nn)

    # ---- struct format strings: a value of type `Fmt:<kinds>` is the list of its fields (`PyRt.Fld`); the KINDS (B / s) of
    # the fields are static, the counts of the `s` fields are values. `<fmt> + str(e) + "s"` appends an `s` field of count
    # `e` (a negative `e` prints as "-…", a bad format: struct.error when it is used); only the characters B, s and digits.
    def fmt_atoms(self, node, out):
        if isinstance(node, ast.BinOp) and isinstance(node.op, ast.Add):
            self.fmt_atoms(node.left, out)
            self.fmt_atoms(node.right, out)
        else:
            out.append(node)
        return out

    def is_fmt(self, node, env):
        for a in self.fmt_atoms(node, []):
            if isinstance(a, ast.Call) and self.key(a.func) == "str":
                return True
            if isinstance(a, ast.Name) and a.id in env and env[a.id].typ.startswith("Fmt:"):
                return True
        return False

    def fmt_literal(self, text, node, pending=None):
        """fields of a literal piece; `pending`: a count left by a preceding `str(e)` → ([lean field terms], kinds, pending)"""
        terms, kinds, digits = [], "", ""
        for ch in text:
            if ch.isdigit() and ch.isascii():
                if pending is not None:
                    self.bad(node, "digits after a computed count in a struct format")
                digits += ch
            elif ch == "B":
                if pending is not None or digits:
                    self.bad(node, "a repeat count before `B` in a struct format")
                terms.append("PyRt.Fld.B")
                kinds += "B"
            elif ch == "s":
                cnt = pending if pending is not None else (f"({int(digits)} : Int)" if digits else "(1 : Int)")
                terms.append(f"PyRt.Fld.S {cnt}")
                kinds += "s"
                pending, digits = None, ""
            else:
                self.bad(node, f"struct format character {ch!r} (only B, s and digits are in the subset)")
        if digits:
            self.bad(node, "a struct format piece that ends in digits")
        return terms, kinds, pending

    def fmt_expr(self, node, env):
        terms, kinds, pending, base = [], "", None, None
        for i, a in enumerate(self.fmt_atoms(node, [])):
            if isinstance(a, ast.Name) and a.id in env and env[a.id].typ.startswith("Fmt:"):
                if i != 0:
                    self.bad(node, "a format value that is not the leftmost operand")
                base, kinds = env[a.id].term, env[a.id].typ[4:]
            elif isinstance(a, ast.Constant) and isinstance(a.value, str):
                t, k, pending = self.fmt_literal(a.value, a, pending)
                terms += t
                kinds += k
            elif isinstance(a, ast.Call) and self.key(a.func) == "str" and len(a.args) == 1 and not a.keywords:
                if pending is not None:
                    self.bad(node, "two computed counts in a row in a struct format")
                e = self.expr(a.args[0], env)
                if not is_int(e.typ):
                    self.bad(a, f"str() of {e.typ} inside a struct format")
                pending = self.to_int(e)
            else:
                self.bad(a, "operand of a struct format concatenation that is not a format value, a literal or str(int)")
        if pending is not None:
            self.bad(node, "a struct format that ends in a count")
        lst = "[" + ", ".join(terms) + "]"
        return V(f"({base} ++ {lst})" if base is not None else f"({lst} : List PyRt.Fld)", "Fmt:" + kinds)

    def e_BinOp(self, node, env):
        op = type(node.op).__name__
        if op == "Add" and self.is_fmt(node, env):
            return self.fmt_expr(node, env)
        a = self.expr(node.left, env)
        b = self.expr(node.right, env)
        if op == "Add" and {a.typ, b.typ} <= {"Bytes", "Option Bytes"} and "Option Bytes" in (a.typ, b.typ):
            # `bytes + None` / `None + bytes`: TypeError (both operands are evaluated first; neither evaluation has effects)
            a, b = [x if x.typ == "Bytes" else V(self.hoist(f"PyRt.someE PyRt.Err.type {x.term}", "Bytes", node), "Bytes") for x in (a, b)]
        if op == "Add" and a.typ == "Bytes" and b.typ == "Bytes":
            return V(f"({a.term} ++ {b.term})", "Bytes")
        if op == "Mult" and ((is_int(a.typ) and b.typ in ("Str", "Bytes")) or (a.typ in ("Str", "Bytes") and is_int(b.typ))):
            n, x = (a, b) if is_int(a.typ) else (b, a)
            return V(f"(PyRt.repeatSeq {self.to_int(n)} {x.term})", x.typ)          # a count ≤ 0 gives the empty sequence
        if op == "Div" and a.typ == "Layers" and b.typ == "Layers":
            return V(f"({a.term} ++ {b.term})", "Layers")            # scapy: `/` stacks the layers
        if op == "BitOr" and a.typ.startswith("Set ") and a.typ == b.typ:
            return V(f"({a.term} ++ {b.term})", a.typ)        # a list standing for the set; a set is only ever asked `in`
        if not (is_int(a.typ) and is_int(b.typ)):
            self.bad(node, f"operator {op} on {a.typ} and {b.typ}")
        inf = lambda o: (lambda x, y: f"({x} {o} {y})")
        fun = lambda f: (lambda x, y: f"(PyRt.{f} {x} {y})")
        if op == "Add":
            return self.arith(node, a, b, "+", inf("+"), a.nn and b.nn)
        if op == "Mult":
            return self.arith(node, a, b, "*", inf("*"), a.nn and b.nn)
        if op == "Sub":
            return self.arith(node, a, b, None, inf("-"), False)
        if op == "BitAnd":
            return self.arith(node, a, b, "&&&", fun("band"), a.nn or b.nn)
        if op == "BitOr":
            return self.arith(node, a, b, "|||", fun("bor"), a.nn and b.nn)
        if op == "BitXor":
            return self.arith(node, a, b, "^^^", fun("bxor"), a.nn and b.nn)
        if op == "Pow":
            if a.lit is not None and b.lit is not None and 0 <= b.lit <= 4096:
                return self.e_Constant(ast.Constant(value=a.lit ** b.lit), env)       # constant folding, exact
            if b.typ == "Nat" and a.typ == "Nat":
                return V(f"({a.term} ^ {b.term})", "Nat", True)
            if b.nn:
                return V(f"({self.to_int(a)} ^ {self.to_nat(b)})", "Int", a.nn)
            self.bad(node, "`**` with an exponent not known to be ≥ 0 (a negative exponent yields a float)")
        if op in ("FloorDiv", "Mod"):
            pos_lit = b.lit is not None and b.lit > 0
            if pos_lit:
                # floor division by a positive literal is Lean's `/` `%` on Nat and on Int (Euclidean = floor there)
                o = "/" if op == "FloorDiv" else "%"
                return self.arith(node, a, b, o, inf(o), a.nn if op == "FloorDiv" else True)
            t = self.hoist(f"PyRt.{'floordivE' if op == 'FloorDiv' else 'modE'} {self.to_int(a)} {self.to_int(b)}", "Int", node)
            return V(t, "Int", False)
        if op in ("LShift", "RShift"):
            if b.nn:
                natop = "<<<" if op == "LShift" else ">>>"
                f = "shl" if op == "LShift" else "shr"
                return self.arith(node, a, V(self.to_nat(b), "Nat") if a.typ == "Nat" else b, natop, fun(f), a.nn)
            t = self.hoist(f"PyRt.{'shlE' if op == 'LShift' else 'shrE'} {self.to_int(a)} {self.to_int(b)}", "Int", node)
            return V(t, "Int", a.nn)
        self.bad(node, f"operator {op} is outside the subset")

    def e_UnaryOp(self, node, env):
        op = type(node.op).__name__
        a = self.expr(node.operand, env)
        if op == "Not":
            if is_int(a.typ):
                return V(f"(decide ({a.term} = 0))", "Bool")          # `not n` is `n == 0`
            if a.typ != "Bool":
                self.bad(node, f"`not` on {a.typ} (truthiness of non-bools is outside the subset)")
            return V(f"(!{a.term})", "Bool")
        if not is_int(a.typ):
            self.bad(node, f"unary {op} on {a.typ}")
        if op == "USub":
            if a.lit is not None:
                return V(f"({-a.lit} : Int)", "Int", a.lit == 0, lit=-a.lit)
            return V(f"(-{self.to_int(a)})", "Int", False)
        if op == "Invert":
            return V(f"(~~~{self.to_int(a)})", "Int", False)
        if op == "UAdd":
            return a
        self.bad(node, f"unary {op}")

    def strict(self, f):
        """evaluate a sub-expression in a position Python may skip: nothing in it may raise"""
        saved = self.hoists
        self.hoists = []
        try:
            v = f()
            if self.hoists:
                raise Untranslatable(self.fn, self.hoists[0][3], "an operation that may raise stands where Python may skip it "
                                     "(right operand of and/or, later comparator of a chain, arm of a conditional expression)")
            return v
        finally:
            self.hoists = saved

    def e_BoolOp(self, node, env):
        op = "&&" if isinstance(node.op, ast.And) else "||"
        vals = [self.expr(node.values[0], env)] + [self.strict(lambda n=n: self.expr(n, env)) for n in node.values[1:]]
        for v, n in zip(vals, node.values):
            if v.typ != "Bool":
                self.bad(n, f"operand of and/or has type {v.typ} (only bools: Python returns the operand itself)")
        return V("(" + f" {op} ".join(v.term for v in vals) + ")", "Bool")

    def cmp1(self, node, op, a, b):
        o = type(op).__name__
        if o in ("In", "NotIn"):
            neg = "!" if o == "NotIn" else ""
            if b.typ.startswith("Dict "):
                kt = split_dict(b.typ)[0]
                return f"({neg}(({b.term}) {self.coerce(a, kt, node)}).isSome)"
            if a.typ == "Str" and b.typ == "Str":
                return f"({neg}PyRt.strIn {a.term} {b.term})"
            if b.typ.startswith("Table "):
                kt = split_table(b.typ)[0]
                return f"({neg}(PyRt.tableGet {b.term} {self.coerce(a, kt, node)}).isSome)"
            et = elem_type(b.typ) if b.typ.startswith(("List ", "Set ")) else None
            if et is None:
                self.bad(node, f"`in` on {b.typ}")
            return f"({neg}decide ({self.coerce(a, et, node)} ∈ {b.term}))"
        if o in ("Is", "IsNot"):
            neg = "!" if o == "IsNot" else ""
            if b.typ == "NoneType" and a.typ.startswith("Option "):
                return f"({neg}({a.term}).isNone)"
            if b.typ == "Bool" and a.typ == "Bool" and b.term in ("true", "false"):
                return f"({neg}decide ({a.term} = {b.term}))"
            if b.typ == "NoneType" and a.typ not in ("NoneType", "EmptyDict", "EmptyList") and not a.typ.startswith("Option "):
                return "true" if o == "IsNot" else "false"          # the spec types this value as never None
            self.bad(node, f"`is` between {a.typ} and {b.typ}")
        if o in ("Eq", "NotEq"):
            rel = "=" if o == "Eq" else "≠"
            # a value that is an int or a tuple: equal to an int iff it is that int (a tuple never equals an int)
            un = self.spec.get("unions", {})
            if a.typ in un and a.typ != b.typ:
                return f"(decide ({a.term} {rel} {self.coerce(b, a.typ, node)}))"
            if b.typ in un and a.typ != b.typ:
                return f"(decide ({self.coerce(a, b.typ, node)} {rel} {b.term}))"
            if "|" in a.typ and is_int(b.typ):
                return f"(decide ({a.term} {rel} {self.coerce(b, a.typ, node)}))"
            if "|" in b.typ and is_int(a.typ):
                return f"(decide ({self.coerce(a, b.typ, node)} {rel} {b.term}))"
            if (a.typ == "Bytes" and is_int(b.typ)) or (is_int(a.typ) and b.typ == "Bytes"):
                return "false" if o == "Eq" else "true"          # bytes / bytearray and int: never equal
            if is_int(a.typ) and is_int(b.typ):
                if a.typ == b.typ:
                    return f"(decide ({a.term} {rel} {b.term}))"
                return f"(decide ({self.to_int(a)} {rel} {self.to_int(b)}))"
            if a.typ == b.typ and a.typ not in ("NoneType", "EmptyDict"):
                return f"(decide ({a.term} {rel} {b.term}))"
            if a.typ.startswith("Option ") and not b.typ.startswith("Option "):
                return f"(decide ({a.term} {rel} {self.coerce(b, a.typ, node)}))"
            if b.typ.startswith("Option ") and not a.typ.startswith("Option "):
                return f"(decide ({self.coerce(a, b.typ, node)} {rel} {b.term}))"
            self.bad(node, f"comparison of {a.typ} with {b.typ}")
        rel = {"Lt": "<", "LtE": "≤", "Gt": ">", "GtE": "≥"}.get(o)
        if rel is None:
            self.bad(node, f"comparison {o}")
        if not (is_int(a.typ) and is_int(b.typ)):
            self.bad(node, f"ordering of {a.typ} and {b.typ}")
        if a.typ == "Nat" and b.typ == "Nat":
            return f"(decide ({a.term} {rel} {b.term}))"
        return f"(decide ({self.to_int(a)} {rel} {self.to_int(b)}))"

    def e_Compare(self, node, env):
        left = self.expr(node.left, env)
        out = []
        for i, (op, cn) in enumerate(zip(node.ops, node.comparators)):
            memb = isinstance(op, (ast.In, ast.NotIn))
            rd = (lambda cn=cn: self.cmp_operand(cn, env)) if memb else (lambda cn=cn: self.expr(cn, env))
            right = rd() if i == 0 else self.strict(rd)
            out.append(self.cmp1(node, op, left, right))
            left = right
        return V(out[0] if len(out) == 1 else "(" + " && ".join(out) + ")", "Bool")

    def cmp_operand(self, node, env):
        # `a | b` of two sets and `d.keys()` are only meaningful as the right operand of `in`
        if isinstance(node, ast.BinOp) and isinstance(node.op, ast.BitOr) and self.key(node) not in self.places:
            a, b = self.expr(node.left, env), self.expr(node.right, env)
            if a.typ.startswith("Set ") and a.typ == b.typ:
                return V(f"({a.term} ++ {b.term})", a.typ)
        if (isinstance(node, ast.Call) and isinstance(node.func, ast.Attribute) and node.func.attr == "keys"
                and not node.args and not node.keywords):
            d = self.expr(node.func.value, env)
            if d.typ.startswith("Dict "):
                return d
        if isinstance(node, (ast.List, ast.Tuple, ast.Set)):
            els = [self.expr(e, env) for e in node.elts]
            if els and all(e.typ == els[0].typ for e in els):
                return V("[" + ", ".join(e.term for e in els) + "]", "List " + els[0].typ)
            if els and all(is_int(e.typ) for e in els):
                return V("[" + ", ".join(self.to_int(e) for e in els) + "]", "List Int")
            self.bad(node, "list display with elements of different types")
        return self.expr(node, env)

    def e_IfExp(self, node, env):
        c = self.expr(node.test, env)
        if c.typ != "Bool":
            self.bad(node.test, f"condition of type {c.typ}")
        a = self.strict(lambda: self.expr(node.body, env))
        b = self.strict(lambda: self.expr(node.orelse, env))
        t = self.join_type(a.typ, b.typ, node)
        return V(f"(if {c.term} then {self.coerce(a, t, node)} else {self.coerce(b, t, node)})", t, a.nn and b.nn)

    def join_type(self, a, b, node):
        if a == b or b is None:
            return a
        if is_int(a) and is_int(b):
            return "Int"
        if a == "NoneType" and b != "NoneType":
            return b if b.startswith("Option ") else "Option " + b
        if b == "NoneType":
            return a if a.startswith("Option ") else "Option " + a
        if a.startswith("Option ") and elem_type(a) == b:
            return a
        if b.startswith("Option ") and elem_type(b) == a:
            return b
        self.bad(node, f"a variable would have type {a} on one path and {b} on another")

    def hoist(self, term, typ, node):
        if self.hoists is None:
            self.bad(node, "an operation that may raise in a position without statement context")
        t = self.fresh("py_t")
        self.hoists.append((t, term, typ, node))
        return t

    def e_Subscript(self, node, env):
        x = self.expr(node.value, env)
        if isinstance(node.slice, ast.Slice):
            if x.typ != "Bytes":
                self.bad(node, f"slice of {x.typ}")
            if node.slice.step is not None:
                self.bad(node, "slice with a step")
            lo = self.expr(node.slice.lower, env) if node.slice.lower is not None else None
            hi = self.expr(node.slice.upper, env) if node.slice.upper is not None else None
            for b in (lo, hi):
                if b is not None and not is_int(b.typ):
                    self.bad(node, f"slice bound of type {b.typ}")
            if (lo is None or lo.nn) and (hi is None or hi.nn):
                if hi is None:
                    return V(f"(List.drop {self.to_nat(lo) if lo else '0'} {x.term})", "Bytes")
                return V(f"(TLX.Bytes.slice {x.term} {self.to_nat(lo) if lo else '0'} {self.to_nat(hi)})", "Bytes")
            opt = lambda b: "none" if b is None else f"(some {self.to_int(b)})"
            return V(f"(PyRt.pySlice {x.term} {opt(lo)} {opt(hi)})", "Bytes")
        if x.typ.startswith("Tup:") or ("×" in x.typ and not x.typ.startswith(("List ", "Option ", "Table ", "Set "))):
            ic = node.slice
            if isinstance(ic, ast.UnaryOp) and isinstance(ic.op, ast.USub) and isinstance(ic.operand, ast.Constant):
                ic = ast.Constant(value=-ic.operand.value)
            if not (isinstance(ic, ast.Constant) and isinstance(ic.value, int) and not isinstance(ic.value, bool)):
                self.bad(node, "a tuple indexed by anything but an int literal")
            if x.typ.startswith("Tup:"):
                kinds = x.typ[4:]
                j = ic.value + len(kinds) if ic.value < 0 else ic.value
                if not 0 <= j < len(kinds):
                    self.bad(node, "tuple index out of range (statically)")
                return (V(f"(PyRt.fldB {x.term} {j})", "Nat", True) if kinds[j] == "B" else V(f"(PyRt.fldS {x.term} {j})", "Bytes"))
            parts = split_prod(x.typ)
            j = ic.value + len(parts) if ic.value < 0 else ic.value
            if not 0 <= j < len(parts):
                self.bad(node, "tuple index out of range (statically)")
            proj = x.term + ".2" * j + (".1" if j < len(parts) - 1 else "")
            return V(f"({proj})", unparen(parts[j]))
        i = self.expr(node.slice, env)
        if x.typ == "Str":
            if not is_int(i.typ):
                self.bad(node, f"index of type {i.typ}")
            return V(self.hoist(f"PyRt.strItemE {x.term} {self.to_int(i)}", "Str", node), "Str")
        if x.typ == "Bytes":
            if not is_int(i.typ):
                self.bad(node, f"index of type {i.typ}")
            return V(self.hoist(f"PyRt.getItem {x.term} {self.to_int(i)}", "Nat", node), "Nat", True)
        if x.typ.startswith("List "):
            if not is_int(i.typ):
                self.bad(node, f"index of type {i.typ}")
            et = elem_type(x.typ)
            return V(self.hoist(f"PyRt.listItemE {x.term} {self.to_int(i)}", et, node), et)
        if x.typ.startswith("Table "):
            kt, vt = split_table(x.typ)
            return V(self.hoist(f"PyRt.tableGetE {x.term} {self.coerce(i, kt, node)}", vt, node), vt)
        if x.typ.startswith("Dict "):
            kt, vt = split_dict(x.typ)
            return V(self.hoist(f"PyRt.dictGetE {x.term} {self.coerce(i, kt, node)}", vt, node), vt)
        self.bad(node, f"subscript of {x.typ}")

    def is_big(self, node):
        return isinstance(node, ast.Constant) and node.value == "big"

    def e_Call(self, node, env):
        f = node.func
        fname = self.key(f)
        kw = {k.arg: k.value for k in node.keywords}
        if fname == "cast" and len(node.args) == 2 and not kw:
            return self.expr(node.args[1], env)                  # typing.cast returns its second argument
        if fname == "isinstance" and len(node.args) == 2 and not kw and isinstance(node.args[1], ast.Name):
            x = self.expr(node.args[0], env)
            fn = self.spec.get("classes", {}).get((x.typ, node.args[1].id))
            if fn is None:
                self.bad(node, f"isinstance of {x.typ} against a class the spec does not name")
            return V(f"({fn} {x.term})", "Bool")
        if fname == "len" and len(node.args) == 1 and not kw:
            x = self.expr(node.args[0], env)
            if not (x.typ == "Bytes" or x.typ.startswith("List ")):
                self.bad(node, f"len of {x.typ}")
            return V(f"(List.length {x.term})", "Nat", True)
        if fname == "struct.unpack_from" and len(node.args) == 2 and not kw:
            fm = self.fmt_expr(node.args[0], env) if (self.is_fmt(node.args[0], env) or isinstance(node.args[0], ast.Constant)) \
                else self.expr(node.args[0], env)
            d = self.expr(node.args[1], env)
            if not fm.typ.startswith("Fmt:") or d.typ != "Bytes":
                self.bad(node, f"struct.unpack_from({fm.typ}, {d.typ})")
            typ = "Tup:" + fm.typ[4:]
            return V(self.hoist(f"PyRt.unpackFrom {fm.term} {d.term}", typ, node), typ)
        if fname == "zip" and len(node.args) == 2 and not kw:
            a, b = self.expr(node.args[0], env), self.expr(node.args[1], env)
            if a.typ == "Bytes" and b.typ == "Bytes":
                return V(f"(PyRt.zipBytes {a.term} {b.term})", "List (Nat × Nat)")
            self.bad(node, f"zip of {a.typ} and {b.typ}")
        if isinstance(f, ast.Name) and f.id in env and env[f.id].typ in self.spec.get("instances", ()) and not node.args and not kw:
            return env[f.id]                     # instantiating a class held in a local: the instance is named like its class
        if (isinstance(f, ast.Attribute) and f.attr == "finalize" and not node.args and not kw and isinstance(f.value, ast.Name)
                and f.value.id in env and env[f.value.id].typ == "Acc"):
            x = env[f.value.id]
            # (a second `finalize` / a later `update` raises AlreadyFinalized: the object is not usable afterwards)
            env[f.value.id] = V(x.term, "Finalized")
            return V(f"(PyRt.Acc.finalize {x.term})", "Bytes")
        if (isinstance(f, ast.Attribute) and isinstance(f.value, ast.Call)
                and self.key(f.value.func) + "." + f.attr in self.spec.get("calls", {})):
            # `Class(a, …).method(b, …)` the spec names as one external function of (a, …, b, …)
            c = self.spec["calls"][self.key(f.value.func) + "." + f.attr]
            cpar, mpar = c.get("params", ([], []))
            order = list(cpar) + list(mpar)
            given = list(f.value.args) + list(node.args)
            if kw or [k for k in f.value.keywords]:
                if not order or len(f.value.args) > len(cpar) or len(node.args) > len(mpar):
                    self.bad(node, f"call of `{self.key(f.value.func)}(…).{f.attr}` with keywords the spec has no parameter names for")
                pos = {cpar[i]: a for i, a in enumerate(f.value.args)}
                pos.update({mpar[i]: a for i, a in enumerate(node.args)})
                pos.update({k.arg: k.value for k in f.value.keywords})
                pos.update(kw)
                if set(pos) != set(order):
                    self.bad(node, f"call of `{self.key(f.value.func)}(…).{f.attr}` that does not give exactly the parameters {order}")
                given = [pos[n_] for n_ in order]
            if len(given) != len(c["args"]):
                self.bad(node, f"call of `{self.key(f.value.func)}(…).{f.attr}` with {len(given)} arguments, the spec knows {len(c['args'])}")
            args = [None if t is None else self.coerce(self.expr(a, env), t, node) for a, t in zip(given, c["args"])]
            for a, t in zip(given, c["args"]):
                if t is None and not isinstance(a, ast.Constant):
                    self.bad(a, "an ignored argument that is not a literal")
            term = f"{c['lean']} " + " ".join(a for a in args if a is not None)
            if c.get("raises"):
                return V(self.hoist(term, c["ret"], node), c["ret"])
            return V(f"({term})", c["ret"])
        if fname == "bytes" and len(node.args) == 2 and not kw and isinstance(node.args[1], ast.Constant) and node.args[1].value == "utf-8":
            x = self.expr(node.args[0], env)
            if x.typ != "Str":
                self.bad(node, f"bytes(…, 'utf-8') of {x.typ}")
            return V(self.hoist(f"PyRt.utf8E {x.term}", "Bytes", node), "Bytes")        # UnicodeEncodeError (a ValueError) on surrogates
        if fname in ("bytes", "bytearray") and len(node.args) == 1 and not kw and isinstance(node.args[0], ast.ListComp):
            lc = self.expr(node.args[0], env)
            et = elem_type(lc.typ)
            if not is_int(et):
                self.bad(node, f"{fname}() of a list of {et}")
            lst = lc.term if et == "Int" else f"(List.map Int.ofNat {lc.term})"
            return V(self.hoist(f"PyRt.bytesOfE {lst}", "Bytes", node), "Bytes")
        if fname == "bytes" and len(node.args) == 1 and not kw and isinstance(node.args[0], ast.List):
            els = [self.expr(e, env) for e in node.args[0].elts]
            if not all(is_int(e.typ) for e in els):
                self.bad(node, "bytes([…]) of elements that are not ints")
            lst = "[" + ", ".join(self.to_int(e) for e in els) + "]"
            return V(self.hoist(f"PyRt.bytesOfE {lst}", "Bytes", node), "Bytes")          # ValueError outside range(256)
        if (fname in ("floor", "math.floor") and len(node.args) == 1 and not kw and isinstance(node.args[0], ast.BinOp)
                and isinstance(node.args[0].op, ast.Div) and any(n == "fdivfloor" for n, _ in self.spec.get("externals", ()))):
            # `floor(a / b)`: a float division — the external `fdivfloor a b` (ZeroDivisionError inside it)
            a, b = self.expr(node.args[0].left, env), self.expr(node.args[0].right, env)
            if not (is_int(a.typ) and is_int(b.typ)):
                self.bad(node, f"floor(a / b) on {a.typ}, {b.typ}")
            return V(self.hoist(f"fdivfloor {self.to_int(a)} {self.to_int(b)}", "Int", node), "Int")
        if fname == "bool" and len(node.args) == 1 and not kw:
            x = self.expr(node.args[0], env)
            if x.typ == "Bool":
                return x
            if is_int(x.typ):
                return V(f"(decide ({x.term} ≠ 0))", "Bool")
            if x.typ == "Bytes" or x.typ.startswith("List "):
                return V(f"(!(List.isEmpty {x.term}))", "Bool")
            self.bad(node, f"bool() of {x.typ}")
        if fname in ("bytes", "bytearray") and not node.args and not kw:
            return V("([] : Bytes)", "Bytes")
        if isinstance(f, ast.Attribute) and f.attr == "hex" and not node.args and not kw:
            x = self.expr(f.value, env)
            if x.typ == "Option Bytes":
                x = V(self.hoist(f"PyRt.attrE {x.term}", "Bytes", node), "Bytes")          # None has no hex
            if x.typ != "Bytes":
                self.bad(node, f"hex() of {x.typ}")
            return V(f"(PyRt.hexStr {x.term})", "Str")
        om = self.spec.get("obj_methods", {})
        if (isinstance(f, ast.Attribute) and isinstance(f.value, ast.Name) and not kw
                and (self.spec.get("maybe_locals", {}).get(f.value.id) or self.seen_types.get(f.value.id, self.spec.get("locals", {}).get(f.value.id))
                     or (env[f.value.id].typ if f.value.id in env else None), f.attr) in om):
            recv = self.expr(f.value, env)             # (UnboundLocalError when no statement on this path has assigned it)
            c = om[(recv.typ, f.attr)]
            if len(node.args) != len(c["args"]):
                self.bad(node, f"`.{f.attr}` with {len(node.args)} arguments, the spec knows {len(c['args'])}")
            args = [self.coerce(self.expr(a, env), t, node) for a, t in zip(node.args, c["args"])]
            term = " ".join([c["lean"], recv.term] + args)
            if c.get("raises"):
                return V(self.hoist(term, c["ret"], node), c["ret"])
            return V(f"({term})", c["ret"])
        if isinstance(f, ast.Attribute) and f.attr == "encode" and not node.args and not kw:
            x = self.expr(f.value, env)
            if x.typ != "Str":
                self.bad(node, f"encode() of {x.typ}")
            return V(self.hoist(f"PyRt.utf8E {x.term}", "Bytes", node), "Bytes")
        if fname in ("bytes", "bytearray", "copy.deepcopy") and len(node.args) == 1 and not kw:
            # a bytes-like VALUE: the copy is the same value (mutation is only translated for locals this function created)
            x = self.expr(node.args[0], env)
            if x.typ == "Bytes":
                return V(x.term, "Bytes")
            if is_int(x.typ) and fname != "copy.deepcopy":
                return V(self.hoist(f"PyRt.zerosE {self.to_int(x)}", "Bytes", node), "Bytes")      # `bytes(n)`: n zero bytes, ValueError for n < 0
            self.bad(node, f"{fname}() of {x.typ}")
        if fname == "int" and not kw:
            if len(node.args) == 1:
                x = self.expr(node.args[0], env)
                if is_int(x.typ):
                    return x
                if x.typ == "Str" and any(n == "py_int" for n, _ in self.spec.get("externals", ())):
                    # `int(s)` of a str: the external `py_int : List Nat → Option Int` (`none` = ValueError)
                    return V(self.hoist(f"PyRt.someE PyRt.Err.value (py_int {x.term})", "Int", node), "Int")
                self.bad(node, f"int() of {x.typ}")
            if len(node.args) == 2 and all(isinstance(a, ast.Constant) for a in node.args):
                try:
                    val = int(node.args[0].value, node.args[1].value)
                except Exception as e:
                    self.bad(node, f"int() on literals raises {e!r}")
                return self.e_Constant(ast.Constant(value=val), env)
        if (isinstance(f, ast.Attribute) and f.attr == "get" and len(node.args) == 2 and not kw
                and self.key(f.value) in self.pairdicts):
            pk = self.key(f.value)
            dflt = ast.unparse(ast.parse(self.pairdicts[pk], mode="eval").body)
            if ast.unparse(node.args[1]) != dflt:
                self.bad(node, f"`.get` on a bool-keyed dict place with a default other than {dflt}")
            kx = self.expr(node.args[0], env)
            if kx.typ != "Bool":
                self.bad(node, f"key of type {kx.typ} for a bool-keyed dict place")
            p = self.read_place(pk, env, node)
            return V(f"(if {kx.term} then {p.term}.2 else {p.term}.1)", unparen(split_prod(p.typ)[0]))
        if isinstance(f, ast.Attribute) and f.attr == "lower" and not node.args and not kw and any(n == "str_lower" for n, _ in self.spec.get("externals", ())):
            x = self.expr(f.value, env)
            if x.typ != "Str":
                self.bad(node, f"lower() of {x.typ}")
            return V(f"(str_lower {x.term})", "Str")          # `s.lower()`: Unicode case mapping, the external `str_lower`
        one = lambda a: isinstance(a, ast.Constant) and isinstance(a.value, str) and len(a.value) == 1
        if isinstance(f, ast.Attribute) and f.attr == "split" and len(node.args) == 1 and not kw and one(node.args[0]):
            x = self.expr(f.value, env)
            if x.typ != "Str":
                self.bad(node, f"split() of {x.typ}")
            return V(f"(PyRt.strSplit {ord(node.args[0].value)} {x.term})", "List Str")       # a one-character separator
        if (isinstance(f, ast.Attribute) and f.attr == "replace" and len(node.args) == 2 and not kw and one(node.args[0])
                and isinstance(node.args[1], ast.Constant) and node.args[1].value == ""):
            x = self.expr(f.value, env)
            if x.typ != "Str":
                self.bad(node, f"replace() of {x.typ}")
            return V(f"(PyRt.strRemove {ord(node.args[0].value)} {x.term})", "Str")           # `s.replace(c, "")`
        if isinstance(f, ast.Attribute) and f.attr == "rstrip" and len(node.args) == 1 and not kw:
            x = self.expr(f.value, env)
            if x.typ == "Option Bytes":
                x = V(self.hoist(f"PyRt.attrE {x.term}", "Bytes", node), "Bytes")      # None has no rstrip
            a = self.expr(node.args[0], env)
            if x.typ != "Bytes" or a.typ != "Bytes":
                self.bad(node, f"rstrip on {x.typ} with {a.typ}")
            return V(f"(PyRt.rstrip {x.term} {a.term})", "Bytes")
        if fname in ("bytes.fromhex", "bytearray.fromhex") and len(node.args) == 1 and isinstance(node.args[0], ast.Constant) and not kw:
            try:
                return self.e_Constant(ast.Constant(value=bytes.fromhex(node.args[0].value)), env)
            except Exception as e:
                self.bad(node, f"bytes.fromhex on a literal raises {e!r}")
        if fname == "int.from_bytes":
            args = list(node.args)
            if len(args) == 1 and "byteorder" in kw:
                args.append(kw.pop("byteorder"))
            signed = kw.pop("signed", None)
            if (len(args) == 2 and self.is_big(args[1]) and not kw
                    and (signed is None or (isinstance(signed, ast.Constant) and signed.value is False))):
                x = self.expr(args[0], env)
                if x.typ != "Bytes":
                    self.bad(node, f"int.from_bytes of {x.typ}")
                return V(f"(TLX.Bytes.beNat {x.term})", "Nat", True)
            self.bad(node, "int.from_bytes other than (x, 'big'[, signed=False])")
        tb = None
        if fname == "int.to_bytes" and len(node.args) >= 1:
            tb = (node.args[0], list(node.args[1:]))
        elif isinstance(f, ast.Attribute) and f.attr == "to_bytes":
            tb = (f.value, list(node.args))
        if tb is not None:
            n_node, rest = tb
            if len(rest) == 1 and "byteorder" in kw:
                rest.append(kw.pop("byteorder"))
            signed = kw.pop("signed", None)
            if (len(rest) == 2 and self.is_big(rest[1]) and not kw
                    and (signed is None or (isinstance(signed, ast.Constant) and signed.value is False))):
                n = self.expr(n_node, env)
                k = self.expr(rest[0], env)
                if not (is_int(n.typ) and is_int(k.typ)):
                    self.bad(node, f"to_bytes on {n.typ}, {k.typ}")
                return V(self.hoist(f"PyRt.toBytesE {self.to_int(n)} {self.to_int(k)}", "Bytes", node), "Bytes")
            self.bad(node, "to_bytes other than (length, 'big'[, signed=False])")
        if isinstance(f, ast.Attribute) and f.attr in ("keys", "get") and not kw:
            t = self.expr(f.value, env)
            if t.typ.startswith("Table "):
                kt, vt = split_table(t.typ)
                if f.attr == "keys" and not node.args:
                    return V(f"(PyRt.tableKeys {t.term})", f"List {kt}" if " " not in kt else f"List ({kt})")
                if f.attr == "get" and len(node.args) == 1:
                    k = self.expr(node.args[0], env)
                    vo = f"Option {vt}" if " " not in vt else f"Option ({vt})"
                    if "|" in k.typ and k.typ.split("|")[1] == kt:
                        return V(f"(PyRt.tableGetU {t.term} {k.term})", vo)      # an int is no key of this table
                    return V(f"(PyRt.tableGet {t.term} {self.coerce(k, kt, node)})", vo)
        if isinstance(f, ast.Call) and "class_call" in self.spec and not kw:
            # `<looked-up class>(args)`: None is not callable (TypeError); a class runs its translated constructor
            cc = self.spec["class_call"]
            c = self.expr(f, env)
            if c.typ != cc["type"] or len(node.args) != len(cc["args"]):
                self.bad(node, f"call of a value of type {c.typ}")
            args = [self.coerce(self.expr(a, env), t, node) for a, t in zip(node.args, cc["args"]) if t is not None]
            if any(t is None and not isinstance(a, ast.Name) for a, t in zip(node.args, cc["args"])):
                self.bad(node, "an ignored argument that is not a plain name")
            return V(self.hoist(f"PyRt.callClass {c.term} (fun py_c => {cc['lean']} py_c " + " ".join(args) + ")", cc["ret"], node), cc["ret"])
        ctors = self.spec.get("ctors", {})
        if fname in ctors and node.args and "positional" in ctors[fname] and set(kw) <= set(ctors[fname].get("ignore_kw", ())):
            # `Class(a, b, c)`: the spec names the field each position fills (None: a literal argument outside the model)
            c = ctors[fname]
            if len(node.args) != len(c["positional"]):
                self.bad(node, f"`{fname}` called with {len(node.args)} arguments, the spec knows {len(c['positional'])}")
            out = list(c.get("consts", []))
            for a, (fld, t) in zip(node.args, c["positional"]):
                if fld is None:
                    if not isinstance(a, (ast.Constant, ast.Name)):
                        self.bad(a, "an ignored constructor argument that is not a literal or a plain name")
                    continue
                out.append(f"{fld} := {self.coerce(self.expr(a, env), t, a)}")
            return V("({ " + ", ".join(out) + " } : " + c["type"] + ")", c["type"])
        if fname in ctors and not node.args:
            c = ctors[fname]
            fields = dict(c["fields"])
            vals = {}
            for k_, vnode in kw.items():
                if k_ in c.get("ignore", ()):
                    if not (isinstance(vnode, ast.Subscript) and isinstance(vnode.slice, ast.Slice) and isinstance(vnode.value, ast.Name)):
                        self.bad(vnode, "an ignored keyword argument that is not a plain slice of a local")
                    continue
                if k_ not in fields:
                    self.bad(node, f"keyword `{k_}` is not a field the spec gives `{fname}`")
                vals[k_] = self.coerce(self.expr(vnode, env), fields[k_], vnode)
            out = list(c.get("consts", []))
            for k_, t in c["fields"]:
                if k_ in vals:
                    out.append(f"{k_} := {vals[k_]}")
                elif t.startswith("Option "):
                    out.append(f"{k_} := none")
                else:
                    self.bad(node, f"`{fname}` called without `{k_}`")
            return V("({ " + ", ".join(out) + " } : " + c["type"] + ")", c["type"])
        calls = self.spec.get("calls", {})
        if fname in calls and kw and "params" in calls[fname]:
            c = calls[fname]
            order = list(c["params"])
            given = {order[i]: a for i, a in enumerate(node.args)}
            given.update(kw)
            if set(given) != set(order):
                self.bad(node, f"call of `{fname}` that does not give exactly the parameters {order}")
            # Python evaluates the arguments in the order they are written
            written = [order[i] for i in range(len(node.args))] + list(kw)
            vs = {n_: self.coerce(self.expr(given[n_], env), t, node) for n_, t in ((w, c["args"][order.index(w)]) for w in written)}
            term = f"{c['lean']} " + " ".join(vs[n_] for n_ in order)
            if c.get("raises"):
                return V(self.hoist(term, c["ret"], node), c["ret"])
            return V(f"({term})", c["ret"])
        if fname in calls and not kw and "fmt" in calls[fname]:
            c = calls[fname]
            if len(node.args) != len(c["args"]):
                self.bad(node, f"call of `{fname}` with {len(node.args)} arguments, the spec knows {len(c['args'])}")
            args = [self.coerce(self.expr(a, env), t, node) for a, t in zip(node.args, c["args"])]
            return V(c["fmt"].format(*args), c["ret"])
        if fname in calls and not kw:
            c = calls[fname]
            if len(node.args) != len(c["args"]):
                self.bad(node, f"call of `{fname}` with {len(node.args)} arguments, the spec knows {len(c['args'])}")
            if any(t is None and not isinstance(a, ast.Name) for a, t in zip(node.args, c["args"])):
                self.bad(node, "an ignored argument that is not a plain name")
            args = [self.coerce(self.expr(a, env), t, node) for a, t in zip(node.args, c["args"]) if t is not None]
            term = f"{c['lean']} " + " ".join(args)
            if c.get("raises"):
                return V(self.hoist(term, c["ret"], node), c["ret"])
            return V(f"({term})", c["ret"])
        self.bad(node, f"call of `{fname}` is outside the subset")

    # ------------------------------------------------------------------------------------------- statements
    def dropped(self, st):
        """docstrings, logging.*(...) and print(...): no effect on the modelled state"""
        if isinstance(st, ast.Expr):
            if isinstance(st.value, ast.Constant) and isinstance(st.value.value, str):
                return True
            if isinstance(st.value, ast.Call):
                f = self.key(st.value.func)
                if f == "print" or f.startswith("logging."):
                    return True
        return isinstance(st, ast.Pass)

    def log_effects(self, st, rest, env, frame):
        """spec `log_effects`: a logging / print call still EVALUATES its arguments — `{key.hex()}` inside an f-string raises
        AttributeError for a `None` key whatever the log level. The values are dropped, the exceptions are not; a local that
        passed `.hex()` is known not to be None afterwards."""
        exprs = []
        for a in list(st.value.args) + [k.value for k in st.value.keywords]:
            for n in ast.walk(a):
                if isinstance(n, ast.FormattedValue):
                    exprs.append(n.value)
            if not isinstance(a, (ast.JoinedStr, ast.Constant)):
                exprs.append(a)
        env = dict(env)
        saved, self.hoists = self.hoists, []
        narrowed = []
        try:
            for e in exprs:
                if (isinstance(e, ast.Call) and isinstance(e.func, ast.Attribute) and e.func.attr == "hex" and not e.args
                        and isinstance(e.func.value, ast.Name) and e.func.value.id in env and env[e.func.value.id].typ == "Option Bytes"):
                    x = env[e.func.value.id]
                    t = self.hoist(f"PyRt.attrE {x.term}", "Bytes", e)
                    narrowed.append((e.func.value, V(t, "Bytes")))
                    env[e.func.value.id] = V(t, "Bytes")
                else:
                    self.expr(e, env)
            hs = self.hoists
        finally:
            self.hoists = saved

        def inner():
            env2, lines = env, []
            for tg, v in narrowed:
                env2, line = self.bind(tg, v, env2, st)
                lines.append(line)
            return "".join(l + "\n" for l in lines) + self.block(rest, env2, frame)
        return self.with_hoists(hs, env, frame, inner)

    def block(self, stmts, env, frame):
        if not stmts:
            return frame.fall(env)
        st, rest = stmts[0], stmts[1:]
        if (self.spec.get("log_effects") and isinstance(st, ast.Expr) and isinstance(st.value, ast.Call)
                and (self.key(st.value.func) == "print" or self.key(st.value.func).startswith("logging."))):
            return self.log_effects(st, rest, env, frame)
        if (isinstance(st, ast.Expr) and isinstance(st.value, ast.Call) and self.key(st.value.func) == "setattr"
                and len(st.value.args) == 3 and not st.value.keywords and "setattr_names" in self.spec):
            # `setattr(obj, name, v)` with a literal name, or a name expression the spec gives the value of (`self.dest` of an
            # argparse action): the assignment `obj.<name> = v`
            o_, n_, v_ = st.value.args
            nm_ = (n_.value if isinstance(n_, ast.Constant) and isinstance(n_.value, str)
                   else self.spec["setattr_names"].get(self.key(n_)))
            if nm_ is None:
                self.bad(st, "setattr with a name that is neither a literal nor given by the spec")
            asg = ast.Assign(targets=[ast.Attribute(value=o_, attr=nm_, ctx=ast.Store())], value=v_)
            ast.copy_location(asg, st)
            ast.fix_missing_locations(asg)
            return self.block([asg] + list(rest), env, frame)
        if self.key(st) in self.spec.get("stmt_rewrites", {}):
            # a call into a library outside the subset whose effect the spec states as assignments from externals
            new = ast.parse(textwrap.dedent(self.spec["stmt_rewrites"][self.key(st)])).body
            for n_ in new:
                for m_ in ast.walk(n_):
                    ast.copy_location(m_, st)
            return self.block(list(new) + list(rest), env, frame)
        if isinstance(st, ast.Raise) and st.exc is not None and st.cause is None and self.key(st.exc) in self.spec.get("raise_as", {}):
            # `raise X` for an exception the spec maps to one of PyRt's
            self.raises = True
            return frame.raise_("PyRt.Err." + self.spec["raise_as"][self.key(st.exc)], env)
        if self.dropped(st):
            return self.block(rest, env, frame)
        if any(ast.unparse(st).startswith(p) for p in self.spec.get("drop_stmts", ())):
            return self.block(rest, env, frame)          # the spec declares this statement outside the model (it only feeds logging)
        m = getattr(self, "s_" + type(st).__name__, None)
        if m is None:
            self.bad(st, f"statement form {type(st).__name__} is outside the subset")
        return m(st, rest, env, frame)

    def with_hoists(self, hoists, env, frame, inner):
        """`inner()` is rendered under the bindings of the operations that may raise, in evaluation order"""
        if not hoists:
            return inner()
        self.raises = True
        (t, term, typ, node), more = hoists[0], hoists[1:]
        body = self.with_hoists(more, env, frame, inner)
        return (f"PyRt.tryE ({term}) (fun py_e => {frame.raise_('py_e', env)}) (fun {t} =>\n" + ind(body) + ")")

    def eval(self, node, env):
        """expression in statement context → (value, hoists)"""
        saved, self.hoists = self.hoists, []
        try:
            v = self.expr(node, env)
            return v, self.hoists
        finally:
            self.hoists = saved

    def bind(self, target, v, env, node):
        """env after `target = v`, and the `let` line"""
        env = dict(env)
        if isinstance(target, ast.Name) and target.id not in self.places:
            decl = self.spec.get("locals", {}).get(target.id)
            if decl == "Fmt":
                if v.typ == "Str" and isinstance(v.lit, str):
                    t, k, pend = self.fmt_literal(v.lit, node)
                    v = V("([" + ", ".join(t) + "] : List PyRt.Fld)", "Fmt:" + k)
                if not v.typ.startswith("Fmt:"):
                    self.bad(node, f"a struct format local assigned {v.typ}")
                decl = None
            if target.id in self.spec.get("maybe_locals", {}):
                decl = "Option " + ty_arg(self.spec["maybe_locals"][target.id]) if " " in self.spec["maybe_locals"][target.id] else "Option " + self.spec["maybe_locals"][target.id]
            if decl is not None:
                v = V(self.coerce(v, decl, node), decl, v.nn and decl == "Int")
            if v.typ in ("NoneType", "EmptyDict", "EmptyList"):
                self.bad(node, "a local of unknown type (assigned None, {} or []): declare it in the spec's `locals`")
            n = lname(target.id)
            if target.id in self.reserved or not (lname_ok(target.id) or target.id in self.synthetic):
                self.bad(node, f"local `{target.id}` clashes with a Lean name of the spec or of the emitted text")
            env[target.id] = V(n, v.typ, v.nn)
            env.pop(("maybe", target.id), None)
            self.seen_types.setdefault(target.id, v.typ)
            return env, f"let {n} : {ty(v.typ)} := {v.term}"
        k = self.key(target)
        if k in self.places:
            _, ln, typ, mode = self.places[k]
            if mode == "r":
                self.bad(node, "write to a place the spec declares read-only")
            if k in self.pairdicts and v.typ == "EmptyDict":
                d = self.e_Constant(ast.parse(self.pairdicts[k], mode="eval").body, env)
                v = V(f"({d.term}, {d.term})", typ)
            term = self.coerce(v, typ, node)
            if mode == "s":
                cur = env["__st"]
                env["__st"] = V("st'", cur.typ)
                return env, f"let st' : {ty(cur.typ)} := {{ {cur.term} with {lname(ln)} := {term} }}"
            env[("place", k)] = V(lname(ln) + "'", typ, v.nn and typ == "Int")
            return env, f"let {lname(ln)}' : {ty(typ)} := {term}"
        self.bad(node, "assignment target is neither a local name nor a place of the spec")

    def stmt_update(self, st, rest, env, frame):
        """spec `stmt_updates` {statement text: field updates}: an assignment the spec maps to updates of the state record (a dict
        emptied = none of its entries present …); `{st}` in the text is the current state"""
        upd = self.spec.get("stmt_updates", {}).get(self.key(st))
        if upd is None or self.state is None:
            return None
        cur = env["__st"]
        env2 = dict(env)
        env2["__st"] = V("st'", cur.typ)
        line = f"let st' : {ty(cur.typ)} := {{ {cur.term} with {upd.format(st=cur.term)} }}" if upd else None
        if line is None:
            return self.block(rest, env, frame)
        return line + "\n" + self.block(rest, env2, frame)

    def s_Assign(self, st, rest, env, frame):
        su = self.stmt_update(st, rest, env, frame)
        if su is not None:
            return su
        if len(st.targets) > 1 and all(isinstance(t, ast.Name) for t in st.targets):
            # `a = b = e`: `e` is evaluated once, then bound left to right
            first = ast.Assign(targets=[st.targets[0]], value=st.value)
            more = [ast.Assign(targets=[t], value=ast.Name(id=st.targets[0].id, ctx=ast.Load())) for t in st.targets[1:]]
            for n in [first] + more:
                ast.copy_location(n, st)
                ast.fix_missing_locations(n)
            return self.block([first] + more + list(rest), env, frame)
        if len(st.targets) != 1:
            self.bad(st, "chained assignment")
        if (isinstance(st.targets[0], ast.Name) and isinstance(st.value, ast.Call) and self.key(st.value.func) == "cast"
                and len(st.value.args) == 2 and not st.value.keywords and isinstance(st.value.args[1], ast.Name)
                and st.value.args[1].id == st.targets[0].id):
            return self.block(rest, env, frame)                # `x = cast(T, x)`: typing.cast returns `x` itself
        if self.key(st.targets[0]) in self.spec.get("ignore_writes", ()):
            # an attribute the spec declares outside the model: the statement is dropped if its right-hand side
            # cannot raise or have an effect (a name, a constant, an empty display)
            v = st.value
            if isinstance(v, (ast.Name, ast.Constant)) or (isinstance(v, (ast.List, ast.Dict, ast.Tuple)) and not ast.unparse(v).strip("[]{}()")):
                return self.block(rest, env, frame)
            self.bad(st, "write to an ignored attribute whose right-hand side is not a name, constant or empty display")
        tg = st.targets[0]
        if (isinstance(tg, ast.Subscript) and self.key(tg) not in self.places and self.key(tg.value) in self.places
                and not isinstance(tg.slice, ast.Slice)):
            return self.place_item_assign(st, tg, rest, env, frame)
        if isinstance(st.value, ast.Call) and self.key(st.value.func) in self.state_calls and isinstance(tg, ast.Name):
            def k(v, env1):
                if v is None:
                    self.bad(st, "the result of a procedure is assigned")
                env2, line = self.bind(tg, v, env1, st)
                return line + "\n" + self.block(rest, env2, frame)
            return self.state_call(st.value, env, frame, k)
        if isinstance(tg, ast.Subscript) and isinstance(tg.value, ast.Name) and self.key(tg) not in self.places:
            return self.subscript_assign(st, tg, rest, env, frame)
        if isinstance(st.value, ast.Name) and st.value.id in self.owned:
            self.bad(st, "a second name for a bytearray this function mutates (aliasing)")
        v, hs = self.eval(st.value, env)
        if isinstance(tg, ast.Name):
            fresh = (isinstance(st.value, ast.Call) and self.key(st.value.func) in ("bytearray", "copy.deepcopy")
                     and v.typ == "Bytes")          # (also `bytearray()`)
            (self.owned.add if fresh else self.owned.discard)(tg.id)

        def inner():
            env2, line = self.bind(tg, v, env, st)
            return line + "\n" + self.block(rest, env2, frame)
        return self.with_hoists(hs, env, frame, inner)

    def place_item_assign(self, st, tg, rest, env, frame):
        """`<place>[k] = v` where the place is a dict: a bool-keyed pair (`pairdicts`) or a table"""
        pk = self.key(tg.value)
        saved, self.hoists = self.hoists, []
        try:
            v = self.expr(st.value, env)                   # Python: the right-hand side, then the container, then the key
            cur = self.read_place(pk, env, st)
            k = self.expr(tg.slice, env)
            hs = self.hoists
        finally:
            self.hoists = saved
        if pk in self.pairdicts:
            vt = unparen(split_prod(cur.typ)[0])
            if k.typ != "Bool":
                self.bad(st, f"key of type {k.typ} for a bool-keyed dict place")
            new = lambda: V(f"(if {k.term} then ({cur.term}.1, {self.coerce(v, vt, st)}) else ({self.coerce(v, vt, st)}, {cur.term}.2))", cur.typ)
        elif cur.typ.startswith("Table "):
            kt, vt = split_table(cur.typ)
            new = lambda: V(f"(PyRt.tableSet {cur.term} {self.coerce(k, kt, st)} {self.coerce(v, vt, st)})", cur.typ)
        else:
            self.bad(st, f"item assignment on a place of type {cur.typ}")

        def inner():
            env2, line = self.bind(tg.value, new(), env, st)
            return line + "\n" + self.block(rest, env2, frame)
        return self.with_hoists(hs, env, frame, inner)

    def state_call(self, call, env, frame, k):
        """a call that passes the attribute state on (spec `state_calls`); `k(value or None, env)` renders what follows"""
        c = self.state_calls[self.key(call.func)]
        if call.keywords or len(call.args) != len(c["args"]):
            self.bad(call, f"call of `{self.key(call.func)}` that does not give exactly the {len(c['args'])} positional arguments of its spec entry")
        saved, self.hoists = self.hoists, []
        try:
            args = [self.coerce(self.expr(a, env), t, call) for a, t in zip(call.args, c["args"])]
            hs = self.hoists
        finally:
            self.hoists = saved
        ret = c.get("ret", "None")
        place_node = lambda key: ast.parse(key, mode="eval").body

        def value(name):
            return None if ret == "None" else V(name, ret)

        def inner():
            self.raises = True
            vn = self.fresh("py_v") if ret != "None" else "_"
            if c["kind"] == "shared":
                rp = [self.read_place(pk, env, call).term for pk in c.get("rplaces", [])]
                cur = env["__st"]
                term = " ".join([c["lean"]] + list(c.get("exts", [])) + args + rp + [cur.term])
                env2 = dict(env)
                env2["__st"] = V("st'", cur.typ)
                return (f"PyRt.tryR ({term}) (fun py_e st' => {frame.raise_('py_e', env2)}) (fun {vn} st' =>\n"
                        + ind(k(value(vn), env2)) + ")")
            if c["kind"] == "extshared":
                # a method over the same state record that is an external here: `lean st args : Res St ret`
                cur = env["__st"]
                term = " ".join([c["lean"], cur.term] + args)
                env2 = dict(env)
                env2["__st"] = V("st'", cur.typ)
                return (f"PyRt.tryR ({term}) (fun py_e st' => {frame.raise_('py_e', env2)}) (fun {vn} st' =>\n"
                        + ind(k(value(vn), env2)) + ")")
            if c["kind"] == "method":
                recv = self.read_place(c["recv"], env, call, raw=True)
                if not recv.typ.startswith("Option "):
                    # an object that is always there
                    d = self.fresh("py_d")
                    env2, line = self.bind(place_node(c["recv"]), V(d + "'", recv.typ), env, call)
                    term = " ".join([c["lean"], recv.term] + args)
                    return (f"PyRt.tryR ({term}) (fun py_e {d}' =>\n" + ind(line + "\n" + frame.raise_('py_e', env2), 4)
                            + f") (fun {vn} {d}' =>\n" + ind(line + "\n" + k(value(vn), env2)) + ")")
                xt = elem_type(recv.typ)
                d = self.fresh("py_d")
                env2, line = self.bind(place_node(c["recv"]), V(d + "'", xt), env, call)
                term = " ".join([c["lean"], d] + args)
                return (f"PyRt.tryE (PyRt.attrE {recv.term}) (fun py_e => {frame.raise_('py_e', env)}) (fun {d} =>\n"
                        + ind(f"PyRt.tryR ({term}) (fun py_e {d}' =>\n" + ind(line + "\n" + frame.raise_('py_e', env2), 4)
                              + f") (fun {vn} {d}' =>\n" + ind(line + "\n" + k(value(vn), env2)) + ")") + ")")
            if c["kind"] == "ext":
                rp = [self.read_place(pk, env, call, raw=True).term for pk in c.get("reads", [])]
                w = self.fresh("py_w")
                env2, lines = env, []
                n = len(c["writes"])
                for j, pk in enumerate(c["writes"]):
                    proj = w if n == 1 else (w + ".2" * j + (".1" if j < n - 1 else ""))
                    env2, line = self.bind(place_node(pk), V(proj, self.places[pk][2]), env2, call)
                    lines.append(line)
                pre = "".join(l + "\n" for l in lines)
                term = " ".join([c["lean"]] + args + rp)
                return (f"PyRt.tryR ({term}) (fun py_e {w} =>\n" + ind(pre + frame.raise_('py_e', env2), 4)
                        + f") (fun {vn} {w} =>\n" + ind(pre + k(value(vn), env2)) + ")")
            self.bad(call, f"state call entry of kind {c['kind']!r}")
        return self.with_hoists(hs, env, frame, inner)

    def table_set(self, st, name_node, key_node, val_node, rest, env, frame, key_first=False):
        """`d[k] = v` / `d.update({k: v})` on a dict local this function created (declared in the spec's `locals`)"""
        x = env[name_node.id]
        kt, vt = split_table(x.typ)
        saved, self.hoists = self.hoists, []
        try:
            # Python evaluates the value before the key in `d[k] = v`, the key before the value in a display `{k: v}`
            if key_first:
                k = self.expr(key_node, env)
                v = self.expr(val_node, env)
            else:
                v = self.expr(val_node, env)
                k = self.expr(key_node, env)
            hs = self.hoists
        finally:
            self.hoists = saved

        def inner():
            new = V(f"(PyRt.tableSet {x.term} {self.coerce(k, kt, st)} {self.coerce(v, vt, st)})", x.typ)
            env2, line = self.bind(name_node, new, env, st)
            return line + "\n" + self.block(rest, env2, frame)
        return self.with_hoists(hs, env, frame, inner)

    def subscript_assign(self, st, tg, rest, env, frame):
        """`x[a:b] = v` / `x[i] = v` on a bytearray local created in this function (`bytearray(…)`, `copy.deepcopy(…)`)"""
        name = tg.value.id
        if (name in env and env[name].typ.startswith("Table ") and name in self.spec.get("locals", {})
                and not isinstance(tg.slice, ast.Slice)):
            return self.table_set(st, tg.value, tg.slice, st.value, rest, env, frame)
        if name not in self.owned or name not in env or env[name].typ != "Bytes":
            self.bad(st, "subscript assignment to anything but a bytearray local this function created")
        x = env[name]
        saved, self.hoists = self.hoists, []
        try:
            if isinstance(tg.slice, ast.Slice):
                if tg.slice.step is not None or tg.slice.lower is None or tg.slice.upper is None:
                    self.bad(st, "slice assignment with a step or an omitted bound")
                lo, hi, v = self.expr(tg.slice.lower, env), self.expr(tg.slice.upper, env), self.expr(st.value, env)
                if not (is_int(lo.typ) and lo.nn and is_int(hi.typ) and hi.nn and v.typ == "Bytes"):
                    self.bad(st, "slice assignment with bounds not known to be ≥ 0 or a value that is not bytes")
                new = V(f"(PyRt.setSlice {x.term} {self.to_nat(lo)} {self.to_nat(hi)} {v.term})", "Bytes")
            else:
                # Python evaluates the right-hand side first, then the index
                v, i = self.expr(st.value, env), self.expr(tg.slice, env)
                if not (is_int(i.typ) and is_int(v.typ)):
                    self.bad(st, "item assignment with an index or value that is not an int")
                new = V(self.hoist(f"PyRt.setItemE {x.term} {self.to_int(i)} {self.to_int(v)}", "Bytes", st), "Bytes")
            hs = self.hoists
        finally:
            self.hoists = saved

        def inner():
            env2, line = self.bind(tg.value, new, env, st)
            return line + "\n" + self.block(rest, env2, frame)
        return self.with_hoists(hs, env, frame, inner)

    def s_AnnAssign(self, st, rest, env, frame):
        su = self.stmt_update(st, rest, env, frame)
        if su is not None:
            return su
        if st.value is None:
            return self.block(rest, env, frame)
        return self.s_Assign(ast.copy_location(ast.Assign(targets=[st.target], value=st.value), st), rest, env, frame)

    def s_AugAssign(self, st, rest, env, frame):
        load = ast.parse(self.key(st.target), mode="eval").body
        node = ast.copy_location(ast.BinOp(left=load, op=st.op, right=st.value), st)
        ast.fix_missing_locations(node)
        return self.s_Assign(ast.copy_location(ast.Assign(targets=[st.target], value=node), st), rest, env, frame)

    def s_Return(self, st, rest, env, frame):
        if st.value is None:
            return frame.ret(V("()", "NoneType"), env, st)
        if isinstance(st.value, ast.Call) and self.key(st.value.func) in self.state_calls:
            return self.state_call(st.value, env, frame,
                                   lambda v, env1: frame.ret(v if v is not None else V("()", "NoneType"), env1, st))
        val = st.value
        if (isinstance(val, ast.Tuple) and len(val.elts) == 2 and isinstance(val.elts[1], ast.Name)
                and val.elts[1].id in self.spec.get("objects", ())):
            val = val.elts[0]           # `return x, obj`: the object is the state record the definition returns anyway
        v, hs = self.eval(val, env)
        return self.with_hoists(hs, env, frame, lambda: frame.ret(v, env, st))

    def s_Continue(self, st, rest, env, frame):
        return frame.cont(env, st)

    def s_Break(self, st, rest, env, frame):
        return frame.brk(env, st)

    EXC = {"KeyError": "key", "IndexError": "index", "ValueError": "value", "ZeroDivisionError": "zeroDiv",
           "OverflowError": "overflow", "TypeError": "type"}

    def s_Try(self, st, rest, env, frame):
        if st.orelse or st.finalbody or not st.handlers:
            self.bad(st, "try with else/finally or without a handler")
        hs = []
        for h in st.handlers:
            if h.type is None or (isinstance(h.type, ast.Name) and h.type.id == "Exception"):
                hs.append(("*", list(h.body)))                        # every exception of the subset is an Exception
                continue
            if not (isinstance(h.type, ast.Name) and h.type.id in self.EXC):
                self.bad(h, "except clause that does not name Exception or one of " + ", ".join(self.EXC))
            hs.append((self.EXC[h.type.id], list(h.body)))
        after = ContFrame(self, frame, rest)
        return self.block(list(st.body), env, TryFrame(self, after, hs))

    def append_call(self, st):
        """`<place>.append(x)` on a list place of the spec → (place key, argument node)"""
        c = st.value if isinstance(st, ast.Expr) else None
        if (isinstance(c, ast.Call) and isinstance(c.func, ast.Attribute) and c.func.attr == "append" and len(c.args) == 1
                and not c.keywords and self.key(c.func.value) in self.places
                and self.places[self.key(c.func.value)][2].startswith("List ")):
            return self.key(c.func.value), c.args[0]
        return None

    def s_Expr(self, st, rest, env, frame):
        su = self.stmt_update(st, rest, env, frame)
        if su is not None:
            return su
        c0 = st.value
        if (isinstance(c0, ast.Call) and isinstance(c0.func, ast.Attribute) and c0.func.attr == "update" and len(c0.args) == 1
                and not c0.keywords and isinstance(c0.func.value, ast.Name) and c0.func.value.id in env
                and env[c0.func.value.id].typ == "Acc"):
            # a hash / HMAC object of `cryptography`: `update` appends to what `finalize` will digest
            x = env[c0.func.value.id]
            v, hs = self.eval(c0.args[0], env)
            if v.typ != "Bytes":
                self.bad(st, f"update() with {v.typ}")

            def inner():
                env2, line = self.bind(c0.func.value, V(f"(PyRt.Acc.update {x.term} {v.term})", "Acc"), env, st)
                return line + "\n" + self.block(rest, env2, frame)
            return self.with_hoists(hs, env, frame, inner)
        if isinstance(c0, ast.Call) and self.key(c0.func) in self.state_calls:
            return self.state_call(c0, env, frame, lambda v, env1: self.block(rest, env1, frame))
        mm = self.spec.get("mut_methods", {})
        if (mm and isinstance(c0, ast.Call) and isinstance(c0.func, ast.Attribute) and isinstance(c0.func.value, ast.Name)
                and c0.func.value.id in env and (env[c0.func.value.id].typ, c0.func.attr) in mm and not c0.keywords):
            # a method that mutates the object a loop variable holds: the external returns the object afterwards
            x = env[c0.func.value.id]
            c = mm[(x.typ, c0.func.attr)]
            if len(c0.args) != len(c["args"]):
                self.bad(st, f"`.{c0.func.attr}` with {len(c0.args)} arguments, the spec knows {len(c['args'])}")
            saved, self.hoists = self.hoists, []
            args = [self.coerce(self.expr(a, env), t, st) for a, t in zip(c0.args, c["args"])]
            hs, self.hoists = self.hoists, saved
            if hs:
                self.bad(st, "an argument of a mutating method that may raise")
            env2 = dict(env)
            n = lname(c0.func.value.id)
            env2[c0.func.value.id] = V(n, x.typ)
            text = f"let {n} : {ty(x.typ)} := " + " ".join([c["lean"], x.term] + args) + "\n"
            apk = env.get(("alias", c0.func.value.id))
            if apk is not None:
                # the object was appended to this list before: the list's last element is the same object
                curp = self.read_place(apk, env2, st)
                env2, line = self.bind(ast.parse(apk, mode="eval").body, V(f"(PyRt.setLast {curp.term} {n})", self.places[apk][2]), env2, st)
                env2[("alias", c0.func.value.id)] = apk
                text += line + "\n"
            return text + self.block(rest, env2, frame)
        if (isinstance(c0, ast.Call) and isinstance(c0.func, ast.Attribute) and c0.func.attr == "append" and len(c0.args) == 1
                and not c0.keywords and isinstance(c0.func.value, ast.Name) and c0.func.value.id in env
                and env[c0.func.value.id].typ.startswith("List ") and c0.func.value.id in self.spec.get("locals", {})):
            # a list local this function created (`x = []`, declared in the spec's `locals`): append rebinds it
            x = env[c0.func.value.id]
            v, hs = self.eval(c0.args[0], env)

            def inner():
                new = V(f"({x.term} ++ [{self.coerce(v, elem_type(x.typ), st)}])", x.typ)
                env2, line = self.bind(c0.func.value, new, env, st)
                return line + "\n" + self.block(rest, env2, frame)
            return self.with_hoists(hs, env, frame, inner)
        if (isinstance(c0, ast.Call) and isinstance(c0.func, ast.Attribute) and c0.func.attr == "extend" and len(c0.args) == 1
                and not c0.keywords and isinstance(c0.func.value, ast.Name) and c0.func.value.id in env
                and env[c0.func.value.id].typ.startswith("List ") and c0.func.value.id in self.spec.get("locals", {})):
            # a list local this function created: extend rebinds it
            x = env[c0.func.value.id]
            v, hs = self.eval(c0.args[0], env)

            def inner_lext():
                new = V(f"({x.term} ++ {self.coerce(v, x.typ, st)})", x.typ)
                env2, line = self.bind(c0.func.value, new, env, st)
                return line + "\n" + self.block(rest, env2, frame)
            return self.with_hoists(hs, env, frame, inner_lext)
        if (isinstance(c0, ast.Call) and isinstance(c0.func, ast.Attribute) and c0.func.attr == "clear" and not c0.args and not c0.keywords
                and self.key(c0.func.value) in self.places and self.places[self.key(c0.func.value)][2].startswith("List ")):
            env2, line = self.bind(c0.func.value, V("[]", "EmptyList"), env, st)
            return line + "\n" + self.block(rest, env2, frame)
        if (isinstance(c0, ast.Call) and isinstance(c0.func, ast.Attribute) and c0.func.attr == "extend" and len(c0.args) == 1
                and not c0.keywords and self.key(c0.func.value) in self.places and self.places[self.key(c0.func.value)][2].startswith("List ")):
            pk = self.key(c0.func.value)
            v, hs = self.eval(c0.args[0], env)

            def inner_ext():
                cur = self.read_place(pk, env, st)
                typ = self.places[pk][2]
                new = V(f"({cur.term} ++ {self.coerce(v, typ, st)})", typ)
                env2, line = self.bind(c0.func.value, new, env, st)
                return line + "\n" + self.block(rest, env2, frame)
            return self.with_hoists(hs, env, frame, inner_ext)
        if (isinstance(c0, ast.Call) and isinstance(c0.func, ast.Attribute) and c0.func.attr == "add" and len(c0.args) == 1
                and not c0.keywords and self.key(c0.func.value) in self.places and self.places[self.key(c0.func.value)][2].startswith("Set ")):
            pk = self.key(c0.func.value)
            v, hs = self.eval(c0.args[0], env)

            def inner_add():
                cur = self.read_place(pk, env, st)
                typ = self.places[pk][2]
                if v.typ == "Option " + elem_type(typ):
                    new = V(f"(PyRt.setAddO {cur.term} {v.term})", typ)
                else:
                    new = V(f"(PyRt.setAdd {cur.term} {self.coerce(v, elem_type(typ), st)})", typ)
                env2, line = self.bind(c0.func.value, new, env, st)
                return line + "\n" + self.block(rest, env2, frame)
            return self.with_hoists(hs, env, frame, inner_add)
        if (isinstance(c0, ast.Call) and isinstance(c0.func, ast.Attribute) and c0.func.attr == "update" and len(c0.args) == 1
                and not c0.keywords and self.key(c0.func.value) in self.places and self.places[self.key(c0.func.value)][2].startswith("Table ")):
            # `d.update(other)` on a dict place, `other` a dict of the same type
            pk = self.key(c0.func.value)
            v, hs = self.eval(c0.args[0], env)
            if v.typ != self.places[pk][2]:
                self.bad(st, f"update() of a {self.places[pk][2]} with {v.typ}")

            def inner_upd():
                cur = self.read_place(pk, env, st)
                new = V(f"(PyRt.tableUpdate {cur.term} {v.term})", cur.typ)
                env2, line = self.bind(c0.func.value, new, env, st)
                return line + "\n" + self.block(rest, env2, frame)
            return self.with_hoists(hs, env, frame, inner_upd)
        ap = self.append_call(st)
        if ap is not None:
            pk, arg = ap
            v, hs = self.eval(arg, env)

            def inner():
                cur = self.read_place(pk, env, st)
                typ = self.places[pk][2]
                new = V(f"({cur.term} ++ [{self.coerce(v, elem_type(typ), st)}])", typ)
                env2, line = self.bind(st.value.func.value, new, env, st)
                for k_ in [k_ for k_ in env2 if isinstance(k_, tuple) and k_[0] == "alias" and env2[k_] == pk]:
                    del env2[k_]
                if pk in self.spec.get("obj_lists", {}) and isinstance(arg, ast.Name):
                    env2[("alias", arg.id)] = pk        # the list's last element IS this object: a later mutation shows in both
                return line + "\n" + self.block(rest, env2, frame)
            return self.with_hoists(hs, env, frame, inner)
        if (isinstance(c0, ast.Call) and isinstance(c0.func, ast.Attribute) and c0.func.attr == "update" and len(c0.args) == 1
                and not c0.keywords and isinstance(c0.func.value, ast.Name) and c0.func.value.id in env
                and env[c0.func.value.id].typ.startswith("Table ") and c0.func.value.id in self.spec.get("locals", {})
                and isinstance(c0.args[0], ast.Dict) and len(c0.args[0].keys) == 1 and c0.args[0].keys[0] is not None):
            d = c0.args[0]
            return self.table_set(st, c0.func.value, d.keys[0], d.values[0], rest, env, frame, key_first=True)
        if (isinstance(c0, ast.Call) and isinstance(c0.func, ast.Attribute) and c0.func.attr == "append" and len(c0.args) == 1
                and not c0.keywords and isinstance(c0.func.value, ast.Name) and c0.func.value.id in self.owned
                and c0.func.value.id in env and env[c0.func.value.id].typ == "Bytes"):
            # `bytearray.append(int)`: ValueError unless in range(256)
            x = env[c0.func.value.id]
            v, hs = self.eval(c0.args[0], env)
            if not is_int(v.typ):
                self.bad(st, f"bytearray.append() of {v.typ}")
            saved, self.hoists = self.hoists, list(hs)
            nv = V(self.hoist(f"PyRt.appendByteE {x.term} {self.to_int(v)}", "Bytes", st), "Bytes")
            hs, self.hoists = self.hoists, saved

            def inner_ab():
                env2, line = self.bind(c0.func.value, nv, env, st)
                return line + "\n" + self.block(rest, env2, frame)
            return self.with_hoists(hs, env, frame, inner_ab)
        k = self.key(st)
        if k in self.spec.get("drop_calls", ()):
            return self.block(rest, env, frame)              # the spec declares this call outside the model
        c = st.value
        if (isinstance(c, ast.Call) and isinstance(c.func, ast.Attribute) and c.func.attr == "extend" and len(c.args) == 1
                and not c.keywords and isinstance(c.func.value, ast.Name) and c.func.value.id in self.owned
                and c.func.value.id in env):
            v, hs = self.eval(c.args[0], env)
            if v.typ == "Option Bytes":
                # `extend(None)` is a TypeError
                saved, self.hoists = self.hoists, list(hs)
                v = V(self.hoist(f"PyRt.someE PyRt.Err.type {v.term}", "Bytes", st), "Bytes")
                hs, self.hoists = self.hoists, saved
            if v.typ != "Bytes":
                self.bad(st, f"extend() with {v.typ}")
            x = env[c.func.value.id]

            def inner():
                env2, line = self.bind(c.func.value, V(f"({x.term} ++ {v.term})", "Bytes"), env, st)
                return line + "\n" + self.block(rest, env2, frame)
            return self.with_hoists(hs, env, frame, inner)
        if k in self.actions:
            env2 = dict(env)
            env2["__acts"] = V("acts'", env["__acts"].typ, False)
            old = env["__acts"].term
            return f"let acts' := {old} ++ [{self.actions[k]}]\n" + self.block(rest, env2, frame)
        self.bad(st, "expression statement (a call with effects the spec does not name)")

    def as_condition(self, node, env):
        """the test of an `if`: only its truth matters, so an int operand of and/or/not stands for `!= 0`"""
        if isinstance(node, ast.BoolOp):
            new = ast.BoolOp(op=node.op, values=[self.as_condition(v, env) for v in node.values])
        elif isinstance(node, ast.UnaryOp) and isinstance(node.op, ast.Not):
            new = ast.UnaryOp(op=node.op, operand=self.as_condition(node.operand, env))
        else:
            saved = (self.hoists, self.tmp)
            self.hoists = []
            try:
                t = self.expr(node, env).typ
            except Untranslatable:
                t = None
            finally:
                self.hoists, self.tmp = saved
            if t == "Option Bool":
                new = ast.Compare(left=node, ops=[ast.Eq()], comparators=[ast.Constant(value=True)])      # None and False are falsy
            elif t is not None and t.startswith("List ") and self.spec.get("list_truth"):
                # spec `list_truth`: `if xs:` on a list is `len(xs) != 0`
                new = ast.Compare(left=ast.Call(func=ast.Name(id="len", ctx=ast.Load()), args=[node], keywords=[]), ops=[ast.NotEq()],
                                  comparators=[ast.Constant(value=0)])
            elif t is None or not is_int(t):
                return node
            else:
                new = ast.Compare(left=node, ops=[ast.NotEq()], comparators=[ast.Constant(value=0)])
        ast.copy_location(new, node)
        ast.fix_missing_locations(new)
        return new

    def absent_or_none(self, t):
        """`'a' not in ns or ns.a is None` for a place `ns.a` the spec lists under `absent_or_none` → its key"""
        if not (isinstance(t, ast.BoolOp) and isinstance(t.op, ast.Or) and len(t.values) == 2):
            return None
        a, b = t.values
        if not (isinstance(a, ast.Compare) and len(a.ops) == 1 and isinstance(a.ops[0], ast.NotIn) and isinstance(a.left, ast.Constant)
                and isinstance(a.left.value, str) and isinstance(b, ast.Compare) and len(b.ops) == 1 and isinstance(b.ops[0], ast.Is)
                and isinstance(b.comparators[0], ast.Constant) and b.comparators[0].value is None
                and isinstance(b.left, ast.Attribute) and b.left.attr == a.left.value
                and self.key(b.left.value) == self.key(a.comparators[0])):
            return None
        k = self.key(b.left)
        return k if k in self.spec.get("absent_or_none", ()) and k in self.places else None

    def s_If(self, st, rest, env, frame):
        t = st.test
        if (isinstance(t, ast.Compare) and len(t.ops) == 1 and isinstance(t.ops[0], ast.Is) and isinstance(t.left, ast.Name)
                and isinstance(t.comparators[0], ast.Constant) and t.comparators[0].value is None and not st.orelse
                and len(st.body) == 1 and isinstance(st.body[0], ast.Assign) and len(st.body[0].targets) == 1
                and isinstance(st.body[0].targets[0], ast.Name) and st.body[0].targets[0].id == t.left.id
                and t.left.id in env and env[t.left.id].typ.startswith("Option ")
                and t.left.id not in self.spec.get("locals", {}) and t.left.id not in self.spec.get("maybe_locals", {})):
            # `if x is None: x = e`: afterwards x is not None — it becomes a value of the inner type
            x = env[t.left.id]
            inner = elem_type(x.typ)
            v = self.strict(lambda: self.expr(st.body[0].value, env))
            if v.typ == inner:
                env2, line = self.bind(t.left, V(f"(Option.getD {x.term} {v.term})", inner), env, st)
                return line + "\n" + self.block(rest, env2, frame)
        an = self.absent_or_none(t)
        if (an is not None and not st.orelse and st.body and isinstance(st.body[-1], (ast.Return, ast.Raise))
                and env.get(("place", an)) is not None and env[("place", an)].typ.startswith("Option ")):
            # spec `absent_or_none`: `if 'a' not in ns or ns.a is None: …; return` on a place `ns.a : Option T` whose `none` stands for
            # "attribute absent, or None" — what follows runs with the value itself
            x = env[("place", an)]
            nv = self.fresh("py_n")
            env_s = dict(env)
            env_s[("place", an)] = V(nv, elem_type(x.typ))
            a = self.block(st.body, env, frame)
            b = self.block(rest, env_s, frame)
            return f"match {x.term} with\n| none => (\n{ind(a)})\n| some {nv} => (\n{ind(b)})"
        if (self.spec.get("narrow_not_none") and isinstance(t, ast.Compare) and len(t.ops) == 1 and isinstance(t.ops[0], ast.Is)
                and isinstance(t.left, ast.Name) and isinstance(t.comparators[0], ast.Constant) and t.comparators[0].value is None
                and t.left.id in env and env[t.left.id].typ.startswith("Option ") and t.left.id not in self.spec.get("maybe_locals", {})
                and not st.orelse and st.body and isinstance(st.body[-1], (ast.Return, ast.Raise, ast.Continue, ast.Break))):
            # spec `narrow_not_none`: `if x is None: …; return` — what follows runs with `x` the value itself
            x = env[t.left.id]
            inner_t = elem_type(x.typ)
            nv = self.fresh("py_n")
            env_s = dict(env)
            env_s[t.left.id] = V(nv, inner_t)
            a = self.block(st.body, env, frame)
            b = self.block(rest, env_s, frame)
            return f"match {x.term} with\n| none => (\n{ind(a)})\n| some {nv} => (\n{ind(b)})"
        if (self.spec.get("narrow_not_none") and isinstance(t, ast.Compare) and len(t.ops) == 1 and isinstance(t.ops[0], ast.IsNot)
                and isinstance(t.left, ast.Name) and isinstance(t.comparators[0], ast.Constant) and t.comparators[0].value is None
                and t.left.id in env and env[t.left.id].typ.startswith("Option ") and t.left.id not in self.spec.get("maybe_locals", {})):
            # spec `narrow_not_none`: `if x is not None: …` — inside, `x` is the value itself
            x = env[t.left.id]
            inner_t = elem_type(x.typ)
            nv = self.fresh("py_n")
            env_s = dict(env)
            env_s[t.left.id] = V(nv, inner_t)
            k = ContFrame(self, frame, rest)
            a = self.block(st.body, env_s, k)
            b = self.block(st.orelse, env, k)
            return f"match {x.term} with\n| some {nv} => (\n{ind(a)})\n| none => (\n{ind(b)})"
        if isinstance(st.test, (ast.BoolOp, ast.UnaryOp, ast.Name, ast.Attribute)):
            cond = self.as_condition(st.test, env)
            if cond is not st.test:
                st = ast.copy_location(ast.If(test=cond, body=st.body, orelse=st.orelse), st)
        if isinstance(st.test, ast.BoolOp):
            mark = (self.tmp, self.raises)
            try:
                self.eval(st.test, env)
            except Untranslatable as e:
                if "where Python may skip it" not in e.reason:
                    raise
                # `if A and B: X else: Y` is `if A: (if B: X else: Y) else: Y` (likewise `or`): B is evaluated only where
                # Python evaluates it
                self.tmp, self.raises = mark
                first, more = st.test.values[0], st.test.values[1:]
                later = more[0] if len(more) == 1 else ast.BoolOp(op=st.test.op, values=more)
                inner_if = ast.If(test=later, body=st.body, orelse=st.orelse)
                new = (ast.If(test=first, body=[inner_if], orelse=st.orelse) if isinstance(st.test.op, ast.And)
                       else ast.If(test=first, body=st.body, orelse=[inner_if]))
                for n in (inner_if, new):
                    ast.copy_location(n, st)
                    ast.fix_missing_locations(n)
                return self.block([new] + list(rest), env, frame)
            self.tmp, self.raises = mark
        c, hs = self.eval(st.test, env)
        if is_int(c.typ):
            c = V(f"(decide ({c.term} ≠ 0))", "Bool")                 # an int is true iff it is not 0
        if c.typ != "Bool":
            self.bad(st.test, f"condition of type {c.typ} (truthiness of anything but bools and ints is outside the subset)")

        def inner():
            simple = self.try_join(c, st.body, st.orelse, env, st)
            if simple is not None:
                text, env2 = simple
                return (text + "\n" if text else "") + self.block(rest, env2, frame)
            if rest and self.spec.get("join_raises") and self.state is not None:
                rj = self.try_rjoin(c, st.body, st.orelse, env, st, frame)
                if rj is not None:
                    head, env2 = rj
                    return head + ind(self.block(rest, env2, frame)) + ")"
            k = ContFrame(self, frame, rest)
            a = self.block(st.body, env, k)
            b = self.block(st.orelse, env, k)
            return f"if {c.term} then (\n{ind(a)})\nelse (\n{ind(b)})"
        return self.with_hoists(hs, env, frame, inner)

    def try_rjoin(self, c, body, orelse, env, node, frame):
        """spec `join_raises`: branches that assign and may RAISE (no return / break / continue), followed by more statements:
        the `if` is a `Res` value — `.ok <assigned locals> <state>` or `.raised e <state at the raise>` — so that what follows
        is rendered once. None when that form does not apply."""
        mod = self.assigned(body, [])
        self.assigned(orelse, mod)
        if any(isinstance(m, str) and m not in env and m in self.reserved for m in mod):
            return None
        if any(isinstance(m, tuple) or m == "__acts" for m in mod):
            return None
        saved = (self.tmp, self.raises)
        jf = RJoinFrame(self, mod)
        try:
            a = self.block(body, env, jf)
            b = self.block(orelse, env, jf)
        except _NotSimple:
            self.tmp, self.raises = saved
            return None
        loc = [m for m in mod if m != "__st"]
        if any(m not in e for e in jf.ends for m in loc):
            self.tmp, self.raises = saved
            return None
        self.raises = True
        typs, nns = [], []
        for m in loc:
            t, nn = None, True
            for e in jf.ends:
                t = e[m].typ if t is None else self.join_type(t, e[m].typ, node)
                nn = nn and e[m].nn
            typs.append(t)
            nns.append(nn)
        parts = [a, b]
        for j, e in enumerate(jf.ends):
            tup = "(" + ", ".join(self.coerce(e[m], t, node) for m, t in zip(loc, typs)) + ")"
            parts = [p.replace(f"\0J{id(jf)}_{j}\0", f"(.ok {tup} {e['__st'].term})") for p in parts]
        sty = " × ".join(ty_arg(t) if " " in ty(t) else ty(t) for t in typs) if loc else "Unit"
        stt = env["__st"].typ
        j = self.fresh("py_j")
        env_r = dict(env)
        env_r["__st"] = V("st'", stt)
        for m in loc:                  # at a raise inside a branch the locals it assigns are not known out here
            env_r.pop(m, None)
            env_r[("maybe", m)] = True
        env2 = dict(env)
        env2["__st"] = V("st'", stt)
        lines = []
        for idx, (m, t, nn) in enumerate(zip(loc, typs, nns)):
            proj = j if len(loc) == 1 else j + ".2" * idx + (".1" if idx < len(loc) - 1 else "")
            lines.append(f"let {lname(m)} : {ty(t)} := {proj}")
            env2[m] = V(lname(m), t, nn)
            env2.pop(("maybe", m), None)
        rty = f"PyRt.Res {ty_arg(stt)} {ty_arg(sty) if ' ' in sty else sty}"
        expr = f"if {c.term} then (\n{ind(parts[0])})\nelse (\n{ind(parts[1])})"
        call = self.split_join(node, env, expr, rty)
        head = (f"PyRt.tryR ({call})"
                f" (fun py_e st' => {frame.raise_('py_e', env_r)}) (fun {j if loc else '_'} st' =>\n"
                + "".join(ind(l) + "\n" for l in lines))
        return head, env2

    def split_join(self, node, env, expr, rty):
        """the `Res`-valued `if` of `try_rjoin` as a definition of its own (`<name>.join<k>`), the names it uses as parameters"""
        import re
        defined = set(re.findall(r"fun (py_t_\d+) =>", expr)) | set(re.findall(r"fun (py_v_\d+) ", expr))
        used = set(re.findall(r"\bpy_[tv]_\d+\b", expr))
        if used - defined:
            return f"(({expr}) : {rty})"
        self.njoins = getattr(self, "njoins", 0) + 1
        nm = f"{self.name}.join{self.njoins}"
        params = []
        for n, t in self.spec.get("externals", []):
            if re.search(r"(?<![\w.'«])" + re.escape(n) + r"(?![\w'»])", expr):
                params.append((n, RawType(t)))
        seen = {n for n, _ in params}
        for k_, v in env.items():
            if not isinstance(v, V) or not re.fullmatch(r"«?[A-Za-z_][\w]*»?'?", v.term):
                continue
            if v.term in seen:
                continue
            if re.search(r"(?<![\w.'«])" + re.escape(v.term) + r"(?![\w'»])", expr):
                params.append((v.term, v.typ))
                seen.add(v.term)
        sig = " ".join(f"({n} : {ty(t)})" for n, t in params)
        tp = "".join(f"{{{t} : Type}} " for t in self.spec.get("tparams", ()))
        self.aux_defs = getattr(self, "aux_defs", [])
        self.aux_defs.append(f"def {nm} {tp}{sig} : {rty} :=\n{ind(expr)}\n")
        return " ".join([nm] + [n for n, _ in params])

    def assigned(self, stmts, acc):
        for s in stmts:
            if isinstance(s, (ast.Assign, ast.AnnAssign, ast.Expr)) and self.key(s) in self.spec.get("stmt_updates", {}):
                if "__st" not in acc:
                    acc.append("__st")
            elif isinstance(s, (ast.Assign, ast.AugAssign, ast.AnnAssign)):
                for t in (s.targets if isinstance(s, ast.Assign) else [s.target]):
                    if isinstance(t, ast.Subscript) and isinstance(t.value, ast.Name) and self.key(t) not in self.places:
                        t = t.value
                    if isinstance(t, ast.Subscript) and self.key(t) not in self.places and self.key(t.value) in self.places:
                        t = t.value
                    key = t.id if isinstance(t, ast.Name) else ("place", self.key(t))
                    if isinstance(key, tuple) and key[1] in self.places and self.places[key[1]][3] == "s":
                        key = "__st"
                    if key not in acc:
                        acc.append(key)
                if (isinstance(s, ast.Assign) and isinstance(s.value, ast.Call) and self.key(s.value.func) in self.state_calls
                        and self.state_key(s.value) not in acc):
                    acc.append(self.state_key(s.value))
            elif isinstance(s, ast.If):
                self.assigned(s.body, acc)
                self.assigned(s.orelse, acc)
            elif isinstance(s, ast.Match):
                for c in s.cases:
                    self.assigned(c.body, acc)
            elif isinstance(s, (ast.For, ast.While)):
                self.assigned(s.body, acc)
            elif isinstance(s, ast.Expr) and self.key(s) in self.actions and "__acts" not in acc:
                acc.append("__acts")
            elif isinstance(s, ast.Expr) and isinstance(s.value, ast.Call) and self.key(s.value.func) in self.state_calls:
                if self.state_key(s.value) not in acc:
                    acc.append(self.state_key(s.value))
            elif isinstance(s, ast.Try):
                self.assigned(s.body, acc)
                for h in s.handlers:
                    self.assigned(h.body, acc)
            elif (isinstance(s, ast.Expr) and isinstance(s.value, ast.Call) and isinstance(s.value.func, ast.Attribute)
                  and s.value.func.attr in ("extend", "append", "update") and isinstance(s.value.func.value, ast.Name)):
                if s.value.func.value.id not in acc:
                    acc.append(s.value.func.value.id)
            elif (isinstance(s, ast.Expr) and isinstance(s.value, ast.Call) and isinstance(s.value.func, ast.Attribute)
                  and s.value.func.attr in ("clear", "extend") and self.key(s.value.func.value) in self.places):
                pk = self.key(s.value.func.value)
                key = "__st" if self.places[pk][3] == "s" else ("place", pk)
                if key not in acc:
                    acc.append(key)
            elif self.append_call(s) is not None:
                pk = self.append_call(s)[0]
                key = "__st" if self.places[pk][3] == "s" else ("place", pk)
                if key not in acc:
                    acc.append(key)
        return acc

    def state_key(self, call):
        """what a state call assigns (for joins and loop states): the state record"""
        if self.state is None:
            self.bad(call, "a state call in a definition whose spec has no `state` record")
        return "__st"

    def try_join(self, c, body, orelse, env, node):
        """both branches only assign: `let vars := if c then … else …`; None when a branch can leave or raise"""
        mod = self.assigned(body, [])
        self.assigned(orelse, mod)
        if any(isinstance(m, str) and m not in env and m in self.reserved for m in mod):
            return None
        saved = (self.tmp, self.raises)
        jf = JoinFrame(self, mod)
        try:
            a = self.block(body, env, jf)
            b = self.block(orelse, env, jf)
        except _NotSimple:
            self.tmp, self.raises = saved
            return None
        if any(m not in e for e in jf.ends for m in mod):
            self.tmp, self.raises = saved
            return None                      # a variable that is new in one branch only: per-path environments needed
        if not mod:
            return None if (a.strip("\0J_0123456789") or b.strip("\0J_0123456789")) else ("", env)
        text, env2 = jf.finish(env, node, lambda parts: f"if {c.term} then (\n{ind(parts[0])})\nelse (\n{ind(parts[1])})", [a, b])
        return text, env2

    def s_Match(self, st, rest, env, frame):
        subj = self.fresh("py_m")
        self.synthetic.add(subj)
        name = ast.Name(id=subj, ctx=ast.Load())
        chain = None
        cases = list(st.cases)
        if any(c.guard is not None for c in cases):
            self.bad(st, "match case with a guard")

        def test(p):
            if isinstance(p, ast.MatchValue):
                return ast.Compare(left=name, ops=[ast.Eq()], comparators=[p.value])
            if isinstance(p, ast.MatchSingleton) and p.value is None:
                return ast.Compare(left=name, ops=[ast.Is()], comparators=[ast.Constant(value=None)])
            if isinstance(p, ast.MatchOr):
                return ast.BoolOp(op=ast.Or(), values=[test(q) for q in p.patterns])
            if isinstance(p, ast.MatchClass) and isinstance(p.cls, ast.Name) and not p.patterns and not p.kwd_patterns:
                return ast.Call(func=ast.Name(id="isinstance", ctx=ast.Load()), args=[name, p.cls], keywords=[])
            self.bad(st, f"match pattern {type(p).__name__} (only constants, `|` and `_`)")
        for i, c in reversed(list(enumerate(cases))):
            if isinstance(c.pattern, ast.MatchAs) and c.pattern.pattern is None and c.pattern.name is None:
                if i != len(cases) - 1:
                    self.bad(st, "`case _` before the last case")
                chain = list(c.body)
            else:
                chain = [ast.If(test=test(c.pattern), body=list(c.body), orelse=chain or [])]
        assign = ast.Assign(targets=[ast.Name(id=subj, ctx=ast.Store())], value=st.subject)
        new = [assign] + (chain or [])
        for n in new:
            ast.copy_location(n, st)
            ast.fix_missing_locations(n)
        return self.block(new + list(rest), env, frame)

    def loop_iter(self, st, env):
        """the iterable of a `for`: → (Lean list term, [(python name, lean type, nn)] bound per element, hoists)"""
        it, tg = st.iter, st.target

        def names(t):
            ns = [t] if isinstance(t, ast.Name) else (list(t.elts) if isinstance(t, ast.Tuple) else None)
            if ns is None or not all(isinstance(n, ast.Name) for n in ns):
                self.bad(st, "loop target other than a name or a tuple of names")
            for n in ns:
                if n.id in self.reserved or not lname_ok(n.id):
                    self.bad(st, f"loop variable `{n.id}` clashes with a Lean name of the spec or of the emitted text")
            return [n.id for n in ns]
        if isinstance(it, ast.Call) and self.key(it.func) == "range" and 1 <= len(it.args) <= 3 and not it.keywords:
            (nm,) = names(tg) if isinstance(tg, ast.Name) else (None,)
            if nm is None:
                self.bad(st, "tuple target over range()")
            lo_node = it.args[0] if len(it.args) >= 2 else ast.Constant(value=0)
            hi_node = it.args[1] if len(it.args) >= 2 else it.args[0]
            lo, hs1 = self.eval(lo_node, env)
            hi, hs2 = self.eval(hi_node, env)
            if not (is_int(lo.typ) and is_int(hi.typ)):
                self.bad(st, "range bounds that are not ints")
            if len(it.args) == 3:
                stp, hs3 = self.eval(it.args[2], env)
                if not (stp.lit is not None and stp.lit > 0 and lo.typ == "Nat" and hi.typ == "Nat") or hs3:
                    self.bad(st, "range() with a step other than a positive literal over bounds known to be ≥ 0")
                return f"(PyRt.rangeStep {lo.term} {hi.term} {stp.lit})", [(nm, "Nat", True)], hs1 + hs2
            if lo.typ == "Nat" and hi.typ == "Nat":
                return f"(List.range' {lo.term} ({hi.term} - {lo.term}))", [(nm, "Nat", True)], hs1 + hs2
            return f"(PyRt.rangeL {self.to_int(lo)} {self.to_int(hi)})", [(nm, "Int", lo.nn)], hs1 + hs2
        if isinstance(it, ast.Call) and self.key(it.func) == "enumerate" and len(it.args) == 1 and not it.keywords:
            x, hs = self.eval(it.args[0], env)
            ns = names(tg)
            if x.typ != "Bytes" or len(ns) != 2:
                self.bad(st, "enumerate() of anything but bytes, or not unpacked into two names")
            return f"(PyRt.enumFrom 0 {x.term})", [(ns[0], "Nat", True), (ns[1], "Nat", True)], hs
        if isinstance(it, ast.Call) and self.key(it.func) == "zip" and len(it.args) == 2 and not it.keywords:
            x, hs = self.eval(it, env)
            ns = names(tg)
            if x.typ != "List (Nat × Nat)" or len(ns) != 2:
                self.bad(st, "zip() of anything but two byte strings, or not unpacked into two names")
            return x.term, [(ns[0], "Nat", True), (ns[1], "Nat", True)], hs
        x, hs = self.eval(it, env)
        if x.typ.startswith("Table ") and isinstance(tg, ast.Name):
            kt = split_table(x.typ)[0]
            return f"(PyRt.tableKeys {x.term})", [(names(tg)[0], kt, kt == "Nat")], hs      # a dict iterates over its keys
        if x.typ == "Bytes" and isinstance(tg, ast.Name):
            return f"(PyRt.bytesNat {x.term})", [(names(tg)[0], "Nat", True)], hs
        et = elem_type(x.typ) if x.typ.startswith("List ") else None
        if et is not None:
            ns = names(tg)
            parts = [p.strip() for p in et.split("×")] if len(ns) > 1 else [et]
            if len(parts) != len(ns):
                self.bad(st, f"loop target does not match the element type {et}")
            return x.term, [(n, t, t == "Nat") for n, t in zip(ns, parts)], hs
        self.bad(st, "loop over anything but range(), enumerate(bytes), bytes or a list of the spec")

    def obj_loop(self, st, rest, env, frame):
        """spec `obj_lists` {list place: element type}: `for x in <list of objects>` whose body only tests `x`, calls mutating
        methods of `x` (spec `mut_methods`: the external returns the object as it is afterwards) and may `return` —
        `PyRt.forObjs`: the list with the visited objects as they are afterwards, and whether the body returned"""
        pk = self.key(st.iter)
        et = self.spec["obj_lists"][pk]
        if not isinstance(st.target, ast.Name) or st.orelse:
            self.bad(st, "a loop over an object list with a tuple target or an else")
        nm = st.target.id
        cur = self.read_place(pk, env, st)
        env_b = dict(env)
        env_b[nm] = V(lname(nm), et)
        o = self.fresh("py_o")
        saved = (self.raises, self.tmp)
        self.raises = False
        body = self.block(list(st.body), env_b, ObjLoopFrame(self, nm, False))
        body_raises = self.raises
        if body_raises:
            # the body can raise: each round ends in (the object as it is then, how it ended)
            body = self.block(list(st.body), env_b, ObjLoopFrame(self, nm, True))
        self.raises = saved[0] or body_raises
        env2, line = self.bind(st.iter, V(f"{o}.1", self.places[pk][2]), env, st)
        ret = self.s_Return(ast.copy_location(ast.Return(value=None), st), [], env2, frame)
        if not body_raises:
            return (f"let {o} := PyRt.forObjs {cur.term} (fun ({lname(nm)} : {ty(et)}) =>\n{ind(body, 4)})\n{line}\n"
                    f"if {o}.2 then (\n{ind(ret)})\nelse (\n{ind(self.block(rest, env2, frame))})")
        return (f"let {o} := PyRt.forObjsE {cur.term} (fun ({lname(nm)} : {ty(et)}) =>\n{ind(body, 4)})\n{line}\n"
                f"PyRt.tryE {o}.2 (fun py_e => {frame.raise_('py_e', env2)}) (fun py_r =>\n"
                + ind(f"if py_r then (\n{ind(ret)})\nelse (\n{ind(self.block(rest, env2, frame))})") + ")")

    def s_For(self, st, rest, env, frame):
        if self.key(st.iter) in self.spec.get("obj_lists", {}):
            return self.obj_loop(st, rest, env, frame)
        if st.orelse:
            self.bad(st, "for … else")
        lst, bound, hs = self.loop_iter(st, env)
        ety = " × ".join(ty_arg(t) if " " in ty(t) else ty(t) for _, t, _ in bound)
        if len(bound) == 1:
            binder, pre = f"({lname(bound[0][0])} : {ety})", ""
        else:
            binder = f"(py_i : {ety})"
            pre = "".join(f"let {lname(n)} : {ty(t)} := py_i" + ".2" * k + (".1" if k < len(bound) - 1 else "") + "\n"
                          for k, (n, t, _) in enumerate(bound))
        return self.with_hoists(hs, env, frame, lambda: self.loop_core(
            st, rest, env, frame, bound, lambda init, fn, step: (
                (f"PyRt.forS {lst} {init} {fn}") if step else (lst, init, fn)), binder, pre))

    def s_While(self, st, rest, env, frame):
        if st.orelse:
            self.bad(st, "while … else")
        fuels = self.spec.get("fuel", {})
        hit = [v for k, v in fuels.items() if ast.unparse(st).startswith(k)]
        if len(hit) != 1:
            self.bad(st, "while loop for which the spec gives no fuel expression (an upper bound of the number of rounds; "
                         "running out of it is the distinct result `.fuel`, which the theorem must exclude)")
        fuel, hs = self.eval(ast.parse(hit[0], mode="eval").body, env)
        if hs or not fuel.nn:
            self.bad(st, "fuel expression that may raise or is not known to be ≥ 0")
        return self.loop_core(st, rest, env, frame, [], None, None, "", fuel=self.to_nat(fuel))

    def loop_core(self, st, rest, env, frame, bound, mk, binder, pre, fuel=None):
        """shared by `for` and `while`: loop state = the variables assigned in the body that exist before the loop"""
        has_ret = False

        def own(stmts):
            """statements of this loop's body, not those of loops nested in it"""
            for x in stmts:
                yield x
                if isinstance(x, (ast.For, ast.While)):
                    continue
                for f in ("body", "orelse", "handlers", "finalbody"):
                    sub = getattr(x, f, None)
                    if isinstance(sub, list):
                        yield from own([y for y in sub if isinstance(y, ast.stmt)])
                        for y in sub:
                            if isinstance(y, ast.ExceptHandler):
                                yield from own(y.body)
                if isinstance(x, ast.Match):
                    for c in x.cases:
                        yield from own(c.body)
        has_ret = any(isinstance(x, ast.Break) for x in own(st.body))
        for n in ast.walk(ast.Module(body=st.body, type_ignores=[])):
            if isinstance(n, (ast.For, ast.While)) and any(isinstance(m, ast.Return) for m in ast.walk(n)):
                self.bad(n, "return inside a nested loop")
            has_ret = has_ret or isinstance(n, ast.Return)
        step = has_ret or fuel is not None
        mod = [m for m in self.assigned(st.body, []) if m in env]      # loop state; other assigned names are loop-local
        # attribute state that must survive an exception raised in a later round: such a loop is left through `.ret`
        # with what the enclosing frame makes of the exception and the state at that moment
        keeps = (self.spec.get("raise_state") is not False
                 and any(m in ("__st", "__acts") or isinstance(m, tuple) for m in mod))
        envl = dict(env)
        if fuel is not None and isinstance(st.test, ast.Constant) and st.test.value is True:
            # `while True:` is only left through `break` (return, an exception): a name the body only STORES, that is new in
            # the loop and bound at every `break`, is bound after the loop. It joins the loop state with a default value
            # no path can read (the body never loads it; after the loop it comes from the round that broke out).
            loads = {x.id for x in ast.walk(ast.Module(body=st.body, type_ignores=[])) if isinstance(x, ast.Name) and isinstance(x.ctx, ast.Load)}
            cands = [n for n in self.assigned(st.body, []) if isinstance(n, str) and not n.startswith("__") and n not in env and n not in loads]
            if cands:
                saved0 = (self.tmp, self.raises, dict(self.seen_types))
                envb = dict(envl)
                for m in mod:
                    envb[m] = V(self.state_name(m), envl[m].typ, envl[m].nn)
                lf0 = LoopFrame(self, mod, frame, keeps)
                self.block(st.body, envb, lf0)
                self.tmp, self.raises, self.seen_types = saved0
                brks = [lf0.ends[j] for j in lf0.brk_idx]
                for n in cands:
                    if brks and all(n in e for e in brks):
                        t = brks[0][n].typ
                        for e in brks[1:]:
                            t = self.join_type(t, e[n].typ, st)
                        envl[n] = V(f"(default : {ty(t)})", t)
                        mod.append(n)
        for _ in range(4):
            # types / signs of the state at the head of the body must be what the body leaves (loop invariant)
            envb = dict(envl)
            for n, t, nn in bound:
                envb[n] = V(lname(n), t, nn)
            for m in mod:
                envb[m] = V(self.state_name(m), envl[m].typ, envl[m].nn)
            lf = LoopFrame(self, mod, frame if step else None, keeps)
            saved = (self.tmp, self.raises)
            self.raises = False
            cond = None
            if fuel is not None:
                cond = self.strict(lambda: self.expr(st.test, envb))
                if cond.typ != "Bool":
                    self.bad(st.test, f"condition of type {cond.typ}")
            body = self.block(st.body, envb, lf)
            body_raises = self.raises
            if keeps and body_raises and not step:
                step = True
                self.tmp, self.raises = saved
                continue
            stable = all(self.join_type(envl[m].typ, t, st) == envl[m].typ and (not envl[m].nn or n)
                         for m, (t, n) in zip(mod, lf.result_types()))
            if stable:
                self.raises = saved[1] or body_raises or step
                break
            for m, (t, n) in zip(mod, lf.result_types()):
                jt = self.join_type(envl[m].typ, t, st)
                envl[m] = V(self.coerce(envl[m], jt, st), jt, envl[m].nn and n)
            self.tmp, self.raises = saved
        else:
            self.bad(st, "loop state types do not stabilise")
        tys = [ty_arg(envl[m].typ) if " " in ty(envl[m].typ) else ty(envl[m].typ) for m in mod]
        sty = " × ".join(tys) if tys else "Unit"
        proj = lambda j: "py_s" if len(mod) == 1 else ("py_s" + ".2" * j + (".1" if j < len(mod) - 1 else ""))
        unpack = "".join(f"let {self.state_name(m)} : {ty(envl[m].typ)} := {proj(j)}\n" for j, m in enumerate(mod))
        init = "(" + ", ".join(envl[m].term for m in mod) + ")" if mod else "()"
        body = lf.fill(body, [envl[m].typ for m in mod], body_raises, step)
        env2 = dict(env)
        for m in mod:
            env2[m] = V(self.state_name(m), envl[m].typ, envl[m].nn)
        for n in self.assigned(st.body, []) + [b[0] for b in bound]:
            if n not in mod and n in env2:
                del env2[n]                                          # bound after the loop only if it ran: not usable
            if n not in mod and isinstance(n, str):
                env2[("maybe", n)] = True
        after = lambda: ind(unpack + self.block(rest, env2, frame))
        if fuel is not None:
            fn = f"(fun (py_s : {sty}) =>\n{ind(unpack + body, 4)})"
            cf = f"(fun (py_s : {sty}) =>\n{ind(unpack + cond.term, 4)})"
            loop = f"PyRt.whileS {fuel} {init} {cf} {fn}"
        else:
            fn = f"(fun (py_s : {sty}) {binder} =>\n{ind(unpack + pre + body, 4)})"
            if self.spec.get("split_loops"):
                rty = (f"Except PyRt.Err (PyRt.Step ({sty}) (\0RTYPE\0))" if step else (f"Except PyRt.Err ({sty})" if body_raises else sty))
                fn = self.split_loop(st, env, sty, binder, unpack + pre + body, [b[0] for b in bound], mod, rty)
            loop = mk(init, fn, step)
        if step:
            return (f"PyRt.loopS ({loop}) (fun py_e => {frame.raise_('py_e', env)}) (fun py_r => py_r) (fun py_s =>\n"
                    + after() + ")")
        lst, init, fn = loop
        if body_raises:
            return (f"PyRt.tryE (PyRt.forE {lst} {init} {fn}) (fun py_e => {frame.raise_('py_e', env)}) (fun py_s =>\n"
                    + after() + ")")
        return (f"let py_s : {sty} := List.foldl {fn} {init} {lst}\n" + unpack + self.block(rest, env2, frame))

    def split_loop(self, st, env, sty, binder, body, bound_names, mod, rty):
        """spec `split_loops`: the round of a pure `for` fold becomes a definition of its own (`<name>.loop<k>`), with the names
        it uses from outside as parameters — the main definition stays small and lemmas can name the round"""
        import re
        self.nloops = getattr(self, "nloops", 0) + 1
        nm = f"{self.name}.loop{self.nloops}"
        inner = set(bound_names) | {self.state_name(m) for m in mod} | {"py_s", "py_i"}
        if re.search(r"\bpy_t_\d+\b", body):
            defined = set(re.findall(r"fun (py_t_\d+) =>", body))
            used = set(re.findall(r"\bpy_t_\d+\b", body))
            if used - defined:
                self.bad(st, "a loop body that uses a temporary of the enclosing statement (cannot be split off)")
        params = []
        for n, t in self.spec.get("externals", []):
            if re.search(r"(?<![\w.'«])" + re.escape(n) + r"(?![\w'»])", body):
                params.append((n, RawType(t)))
        seen = {n for n, _ in params}
        for k_, v in env.items():
            if not isinstance(v, V) or not re.fullmatch(r"«?[A-Za-z_][\w]*»?'?", v.term):
                continue
            if v.term in seen or v.term in inner:
                continue
            if re.search(r"(?<![\w.'«])" + re.escape(v.term) + r"(?![\w'»])", body):
                params.append((v.term, v.typ))
                seen.add(v.term)
        sig = " ".join(f"({n} : {ty(t)})" for n, t in params)
        tp = "".join(f"{{{t} : Type}} " for t in self.spec.get("tparams", ()))
        self.aux_defs = getattr(self, "aux_defs", [])
        self.aux_defs.append(f"def {nm} {tp}{sig} (py_s : {sty}) {binder} : {rty} :=\n{ind(body)}\n")
        return "(" + " ".join([nm] + [n for n, _ in params]) + ")"

    def state_name(self, m):
        if m == "__acts":
            return "acts'"
        if m == "__st":
            return "st'"
        if isinstance(m, tuple):
            return lname(self.places[m[1]][1]) + "'"
        return lname(m)


class ContFrame(Frame):
    """the statements after an `if` whose branches can leave: they are continued in each branch"""
    def __init__(self, tr, parent, rest):
        self.tr, self.parent, self.rest = tr, parent, rest

    def fall(self, env): return self.tr.block(self.rest, env, self.parent)
    def ret(self, val, env, node): return self.parent.ret(val, env, node)
    def raise_(self, e, env): return self.parent.raise_(e, env)
    def cont(self, env, node): return self.parent.cont(env, node)
    def brk(self, env, node): return self.parent.brk(env, node)


class TryFrame(Frame):
    """the body of a `try`: an exception one of the handlers names runs that handler (with the variables as they are
    at the raise), then what follows the statement; any other goes on outwards"""
    def __init__(self, tr, after, handlers):
        self.tr, self.after, self.handlers = tr, after, handlers

    def fall(self, env): return self.after.fall(env)
    def ret(self, val, env, node): return self.after.ret(val, env, node)
    def cont(self, env, node): return self.after.cont(env, node)
    def brk(self, env, node): return self.after.brk(env, node)

    def raise_(self, e, env):
        out = self.after.raise_(e, env)
        for kind, body in reversed(self.handlers):
            # (`fuel` is no Python exception: it is never caught)
            test = f"decide ({e} ≠ PyRt.Err.fuel)" if kind == "*" else f"decide ({e} = PyRt.Err.{kind})"
            out = f"(if {test} then (\n{ind(self.tr.block(body, env, self.after))})\nelse {out})"
        return out


class JoinFrame(Frame):
    """branches that only assign: each ends in the tuple of the variables either of them assigns"""
    def __init__(self, tr, mod):
        self.tr, self.mod, self.ends = tr, mod, []

    def fall(self, env):
        self.ends.append(dict(env))
        return f"\0J{id(self)}_{len(self.ends) - 1}\0"

    def ret(self, val, env, node): raise _NotSimple()
    def raise_(self, e, env): raise _NotSimple()
    def cont(self, env, node): raise _NotSimple()
    def brk(self, env, node): raise _NotSimple()

    def finish(self, env, node, combine, parts):
        tr, mod = self.tr, self.mod
        typs, nns = [], []
        for m in mod:
            t, nn = None, True
            for e in self.ends:
                t = e[m].typ if t is None else tr.join_type(t, e[m].typ, node)
                nn = nn and e[m].nn
            if isinstance(m, tuple):
                t = tr.places[m[1]][2]
            typs.append(t)
            nns.append(nn)
        for j, e in enumerate(self.ends):
            tup = ", ".join(tr.coerce(e[m], t, node) for m, t in zip(mod, typs))
            tup = tup if len(mod) == 1 else f"({tup})"
            parts = [p.replace(f"\0J{id(self)}_{j}\0", tup) for p in parts]
        sty = " × ".join(ty_arg(t) if " " in ty(t) else ty(t) for t in typs)
        env2 = dict(env)
        if len(mod) == 1:
            n = tr.state_name(mod[0])
            env2[mod[0]] = V(n, typs[0], nns[0])
            return f"let {n} : {sty} := {combine(parts)}", env2
        j = tr.fresh("py_j")
        lines = [f"let {j} : {sty} := {combine(parts)}"]
        for idx, (m, t, nn) in enumerate(zip(mod, typs, nns)):
            n = tr.state_name(m)
            proj = j + ".2" * idx + (".1" if idx < len(mod) - 1 else "")
            lines.append(f"let {n} : {ty(t)} := {proj}")
            env2[m] = V(n, t, nn)
        return "\n".join(lines), env2


class ObjLoopFrame(Frame):
    """the body of a loop over a list of objects (`Translator.obj_loop`): ends in (the object afterwards, returned?) — when the
    body can raise, in (the object as it is then, `.ok returned?` / `.error e`)"""
    def __init__(self, tr, nm, raising):
        self.tr, self.nm, self.raising = tr, nm, raising

    def fall(self, env):
        return f"({env[self.nm].term}, (Except.ok false : Except PyRt.Err Bool))" if self.raising else f"({env[self.nm].term}, false)"

    def ret(self, val, env, node):
        if val.typ != "NoneType":
            self.tr.bad(node, "`return <value>` inside a loop over an object list")
        return f"({env[self.nm].term}, (Except.ok true : Except PyRt.Err Bool))" if self.raising else f"({env[self.nm].term}, true)"

    def raise_(self, e, env):
        self.tr.raises = True
        return f"({env[self.nm].term}, (Except.error {e} : Except PyRt.Err Bool))"

    def cont(self, env, node): return self.fall(env)
    def brk(self, env, node): self.tr.bad(node, "break inside a loop over an object list")


class RJoinFrame(JoinFrame):
    """branches that assign and may raise, as one `Res` value (`Translator.try_rjoin`)"""
    def raise_(self, e, env):
        return f"(.raised {e} {env['__st'].term})"


class LoopFrame(Frame):
    """a loop body: ends in the state tuple (wrapped in `.ok` when the body can raise; `.ok (.next …)` in a loop that can
    be left by `return` or is a `while`: there `return` ends in `.ok (.ret <the definition's result>)`)"""
    def __init__(self, tr, mod, parent=None, keeps=False):
        self.tr, self.mod, self.ends, self.parent, self.keeps = tr, mod, [], parent, keeps
        self.brk_idx = []

    def fall(self, env):
        self.ends.append(dict(env))
        return f"\0L{id(self)}_{len(self.ends) - 1}\0"

    def ret(self, val, env, node):
        if self.parent is None:
            self.tr.bad(node, "return inside a loop body")
        return f".ok (.ret {self.parent.ret(val, env, node)})"

    def cont(self, env, node): return self.fall(env)          # `continue`: the round ends here, with the state as it is
    def raise_(self, e, env):
        if self.keeps and self.parent is not None:
            return f".ok (.ret {self.parent.raise_(e, env)})"
        return f".error {e}"

    def brk(self, env, node):
        if self.parent is None:
            self.tr.bad(node, "break inside a loop body")
        self.ends.append(dict(env))
        self.brk_idx.append(len(self.ends) - 1)
        return f"\0K{id(self)}_{len(self.ends) - 1}\0"

    def result_types(self):
        out = []
        for m in self.mod:
            t, nn = None, True
            for e in self.ends:
                t = e[m].typ if t is None else self.tr.join_type(t, e[m].typ, None)
                nn = nn and e[m].nn
            if t is None:                      # every path through the body returns
                t, nn = None, True
            out.append((t, nn))
        return out

    def fill(self, body, typs, raises, step=False):
        for j, e in enumerate(self.ends):
            tup = "(" + ", ".join(self.tr.coerce(e[m], t, None) for m, t in zip(self.mod, typs)) + ")" if self.mod else "()"
            body = body.replace(f"\0L{id(self)}_{j}\0", f".ok (.next {tup})" if step else (f".ok {tup}" if raises else tup))
            body = body.replace(f"\0K{id(self)}_{j}\0", f".ok (.brk {tup})")
        return body


class TopFrame(Frame):
    """the exits of the definition itself"""
    def __init__(self, tr, fragment):
        self.tr, self.fragment = tr, fragment
        self.falls = False

    def state(self, env):
        tr = self.tr
        if tr.state is not None:
            if tr.actions:
                tr.bad(None, "a definition over a state record with actions")
            return env["__st"].term
        fields = []
        for k, (_, ln, typ, mode) in tr.places.items():
            if mode != "r":
                v = env[("place", k)]
                if v.term == lname(ln):
                    tr.init_used.add(k)
                fields.append(f"{ln} := {v.term}")
        for n, typ in tr.outs:
            v = env.get(n)
            if v is None:
                tr.bad(None, f"result local `{n}` is not assigned on every path")
            fields.append(f"{n} := {tr.coerce(v, typ, None)}")
        if tr.actions:
            fields.append(f"acts := {env['__acts'].term}")
        return "{ " + ", ".join(fields) + " }" if fields else None

    def result(self, val, env, err=None):
        tr = self.tr
        if err is not None and tr.spec.get("raise_state") is False:
            return f"(.error {err})"                       # a constructor: the object under construction is discarded
        st = self.state(env)
        if err is not None:
            return f"(.raised {err} {st})" if st else f"(.error {err})"
        if st is None:
            return f"(.ok {val})" if tr.raises_final else val
        if tr.raises_final and tr.spec.get("raise_state") is False:
            return f"(.ok {st})" if tr.value_type == "Unit" else f"(.ok ({val}, {st}))"
        if tr.raises_final:
            return f"(.ok {val} {st})"
        return st if tr.value_type == "Unit" else f"({val}, {st})"

    def fall(self, env):
        tr = self.tr
        if tr.exits:
            return self.result("PyRt.Exit.fall", env)
        if tr.state is not None and tr.outs:
            # a fragment over a state record: its value is the tuple of its result locals
            vals = []
            for n, typ in tr.outs:
                if env.get(n) is None:
                    tr.bad(None, f"result local `{n}` is not assigned on every path")
                vals.append(tr.coerce(env[n], typ, None))
            return self.result("(" + ", ".join(vals) + ")", env)
        if self.fragment or tr.ret == "None":
            return self.result("()", env)
        if tr.ret.startswith("Option "):
            return self.result(f"(none : {ty(tr.ret)})", env)
        tr.bad(None, f"the end of the body can be reached (Python returns None) but the spec declares the result {tr.ret}")

    def ret(self, val, env, node):
        tr = self.tr
        if tr.exits:
            if val.typ != "NoneType":
                tr.bad(node, "return with a value inside a fragment")
            return self.result("PyRt.Exit.ret", env)
        if self.fragment:
            tr.bad(node, "return inside a fragment (spec without `exits`)")
        if tr.ret == "None":
            if val.typ != "NoneType":
                tr.bad(node, "a value is returned but the spec declares a procedure")
            return self.result("()", env)
        return self.result(tr.coerce(val, tr.ret, node), env)

    def raise_(self, e, env):
        return self.result(None, env, err=e)

    def brk(self, env, node):
        self.tr.bad(node, "break outside a loop")

    def cont(self, env, node):
        if not self.tr.exits:
            self.tr.bad(node, "continue (spec without `exits`)")
        return self.result("PyRt.Exit.cont", env)


# --------------------------------------------------------------------------------------------------- driver
def find_function(tree, qualname):
    cur = tree.body
    node = None
    for part in qualname.split("."):
        node = next((n for n in cur if isinstance(n, (ast.FunctionDef, ast.ClassDef)) and n.name == part), None)
        if node is None:
            return None
        cur = node.body
    return node if isinstance(node, ast.FunctionDef) else None


def starts(st, text):
    return ast.unparse(st).startswith(text)


def blocks_of(fn):
    """every statement list inside the function"""
    out = []

    def walk(stmts):
        out.append(stmts)
        for s in stmts:
            for f in ("body", "orelse", "finalbody"):
                sub = getattr(s, f, None)
                if isinstance(sub, list) and sub and isinstance(sub[0], ast.stmt):
                    walk(sub)
            if isinstance(s, ast.Match):
                for c in s.cases:
                    walk(c.body)
            if isinstance(s, ast.Try):
                for h in s.handlers:
                    walk(h.body)
    walk(fn.body)
    return out


def select(fn, sel, fname):
    if "within" in sel:
        # restrict the search to the body of the (unique) compound statement starting with this text
        outer = list({id(s): s for b in blocks_of(fn) for s in b if starts(s, sel["within"])}.values())
        if len(outer) != 1 or not hasattr(outer[0], "body"):
            raise Untranslatable(fname, fn, f"fragment anchor within={sel['within']!r} matches {len(outer)} statements")
        fn = outer[0]
        sel = {k: v for k, v in sel.items() if k != "within"}
    if "lambda_in" in sel:
        # the body of the one lambda expression inside the statement starting with this text (a sort/min key)
        outer = list({id(s): s for b in blocks_of(fn) for s in b if starts(s, sel["lambda_in"])}.values())
        lams = [n for o in outer for n in ast.walk(o) if isinstance(n, ast.Lambda)]
        if len(outer) != 1 or len(lams) != 1:
            raise Untranslatable(fname, fn, f"fragment anchor lambda_in={sel['lambda_in']!r} matches {len(outer)} statements with {len(lams)} lambdas")
        return "expr", lams[0].body
    if "if_test" in sel:
        hits = [s for b in blocks_of(fn) for s in b if isinstance(s, ast.If) and starts(s, sel["if_test"])]
        # an `elif` is the sole statement of an `orelse` block and is found once there
        hits = list({id(h): h for h in hits}.values())
        if len(hits) != 1:
            raise Untranslatable(fname, fn, f"fragment anchor {sel['if_test']!r} matches {len(hits)} if statements")
        return "expr", hits[0].test
    hits = [(b, i) for b in blocks_of(fn) for i, s in enumerate(b) if starts(s, sel["start"])]
    if "end" in sel:
        # the start anchor may occur elsewhere as long as only one occurrence is followed by the end anchor in its block
        hits = [(b, i) for b, i in hits if sum(1 for j in range(i, len(b)) if starts(b[j], sel["end"])) == 1]
    if len(hits) != 1:
        raise Untranslatable(fname, fn, f"fragment anchors {sel!r} match {len(hits)} places")
    b, i = hits[0]
    if "end" not in sel:
        return "stmts", b[i:i + 1]
    j = next(j for j in range(i, len(b)) if starts(b[j], sel["end"]))
    return "stmts", b[i:j + 1]


def translate(func, spec):
    """`func`: source text of one function or an `ast.FunctionDef`. Returns the Lean text of the definition."""
    if isinstance(func, str):
        tree = ast.parse(textwrap.dedent(func))
        func = next((n for n in tree.body if isinstance(n, ast.FunctionDef)), None)
        if func is None:
            raise Untranslatable(spec.get("name", "?"), tree, "no function definition in the source text")
    fname = func.name
    for attempt in (True, False):
        tr = Translator(fname, spec)
        text = _translate(tr, func, spec, attempt)
        if tr.raises == attempt or spec.get("always_res"):
            return text
    return text


def _translate(tr, func, spec, assume_raises):
    fname = func.name
    if func.decorator_list:
        tr.bad(func, "decorated function")
    a = func.args
    if a.vararg or a.kwarg or a.kwonlyargs or a.posonlyargs:
        tr.bad(func, "parameter kinds other than plain positional")
    pnames = [x.arg for x in a.args]
    sel = spec.get("select")
    fragment = sel is not None
    params = list(spec.get("params", []))
    if not fragment:
        declared = [p[0] for p in params]
        roots = {k.split(".")[0].split("[")[0] for k in tr.places} | {k.split(".")[0] for k in tr.consts}
        for p in pnames:
            if p not in declared and p != "self" and p not in roots:
                # a parameter that is never used is fine; a used one shows up as an unknown name
                pass
    tr.assigned_anywhere = {n.id for n in ast.walk(func) if isinstance(n, ast.Name) and isinstance(n.ctx, ast.Store)}
    tr.reserved = ({p[1] for p in tr.places.values() if p[3] != "s"} | {p[1] + "'" for p in tr.places.values() if p[3] != "s"}
                   | ({tr.state["param"]} if tr.state is not None else set()))
    env = {}
    binders = [(n, RawType(t)) for n, t in spec.get("externals", [])]         # functions outside the model: parameters
    for n, t in spec.get("maybe_locals", {}).items():
        ot = "Option " + (ty_arg(t) if " " in t else t)
        env[n] = V(f"(none : {ty(ot)})", ot)
    for n, t in params:
        if not lname_ok(n):
            tr.bad(func, f"parameter `{n}` clashes with a name of the emitted text")
        env[n] = V(lname(n), t)
        binders.append((lname(n), t))
    place_binders = []
    for k, (_, ln, typ, mode) in tr.places.items():
        if mode == "s":
            continue
        v = V(lname(ln), typ)
        env[("place", k)] = v
        place_binders.append((k, lname(ln), typ))
    if tr.state is not None:
        env["__st"] = V(tr.state["param"], tr.state["type"])
    elif any(p[3] == "s" for p in tr.places.values()):
        tr.bad(func, "places of mode \"s\" in a spec without a `state` record")
    if tr.actions:
        env["__acts"] = V(f"([] : List {spec['action_type']})", f"List {spec['action_type']}")
    tr.raises_final = assume_raises
    stateful = any(p[3] != "r" for p in tr.places.values()) or bool(tr.outs) or bool(tr.actions) or tr.state is not None
    kind, body = ("stmts", func.body) if not fragment else select(func, sel, fname)
    if kind == "expr":
        tr.hoists = []
        v = tr.expr(body, env)
        if tr.hoists:
            tr.bad(body, "an expression fragment that may raise")
        tr.raises = False
        tr.value_type = ty(v.typ)
        text, rtype = v.term, ty(v.typ)
        stateful = False
    else:
        tr.value_type = "PyRt.Exit" if tr.exits else ("Unit" if (fragment or tr.ret == "None") else ty(tr.ret))
        if tr.state is not None and tr.outs:
            tr.value_type = " × ".join(ty_arg(t) if " " in ty(t) else ty(t) for _, t in tr.outs)
        top = TopFrame(tr, fragment)
        text = tr.block(list(body), env, top)
        vt = tr.value_type
        stp = "".join(" " + t for t in spec.get("st_tparams", ()))
        stn = (f"({tr.name}.St{stp})" if stp else f"{tr.name}.St") if tr.state is None else ty_arg(tr.state["type"])
        if stateful:
            plain = stn if vt == "Unit" else f"({ty_arg(vt)} × {stn})"
            rtype = ((f"Except PyRt.Err {plain}" if spec.get("raise_state") is False else f"PyRt.Res {stn} {ty_arg(vt)}")
                     if tr.raises_final else (stn if vt == "Unit" else f"{ty_arg(vt)} × {stn}"))
        else:
            rtype = f"Except PyRt.Err {ty_arg(vt)}" if tr.raises_final else vt
    out = []
    if stateful and kind != "expr" and tr.state is None:
        fields = [f"  {ln} : {ty(typ)}" for _, ln, typ, mode in tr.places.values() if mode != "r"]
        fields += [f"  {n} : {ty(t)}" for n, t in tr.outs]
        if tr.actions:
            fields.append(f"  acts : List {spec['action_type']}")
        stb = "".join(f" ({t} : Type)" for t in spec.get("st_tparams", ()))
        out.append(f"structure {tr.name}.St{stb} where\n" + "\n".join(fields) + "\n  deriving DecidableEq, Repr\n")
    # a written place whose initial value is never looked at is not a parameter
    import re
    for k, ln, typ in place_binders:
        # (an unused parameter would be harmless; the initial value is referenced iff its name occurs unprimed,
        #  other than as a field name of the result record)
        used = re.search(r"(?<![\w.'«])" + re.escape(ln) + r"(?![\w'»]| :=)", text) is not None
        if tr.places[k][3] == "r" or k in tr.init_used or used:
            binders.append((ln, typ))
    if tr.state is not None:
        binders.append((tr.state["param"], tr.state["type"]))
    sig = "".join(f"{{{t} : Type}} " for t in spec.get("tparams", ())) + " ".join(f"({n} : {ty(t)})" for n, t in binders)
    # (a loop body may have been rendered several times while the types of the loop state settled: keep the rounds in use)
    aux = list(getattr(tr, "aux_defs", []))
    used, frontier = [], [text]
    while frontier:
        cur = frontier.pop()
        for a in aux:
            nm_ = a.split()[1]
            if a not in used and (nm_ + " ") in cur.replace(")", " ").replace("\n", " "):
                used.append(a)
                frontier.append(a.split(":=", 1)[1])
    out.extend(a.replace("\0RTYPE\0", rtype) for a in aux if a in used)
    out.append(f"def {tr.name} {sig} : {rtype} :=\n{ind(text)}\n")
    return "\n".join(out)


def source_info(path_text, func):
    """line range and hash of the function's source text"""
    lines = path_text.splitlines()
    seg = "\n".join(lines[func.lineno - 1:func.end_lineno])
    return func.lineno, func.end_lineno, hashlib.sha256(seg.encode()).hexdigest()[:16]
