"""Replays of lean/TLX/Props/ExportFaults.lean on the REAL tool (toy world):

 1. bystanders (TLS + QUIC) next to a QUIC victim with damaged datagrams (random payloads, truncation, a wrong version)
    and next to a TLS victim with garbage after the handshake: their exported frames are those of the capture without the
    victim's packets (`export_bystander_unaffected_quic`); the run ends normally (`payloads_never_abort`).
 2. `cut-after` on a TLS victim and on a QUIC victim: a prefix per direction / of the datagram list
    (`export_victim_cut_tls`, `export_victim_cut_quic`).
 3. robustness observation OUTSIDE the model's inputs: a `-s` file that is not valid UTF-8.

    PYTHONPATH=$TLX_REPO:harness python harness/export_faults_replay.py
"""
import os
import random
import subprocess
import tempfile

import e2e
import gen_quic
import quic_pipeline_corr as qp
import tool
import wire


def rows(out):
    return [] if not out else [(us, d["src"], d["sport"], d["dst"], d["dport"], d["payload"]) for us, d in wire.read_output(out)]


def of_ip(rs, ip):
    return [r for r in rs if r[1] == ip or r[3] == ip]


def ends(frame):
    d = wire.parse_frame(frame)
    return d["src"], d["dst"]


def main(seed=4):
    rng = random.Random(seed)
    res = {}
    with qp.both_worlds():
        sc = e2e.Scenario(rng, [(0x009C, "tls12", False)], sports=[443])
        tls = list(sc.items)
        qa, _ = gen_quic.random_connection(rng, 0, features={"endpoints": {"sport": 443}})
        qv, _ = gen_quic.random_connection(rng, 1, features={"endpoints": {"sport": 443}})
        base = tls[0][1]
        A = [("pkt", base + 7 + (ts - qa.items[0][1]), fr) for _, ts, fr in qa.items]
        Vq = [("pkt", base + 11 + (ts - qv.items[0][1]), fr) for _, ts, fr in qv.items]
        kl = "\n".join(list(sc.keylog) + qa.keylog_lines() + qv.keylog_lines()) + "\n"
        vip = wire.parse_frame(Vq[0][2])["src"]
        aip = wire.parse_frame(A[0][2])["src"]
        tip = wire.parse_frame(tls[0][2])["src"]

        # 1. damage the QUIC victim
        dmg = []
        for i, (k, ts, fr) in enumerate(Vq):
            d = wire.parse_frame(fr)
            pl = bytearray(d["payload"])
            if i % 3 == 1:
                pl = bytearray(rng.randbytes(len(pl)))
                pl[0] |= 0x40
            elif i % 3 == 2:
                pl = pl[:max(1, len(pl) // 3)]
            elif i > 0 and len(pl) > 5 and pl[0] & 0x80:
                pl[1:5] = b"\xfa\xce\xb0\x0c"
            dmg.append((k, ts, qp.rebuild_udp(fr, bytes(pl))))
        merged = sorted(tls + A + dmg, key=lambda it: it[1])
        without = sorted(tls + A, key=lambda it: it[1])
        rm = tool.run(wire.pcapng(merged), kl, [])
        rw = tool.run(wire.pcapng(without), kl, [])
        by_m = [r for r in rows(rm.out) if r[1] != vip and r[3] != vip]
        print(f"[1] damaged QUIC victim: run ended normally: {not rm.crashed}; bystanders' frames in the merged run "
              f"{len(by_m)} (TLS {len(of_ip(by_m, tip))}, QUIC {len(of_ip(by_m, aip))}), without the victim {len(rows(rw.out))}; "
              f"identical: {by_m == rows(rw.out)}")
        res["bystanders-quic-victim"] = by_m == rows(rw.out) and not rm.crashed

        # TLS victim: garbage after the handshake
        sc2 = e2e.Scenario(rng, [(0x002F, "tls12", False)], sports=[443])
        t0 = base + 13 - sc2.items[0][1]
        Vt = []
        for i, (k, ts, fr) in enumerate(sc2.items):
            d = wire.parse_frame(fr)
            if i > len(sc2.items) // 2 and d["payload"]:
                fr = wire.tcp_frame(d["smac"], d["dmac"], d["src"], d["dst"], d["sport"], d["dport"], d["seq"], d["ack"],
                                    d["flags"], rng.randbytes(len(d["payload"])))
            Vt.append((k, ts + t0, fr))
        vtip = wire.parse_frame(Vt[0][2])["src"]
        kl2 = kl + "\n".join(sc2.keylog) + "\n"
        rm2 = tool.run(wire.pcapng(sorted(tls + A + Vt, key=lambda it: it[1])), kl2, [])
        rw2 = tool.run(wire.pcapng(without), kl2, [])
        by2 = [r for r in rows(rm2.out) if r[1] != vtip and r[3] != vtip]
        print(f"[1] damaged TLS victim: run ended normally: {not rm2.crashed}; bystanders identical: {by2 == rows(rw2.out)}")
        res["bystanders-tls-victim"] = by2 == rows(rw2.out) and not rm2.crashed

        # 2. cut-after
        full = tool.run(wire.pcapng(sorted(tls + A + Vq, key=lambda it: it[1])), kl, [])
        n = len(Vq) * 2 // 3
        cutq = tool.run(wire.pcapng(sorted(tls + A + Vq[:n], key=lambda it: it[1])), kl, [])
        fv, cv = [r[5] for r in of_ip(rows(full.out), vip)], [r[5] for r in of_ip(rows(cutq.out), vip)]
        okq = cv[:-1] == fv[:len(cv) - 1] and (not cv or fv[len(cv) - 1][:len(cv[-1])] == cv[-1])
        print(f"[2] QUIC victim cut after {n}/{len(Vq)} datagrams: exports {len(cv)} of {len(fv)} frames; CutRel holds: {okq}; "
              f"bystanders identical: {[r for r in rows(cutq.out) if vip not in (r[1], r[3])] == [r for r in rows(full.out) if vip not in (r[1], r[3])]}")
        res["cut-quic"] = okq
        m = len(tls) * 2 // 3
        fullt = tool.run(wire.pcapng(sorted(tls + A, key=lambda it: it[1])), kl, [])
        cutt = tool.run(wire.pcapng(sorted(tls[:m] + A, key=lambda it: it[1])), kl, [])

        def dirb(rs, ip):
            return b"".join(r[5] for r in rs if r[1] == ip)
        ft, ct = of_ip(rows(fullt.out), tip), of_ip(rows(cutt.out), tip)
        sip = wire.parse_frame(tls[0][2])["dst"]
        okt = all(dirb(ft, e).startswith(dirb(ct, e)) for e in (tip, sip))
        print(f"[2] TLS victim cut after {m}/{len(tls)} packets: exports {len(ct)} of {len(ft)} frames; byte prefix in both "
              f"directions: {okt}; frame prefix: {ct == ft[:len(ct)]}")
        res["cut-tls"] = okt

    # 3. `-s` file that is not UTF-8 (CLI, real world)
    fr = wire.tcp_frame(b"\x02" * 6, b"\x04" * 6, "10.0.0.1", "10.0.0.2", 50000, 443, 1, 1, 0x18, b"\x16\x03\x03\x00\x01\x00")
    with tempfile.TemporaryDirectory() as d:
        open(os.path.join(d, "c.pcapng"), "wb").write(wire.pcapng([("pkt", 1700000000000000, fr)]))
        open(os.path.join(d, "k.log"), "wb").write(b"# caf\xe9\nCLIENT_RANDOM " + b"ab" * 32 + b" " + b"cd" * 48 + b"\n")
        p = subprocess.run(["/venv/bin/python", "-W", "ignore", "-m", "tlexport.main", "-i", os.path.join(d, "c.pcapng"),
                            "-s", os.path.join(d, "k.log"), "-o", os.path.join(d, "o.pcapng")],
                           cwd=os.environ.get("TLX_REPO", "/repo"), capture_output=True, text=True)
        last = (p.stderr.strip().splitlines() or ["-"])[-1]
        print(f"[3] `-s` file with a latin-1 comment line: exit {p.returncode}: {last[:100]}")
        res["keyfile-utf8"] = p.returncode
    return res


if __name__ == "__main__":
    main()
