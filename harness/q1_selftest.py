"""Standalone run of the three QUIC component correspondences (q1 work package):
   cd /root/wt/q1 && PYTHONPATH=/repo:harness /venv/bin/python -W ignore harness/q1_selftest.py [names…]"""
import importlib
import logging
import sys
import time

import fw

logging.disable(logging.CRITICAL)
names = sys.argv[1:] or ["q1_udpout", "q1_crypto", "q1_tlsmsgs"]
ctx = fw.Ctx("C02", "quick", 0)
mods, thms = [], []
for n in names:
    m = importlib.import_module(n)
    t0 = time.time()
    m.correspond(ctx)
    print(f"{n}: correspond {time.time() - t0:.1f}s")
    mods += m.MODULES
    thms += m.THEOREMS
t0 = time.time()
ok = ctx.prove(mods)
ctx.require_theorems(thms)
print(f"prove({mods}) -> {ok} in {time.time() - t0:.1f}s; {len(ctx.theorems)} theorems audited")
for k, v in ctx.corr.items():
    print(f"  point {k}: cases={v['cases']} disagreements={v['disagreements']}")
print("evaluations", ctx.evaluations, "distinct non-trivial", len(ctx.distinct))
for nme, d in ctx.distribution.items():
    print("  hist", nme, dict(sorted(d.items())[:12]))
for n in ctx.notes:
    print("NOTE", n)
print("proof problems:", ctx.proof_problems)
for d in ctx.disagreements[:5]:
    print("DISAGREE", d)
sys.exit(1 if (ctx.proof_problems or ctx.disagreements) else 0)
