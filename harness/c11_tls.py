"""Minimal TLS 1.2 / 1.3 AES-128-GCM sender for the end-to-end runs of C11 (independent of TLExport).

A `Conn` collects `c11_wire.Spec` frames (IPv4 or IPv6, correct TCP checksums) and the keylog lines
that let the tool decrypt the application data.
"""
import hashlib
import hmac
import struct

from cryptography.hazmat.primitives import hashes
from cryptography.hazmat.primitives.ciphers.aead import AESGCM
from cryptography.hazmat.primitives.kdf.hkdf import HKDFExpand

import c11_wire as W


def prf12(secret, label, seed, n, h=hashlib.sha256):
    seed = label + seed
    a, out = seed, b""
    while len(out) < n:
        a = hmac.new(secret, a, h).digest()
        out += hmac.new(secret, a + seed, h).digest()
    return out[:n]


def rec(t, ver, body):
    return bytes([t]) + ver + struct.pack(">H", len(body)) + body


def hs(t, body):
    return bytes([t]) + len(body).to_bytes(3, "big") + body


def client_hello(cr, ver=b"\x03\x03", suites=b"\x00\x9c", ext=b""):
    b = ver + cr + b"\x00" + struct.pack(">H", len(suites)) + suites + b"\x01\x00" + struct.pack(">H", len(ext)) + ext
    return hs(1, b)


def server_hello(sr, suite, ver=b"\x03\x03", sid=b"", ext=b""):
    b = ver + sr + bytes([len(sid)]) + sid + suite + b"\x00" + struct.pack(">H", len(ext)) + ext
    return hs(2, b)


class Conn:
    def __init__(self, rng, v6=False, cport=40000, sport=443, t0=1700000000.0, exthdrs=(), tcpopts=b""):
        self.rng = rng
        self.v6 = v6
        if v6:
            self.cip = bytes.fromhex("fd000000000000000000000000000001")
            self.sip = bytes.fromhex("fd000000000000000000000000000002")
        else:
            self.cip, self.sip = bytes([10, 0, 0, 1]), bytes([10, 0, 0, 2])
        self.cport, self.sport = cport, sport
        self.t = t0
        self.cseq, self.sseq = rng.randrange(1, 1 << 31), rng.randrange(1, 1 << 31)
        self.exthdrs, self.tcpopts = tuple(exthdrs), tcpopts
        self.frames = []          # Spec objects in capture order

    def rnd(self, n):
        return bytes(self.rng.getrandbits(8) for _ in range(n))

    def seg(self, from_server, data):
        self.t += 0.001234
        if from_server:
            sp = W.Spec(self.v6, 6, self.sip, self.cip, self.sport, self.cport, data, seq=self.sseq, ack=self.cseq,
                        smac=W.MAC_B, dmac=W.MAC_A, ts=self.t, exthdrs=self.exthdrs, tcpopts=self.tcpopts)
            self.sseq += len(data)
        else:
            sp = W.Spec(self.v6, 6, self.cip, self.sip, self.cport, self.sport, data, seq=self.cseq, ack=self.sseq,
                        smac=W.MAC_A, dmac=W.MAC_B, ts=self.t, exthdrs=self.exthdrs, tcpopts=self.tcpopts)
            self.cseq += len(data)
        self.frames.append(sp)


def tls12_gcm(conn, app):
    cr, sr, ms = conn.rnd(32), conn.rnd(32), conn.rnd(48)
    kb = prf12(ms, b"key expansion", sr + cr, 2 * 16 + 2 * 4)
    ck, sk, civ, siv = kb[:16], kb[16:32], kb[32:36], kb[36:40]
    seq = {0: 0, 1: 0}

    def enc(from_server, t, pt):
        k, iv = (sk, siv) if from_server else (ck, civ)
        n = seq[from_server]
        seq[from_server] += 1
        exp = conn.rnd(8)
        aad = struct.pack(">Q", n) + bytes([t]) + b"\x03\x03" + struct.pack(">H", len(pt))
        return rec(t, b"\x03\x03", exp + AESGCM(k).encrypt(iv + exp, pt, aad))

    conn.seg(0, rec(22, b"\x03\x01", client_hello(cr)))
    conn.seg(1, rec(22, b"\x03\x03", server_hello(sr, b"\x00\x9c") + hs(11, conn.rnd(100)) + hs(14, b"")))
    conn.seg(0, rec(22, b"\x03\x03", hs(16, conn.rnd(64))) + rec(20, b"\x03\x03", b"\x01")
             + enc(0, 22, hs(20, conn.rnd(12))))
    conn.seg(1, rec(20, b"\x03\x03", b"\x01") + enc(1, 22, hs(20, conn.rnd(12))))
    first_app = len(conn.frames)
    for d, pt in app:
        conn.seg(d, enc(d, 23, pt))
    return f"CLIENT_RANDOM {cr.hex()} {ms.hex()}\n", first_app


def hkdf_label(secret, label, n):
    info = struct.pack(">H", n) + bytes([6 + len(label)]) + b"tls13 " + label + b"\x00"
    return HKDFExpand(hashes.SHA256(), n, info).derive(secret)


def tls13_gcm(conn, app):
    cr, sr = conn.rnd(32), conn.rnd(32)
    sec = {k: conn.rnd(32) for k in ("chs", "shs", "cap", "sap")}
    keys = {k: (hkdf_label(v, b"key", 16), hkdf_label(v, b"iv", 12)) for k, v in sec.items()}
    seq = {}

    def enc(from_server, epoch, inner_type, pt):
        name = ("s" if from_server else "c") + epoch
        k, iv = keys[name]
        n = seq.get(name, 0)
        seq[name] = n + 1
        inner = pt + bytes([inner_type])
        nonce = bytes(a ^ b for a, b in zip(iv, b"\0\0\0\0" + struct.pack(">Q", n)))
        hdr = b"\x17\x03\x03" + struct.pack(">H", len(inner) + 16)
        return hdr + AESGCM(k).encrypt(nonce, inner, hdr)

    ext13 = b"\x00\x2b\x00\x02\x03\x04"
    conn.seg(0, rec(22, b"\x03\x01", client_hello(cr, suites=b"\x13\x01")))
    conn.seg(1, rec(22, b"\x03\x03", server_hello(sr, b"\x13\x01", sid=conn.rnd(32), ext=ext13))
             + rec(20, b"\x03\x03", b"\x01")
             + enc(1, "hs", 22, hs(8, b"\0\0") + hs(11, conn.rnd(80)) + hs(15, conn.rnd(70)) + hs(20, conn.rnd(32))))
    conn.seg(0, rec(20, b"\x03\x03", b"\x01") + enc(0, "hs", 22, hs(20, conn.rnd(32))))
    first_app = len(conn.frames)
    for d, pt in app:
        conn.seg(d, enc(d, "ap", 23, pt))
    kl = (f"CLIENT_HANDSHAKE_TRAFFIC_SECRET {cr.hex()} {sec['chs'].hex()}\n"
          f"SERVER_HANDSHAKE_TRAFFIC_SECRET {cr.hex()} {sec['shs'].hex()}\n"
          f"CLIENT_TRAFFIC_SECRET_0 {cr.hex()} {sec['cap'].hex()}\n"
          f"SERVER_TRAFFIC_SECRET_0 {cr.hex()} {sec['sap'].hex()}\n")
    return kl, first_app
