"""Theorems of lean/TLX/Lemmas/TagNat.lean and lean/TLX/Props/ExportInputs2.lean: naturality of the run under renaming of
packet tags, and the literal file-to-file forms of C09 / C11 / C03 built on it (statements about `TLX.Export.exportFile` on
capture FILES whose packets sit at different positions). To be required by c09 / c11 / c03 / c08 (THEOREMS_NAT: by each of them, or by c04).
NOTE: keep theorem names short — the audit prints one line per theorem and a line beyond ~120 characters is wrapped and lost."""
MODULES = ["TLX.Lemmas.TagNat", "TLX.Props.ExportInputs2"]
_L = "TLX.Lemmas.TagNat."
_NS = "TLX.Props.ExportInputs2."
# the core: no part of the program compares tags (any renaming rho, no injectivity / monotonicity needed)
THEOREMS_NAT = [_L + n for n in ["Reasm.stepW_nat", "Sess.handleRecordRaw_nat", "Sess.run_nat", "connOut_nat",
                                 "tlsRun_nat", "tlsFrames_nat", "quicRun_nat"]] + \
               [_NS + n for n in ["framesFrom_retag", "framesFrom_info_congr", "framesFrom_alike", "tlsFrames_alike",
                                  "go_filter", "go_shift", "Ex.alike_instance"]]
THEOREMS_C09 = [_NS + n for n in ["export_key_delivery_files", "go_filter_error", "go_split", "tlsFrames_blocks_anywhere",
                                  "export_key_delivery_files_tls"]]
THEOREMS_C08 = [_NS + n for n in ["wf_take", "read_cut", "export_cut_prefix_tls_file"]]
THEOREMS_C11 = [_NS + n for n in ["go_c_irrelevant", "export_checksum_filter_reader", "export_checksum_filter_file",
                                  "Ex.evKept_instance", "Ex.checksum_filter_file_instance"]]
THEOREMS_C03 = [_NS + n for n in ["export_bystander_unaffected_file", "export_bystander_unaffected_encoded",
                                  "Ex.bystander_file_instance"]]
THEOREMS = THEOREMS_NAT + THEOREMS_C09 + THEOREMS_C11 + THEOREMS_C03 + THEOREMS_C08
