"""Standalone entry of the record-layer part of C01 (the full check is harness/c01.py, which calls run_reclayer).

    PYTHONPATH=/repo:harness /venv/bin/python harness/c01rl_main.py [--tier quick|thorough] [--replay file]
"""
import argparse
import json
import logging
import os
import subprocess
import sys

import fw
import c01_reclayer

THEOREMS = c01_reclayer.THEOREMS


def main():
    logging.disable(logging.CRITICAL)
    ap = argparse.ArgumentParser()
    ap.add_argument("--tier", default=os.environ.get("VERIF_TIER", "quick"))
    ap.add_argument("--replay")
    a = ap.parse_args()
    seed = int(os.environ.get("VERIF_SEED", "0") or 0)
    ctx = fw.Ctx("C01", a.tier if a.tier in ("quick", "thorough") else "quick", seed)
    try:
        if a.replay:
            sys.exit(c01_reclayer.replay_reclayer(ctx, json.load(open(a.replay))))
        ctx.prove(c01_reclayer.PROVE_MODULES)
        ctx.require_theorems(THEOREMS)
        c01_reclayer.run_reclayer(ctx)
        sys.exit(ctx.finish(search=c01_reclayer.search_reclayer))
    except fw.HarnessError as e:
        print(f"HARNESS-ERROR C01(reclayer): {e}", file=sys.stderr)
        sys.exit(2)
    except subprocess.TimeoutExpired as e:
        print(f"HARNESS-TIMEOUT C01(reclayer): {e}", file=sys.stderr)
        sys.exit(2)


if __name__ == "__main__":
    main()
