"""The decision-logic functions of TLExport, translated from the tree under test into Lean on every run
(`lean/TLX/Gen/Translated/<Group>.lean`, namespace `TLX.Gen.Py`) and proved EQUAL to the hand-written model functions in
`lean/TLX/Props/Translated/<Group>.lean`. A source change that alters what such a function computes alters the generated
definition, the equality no longer checks, and the proof stage fails — no sampling involved.

  regen()     re-translate from `fw.REPO`; returns {file: sha256} for `ctx.gen_tables`. A function that left the subset
              raises `TranslatorProblem` (carrying `.problems`, each a proof problem of kind "translator" naming its
              group); the files are still written, with the definitions that could be translated, so the build of that
              group then fails at the theorem about the missing one as well — the other groups are not affected.
  wire(ctx, "Cxx")  what a check calls: regenerates, records the translator problems of the groups the property rests on
              (`CHECK_GROUPS`), returns (modules, theorems) to add to `ctx.prove` / `ctx.require_theorems`.
  selftest()  translator against CPython: every translated definition is evaluated by Lean on sampled inputs and
              compared with the Python function itself (guards the translator and `PyRt.lean`, not the tool).
"""
import ast
import hashlib
import os
import types
import textwrap
import sys

sys.path.insert(0, os.path.dirname(os.path.abspath(__file__)))
import extract
import py2lean
from py2lean import Untranslatable


HT = "TLX.Quic.HType"
PT = "TLX.Quic.PType"
VER = "TLX.Session.Ver"
QDEC = "TLX.Quic.Session.Dec"
MLV = "TLX.MainLoop.Version"
SEG = "TLX.Reassembly.Seg"

HTYPE = {"QuicHeaderType.LONG": (f"{HT}.long", HT), "QuicHeaderType.SHORT": (f"{HT}.short", HT)}
PTYPE = {f"QuicPacketType.{a}": (f"{PT}.{b}", PT) for a, b in
         [("INITIAL", "initial"), ("RTT_O", "rtt0"), ("RTT_1", "rtt1"), ("HANDSHAKE", "handshake"), ("RETRY", "retry"),
          ("VERSION_NEG", "versionNeg")]}
TLSVER = {f"TlsVersion.{a}": (f"{VER}.{b}", VER) for a, b in
          [("SSL30", "ssl30"), ("TLS10", "tls10"), ("TLS11", "tls11"), ("TLS12", "tls12"), ("TLS13", "tls13")]}

# one generated file per group (`lean/TLX/Gen/Translated/<Group>.lean`): a definition that no longer elaborates, or a
# function that left the subset, only blocks the theorems of its own group
GROUPS = {
    "Pn": dict(imports=["TLX.PyRt", "TLX.Quic.Packet"], decls=[]),
    "Varint": dict(imports=["TLX.PyRt"], decls=[]),
    "QuicDissect": dict(imports=["TLX.PyRt", "TLX.Quic.Packet", "TLX.MainLoop"], decls=[]),
    "QuicSess": dict(imports=["TLX.PyRt", "TLX.Quic.Session"], decls=[]),
    "Demux": dict(imports=["TLX.PyRt"],
                  decls=["/-- the two handlers `run()` hands a frame to -/\ninductive RunAct | tls | quic\n  deriving DecidableEq, Repr\n"]),
    "Ports": dict(imports=["TLX.PyRt"], decls=[]),
    "TlsSess": dict(imports=["TLX.PyRt", "TLX.Session"], decls=[]),
    "Reasm": dict(imports=["TLX.PyRt", "TLX.Reassembly"], decls=[]),
    "Checksum": dict(imports=["TLX.PyRt"], decls=[]),
    "QuicDissect2": dict(imports=["TLX.PyRt", "TLX.Quic.Packet", "TLX.Gen.Translated.Varint", "TLX.Gen.Translated.QuicDissect"],
                         decls=["""/-- a `LongQuicPacket` / `ShortQuicPacket` as constructed: the keyword arguments given (absent ones: `none`) -/
structure QuicPacketObj where
  header : TLX.Quic.HType
  packet_type : TLX.Quic.PType
  isserver : Bool
  ts : Nat
  first_byte : Sum Nat Bytes
  dcid : Bytes
  version : Option Bytes
  dcid_len : Option Bytes
  scid_len : Option Bytes
  scid : Option Bytes
  token_len : Option Nat
  token_len_bytes : Option Bytes
  token : Option Bytes
  packet_len : Option Bytes
  packet_len_bytes : Option Bytes
  packet_num : Option Bytes
  payload : Option Bytes
  key_phase : Option Nat
  retry_token : Option Bytes
  retry_integ_tag : Option Bytes
  deriving DecidableEq, Repr
"""]),
    "Suites": dict(imports=["TLX.PyRt", "TLX.CipherSuiteTypes"], decls=[]),
    "Reasm2": dict(imports=["TLX.PyRt", "TLX.Reassembly"],
                   decls=["/-- a `TlsRecord` as constructed: `binary` (the whole record) and `metadata` (the packets that carry it) -/\n"
                          "structure TlsRecordObj where\n  binary : Bytes\n  metadata : List TLX.Reassembly.Seg\n  deriving DecidableEq, Repr\n"]),
    "KeySched": dict(imports=["TLX.PyRt", "TLX.KeySchedule"],
                     decls=["/-- a `QuicDecryptor` as constructed: its key list -/\nstructure QDecObj where\n  keys : List Bytes\n  deriving DecidableEq, Repr\n"], options=["set_option linter.unusedVariables false"]),
    "TlsSess2": dict(imports=["TLX.PyRt", "TLX.Session"], decls=[], options=["set_option linter.unusedVariables false"]),
    # the frame class constructors call the two varint functions: this group rests on Varint's definitions
    "Frames": dict(imports=["TLX.PyRt", "TLX.Quic.FrameTypes", "TLX.Gen.Translated.Varint"], decls=[]),
}

SPECS = [
    dict(name="get_header_type", group="QuicDissect", file="tlexport/quic/quic_dissector.py", func="get_header_type",
         params=[("datagram_data", "Bytes")], ret=HT, consts=HTYPE),
    dict(name="get_packet_type", group="QuicDissect", file="tlexport/quic/quic_dissector.py", func="get_packet_type",
         params=[("datagram_data", "Bytes")], ret=f"Option {PT}", consts=PTYPE),
    dict(name="get_variable_length_int_length", group="Varint", file="tlexport/quic/quic_decode.py", func="get_variable_length_int_length",
         params=[("first_byte_of_variable_int", "Bytes")], ret="Nat"),
    dict(name="decode_variable_length_int", group="Varint", file="tlexport/quic/quic_decode.py", func="decode_variable_length_int",
         params=[("variable_integer", "Bytes")], ret="Nat"),
    dict(name="get_full_packet_number", group="Pn", file="tlexport/quic/quic_session.py", func="QuicSession.get_full_packet_number",
         params=[], ret="Bytes",
         places=[("quic_packet.isserver", "isserver", "Bool", "r"), ("quic_packet.packet_num", "packet_num", "Bytes", "r"),
                 ("self.packet_number_server[PACKET_TYPE_MAP[quic_packet.packet_type]]", "pn_server", "Int", "r"),
                 ("self.packet_number_client[PACKET_TYPE_MAP[quic_packet.packet_type]]", "pn_client", "Int", "r")]),
    # the compare-and-store of the largest packet number, called by decrypt_packet after the AEAD check succeeded
    dict(name="set_largest_packet_number", group="Pn", file="tlexport/quic/quic_session.py", func="QuicSession.set_largest_packet_number",
         params=[("packet_number", "Bytes")], ret="None",
         places=[("quic_packet.isserver", "isserver", "Bool", "r"),
                 ("self.packet_number_server[PACKET_TYPE_MAP[quic_packet.packet_type]]", "pn_server", "Int", "rw"),
                 ("self.packet_number_client[PACKET_TYPE_MAP[quic_packet.packet_type]]", "pn_client", "Int", "rw")]),
    # the tables the places of get_full_packet_number are read from: PACKET_TYPE_MAP and the two dicts of
    # set_packet_number_spaces (dict displays of enum members, tuples and ints: emitted as association lists)
    dict(name="PACKET_TYPE_MAP", group="Pn", kind="table", file="tlexport/quic/quic_session.py", func=None,
         target="PACKET_TYPE_MAP", type=f"List ({PT} × List {PT})", consts=PTYPE, theorem="packet_number_spaces_eq_model"),
    dict(name="packet_number_server_init", group="Pn", kind="table", file="tlexport/quic/quic_session.py",
         func="QuicSession.set_packet_number_spaces", target="self.packet_number_server", type=f"List (List {PT} × Int)",
         consts=PTYPE, theorem="packet_number_spaces_eq_model"),
    dict(name="packet_number_client_init", group="Pn", kind="table", file="tlexport/quic/quic_session.py",
         func="QuicSession.set_packet_number_spaces", target="self.packet_number_client", type=f"List (List {PT} × Int)",
         consts=PTYPE, theorem="packet_number_spaces_eq_model"),
    # check_key_epoch: the epoch flip (first statement) and the test of the second `if`; the body of the second `if`
    # calls key_update (cryptography) and is not translated
    dict(name="check_key_epoch_flip", group="QuicSess", file="tlexport/quic/quic_session.py", func="QuicSession.check_key_epoch",
         select={"start": "if isserver:"}, params=[("key_phase_bit", "Option Nat"), ("isserver", "Bool")],
         places=[("self.epoch_server", "epoch_server", "Nat", "rw"), ("self.last_key_phase_server", "last_key_phase_server", "Option Nat", "rw"),
                 ("self.epoch_client", "epoch_client", "Nat", "rw"), ("self.last_key_phase_client", "last_key_phase_client", "Option Nat", "rw")]),
    dict(name="check_key_epoch_extend_test", group="QuicSess", file="tlexport/quic/quic_session.py", func="QuicSession.check_key_epoch",
         select={"if_test": "if self.epoch_client == len("}, params=[],
         places=[("self.epoch_client", "epoch_client", "Nat", "r"), ("self.epoch_server", "epoch_server", "Nat", "r"),
                 ("self.decryptors['Application']", "application", f"List {QDEC}", "r")]),
    dict(name="packet_isserver", group="QuicSess", file="tlexport/quic/quic_session.py", func="QuicSession.packet_isserver",
         params=[("dcid", "Bytes")], ret="Bool",
         places=[("self.server_cids", "server_cids", "Set Bytes", "r"), ("self.client_cids", "client_cids", "Set Bytes", "r"),
                 ("packet.ip_src", "ip_src", "Bytes", "r"), ("packet.sport", "sport", "Nat", "r"),
                 ("self.client_ip", "client_ip", "Bytes", "r"), ("self.client_port", "client_port", "Nat", "r")]),
    dict(name="matches_session_dgram", group="QuicSess", file="tlexport/quic/quic_session.py", func="QuicSession.matches_session_dgram",
         params=[("ip_src", "Bytes"), ("ip_dst", "Bytes"), ("sport", "Nat"), ("dport", "Nat")], ret="Bool",
         places=[("self.server_ip", "server_ip", "Bytes", "r"), ("self.server_port", "server_port", "Nat", "r"),
                 ("self.client_ip", "client_ip", "Bytes", "r"), ("self.client_port", "client_port", "Nat", "r")]),
    dict(name="matches_session", group="Demux", file="tlexport/session.py", func="Session.matches_session", params=[], ret="Bool",
         places=[("packet.ip_src", "ip_src", "Bytes", "r"), ("packet.ip_dst", "ip_dst", "Bytes", "r"),
                 ("packet.sport", "sport", "Nat", "r"), ("packet.dport", "dport", "Nat", "r"),
                 ("self.server_ip", "server_ip", "Bytes", "r"), ("self.server_port", "server_port", "Nat", "r"),
                 ("self.client_ip", "client_ip", "Bytes", "r"), ("self.client_port", "client_port", "Nat", "r")]),
    dict(name="set_client_and_server_ports", group="Ports", file="tlexport/session.py", func="Session.set_client_and_server_ports",
         params=[("server_ports", "List Int")], ret="None",
         places=[("packet.ipv6_packet", "ipv6_packet", "Bool", "r"),
                 ("packet.ip_src", "ip_src", "Bytes", "r"), ("packet.ip_dst", "ip_dst", "Bytes", "r"),
                 ("packet.sport", "sport", "Nat", "r"), ("packet.dport", "dport", "Nat", "r"),
                 ("packet.ethernet_src", "ethernet_src", "Bytes", "r"), ("packet.ethernet_dst", "ethernet_dst", "Bytes", "r"),
                 ("self.ipv6", "ipv6", "Bool", "rw"),
                 ("self.server_ip", "server_ip", "Bytes", "rw"), ("self.server_port", "server_port", "Nat", "rw"),
                 ("self.server_mac_addr", "server_mac_addr", "Bytes", "rw"),
                 ("self.client_ip", "client_ip", "Bytes", "rw"), ("self.client_port", "client_port", "Nat", "rw"),
                 ("self.client_mac_addr", "client_mac_addr", "Bytes", "rw")]),
    dict(name="handle_alert", group="TlsSess", file="tlexport/session.py", func="Session.handle_alert",
         params=[("alert_level", "Nat")], ret="None", consts=TLSVER,
         places=[("self.tls_version", "tls_version", f"Option {VER}", "r"),
                 ("self.can_decrypt", "can_decrypt", "Bool", "rw"), ("self.client_hello_seen", "client_hello_seen", "Bool", "rw")]),
    # `handshake_13_buffer` (a dict keyed by direction) is seen as the pair of its `.get(False, b"")`, `.get(True, b"")`
    dict(name="handle_tls_client_hello", group="TlsSess", file="tlexport/session.py", func="Session.handle_tls_client_hello",
         params=[], ret="None", empty_dict={"Bytes × Bytes": "(([], []) : Bytes × Bytes)"},
         places=[("record.binary", "binary", "Bytes", "r"),
                 ("self.can_decrypt", "can_decrypt", "Bool", "rw"), ("self.server_cipher_change", "server_cipher_change", "Bool", "rw"),
                 ("self.client_cipher_change", "client_cipher_change", "Bool", "rw"),
                 ("self.handshake_13_buffer", "handshake_13_buffer", "Bytes × Bytes", "rw"),
                 ("self.client_random", "client_random", "Option Bytes", "rw"),
                 ("self.client_hello_seen", "client_hello_seen", "Bool", "rw")]),
    # handle_tls_server_hello: the version choice at its end (the `match` statement)
    dict(name="server_hello_version", group="TlsSess", file="tlexport/session.py", func="Session.handle_tls_server_hello",
         select={"start": "match int.from_bytes(record.record_version"}, params=[("is_tls13", "Bool")], consts=TLSVER,
         places=[("record.record_version", "record_version", "Bytes", "r"), ("record.binary", "binary", "Bytes", "r"),
                 ("self.tls_version", "tls_version", f"Option {VER}", "rw"), ("self.can_decrypt", "can_decrypt", "Bool", "rw")]),
    dict(name="server_hello_latch", group="TlsSess", file="tlexport/session.py", func="Session.handle_tls_server_hello",
         select={"start": "if self.client_hello_seen:"}, params=[],
         places=[("self.client_hello_seen", "client_hello_seen", "Bool", "r"), ("self.can_decrypt", "can_decrypt", "Bool", "rw")]),
    # TCP reassembly (session.py): the duplicate test of handle_packet and, of extract_*_buf, the test that the stream
    # continues at `base`, the contiguity test between neighbours and the next expected sequence number (mod 2^32);
    # the rest of extract_*_buf (min/sort with key functions, `while True`, bytearray) is outside the subset
    dict(name="session_handle_packet", group="Reasm", file="tlexport/session.py", func="Session.handle_packet",
         params=[("packet", SEG)], ret="None",
         places=[("packet.seq", "seq", "Nat", "r"), ("packet.ip_src", "ip_src", "Bytes", "r"), ("packet.sport", "sport", "Nat", "r"),
                 ("self.server_ip", "server_ip", "Bytes", "r"), ("self.server_port", "server_port", "Nat", "r"),
                 ("self.seen_packets_server", "seen_packets_server", "List Nat", "rw"),
                 ("self.seen_packets_client", "seen_packets_client", "List Nat", "rw"),
                 ("self.packet_buffer", "packet_buffer", f"List {SEG}", "rw")]),
    dict(name="extract_server_head_test", group="Reasm", file="tlexport/session.py", func="Session.extract_server_buf",
         select={"if_test": "if self.server_packet_buffer[0].seq != base"}, params=[("base", "Nat")],
         places=[("self.server_packet_buffer[0].seq", "seq0", "Nat", "r")]),
    dict(name="extract_server_gap_test", group="Reasm", file="tlexport/session.py", func="Session.extract_server_buf",
         select={"if_test": "if (self.server_packet_buffer[i].seq + len("}, params=[],
         places=[("self.server_packet_buffer[i].seq", "seq_i", "Nat", "r"), ("self.server_packet_buffer[i].tls_data", "data_i", "Bytes", "r"),
                 ("self.server_packet_buffer[i + 1].seq", "seq_next", "Nat", "r")]),
    dict(name="extract_server_sort_key", group="Reasm", file="tlexport/session.py", func="Session.extract_server_buf",
         select={"lambda_in": "self.server_packet_buffer.sort("}, params=[("base", "Nat")], places=[("x.seq", "seq", "Nat", "r")]),
    dict(name="extract_server_presync_key", group="Reasm", file="tlexport/session.py", func="Session.extract_server_buf",
         select={"lambda_in": "base = min(self.server_packet_buffer"}, params=[("first", "Nat")], places=[("x.seq", "seq", "Nat", "r")]),
    dict(name="extract_server_next_seq", group="Reasm", file="tlexport/session.py", func="Session.extract_server_buf",
         select={"start": "self.server_next_seq = (base + total_packet_len)"}, params=[("base", "Nat"), ("total_packet_len", "Nat")],
         places=[("self.server_next_seq", "next_seq", "Option Nat", "rw")]),
    dict(name="extract_client_head_test", group="Reasm", file="tlexport/session.py", func="Session.extract_client_buf",
         select={"if_test": "if self.client_packet_buffer[0].seq != base"}, params=[("base", "Nat")],
         places=[("self.client_packet_buffer[0].seq", "seq0", "Nat", "r")]),
    dict(name="extract_client_gap_test", group="Reasm", file="tlexport/session.py", func="Session.extract_client_buf",
         select={"if_test": "if (self.client_packet_buffer[i].seq + len("}, params=[],
         places=[("self.client_packet_buffer[i].seq", "seq_i", "Nat", "r"), ("self.client_packet_buffer[i].tls_data", "data_i", "Bytes", "r"),
                 ("self.client_packet_buffer[i + 1].seq", "seq_next", "Nat", "r")]),
    dict(name="extract_client_sort_key", group="Reasm", file="tlexport/session.py", func="Session.extract_client_buf",
         select={"lambda_in": "self.client_packet_buffer.sort("}, params=[("base", "Nat")], places=[("x.seq", "seq", "Nat", "r")]),
    dict(name="extract_client_presync_key", group="Reasm", file="tlexport/session.py", func="Session.extract_client_buf",
         select={"lambda_in": "base = min(self.client_packet_buffer"}, params=[("first", "Nat")], places=[("x.seq", "seq", "Nat", "r")]),
    dict(name="extract_client_next_seq", group="Reasm", file="tlexport/session.py", func="Session.extract_client_buf",
         select={"start": "self.client_next_seq = (base + total_packet_len)"}, params=[("base", "Nat"), ("total_packet_len", "Nat")],
         places=[("self.client_next_seq", "next_seq", "Option Nat", "rw")]),
    # main.py handle_quic_packet: the head (what is read from a long header; `return` on a long header in < 6 bytes) …
    dict(name="quic_header", group="QuicDissect", file="tlexport/main.py", func="handle_quic_packet",
         select={"start": "quic_version = QuicVersion.UNKNOWN", "end": "if header_type == QuicHeaderType.LONG:\n    if len(packet_payload)"},
         params=[("header_type", HT), ("packet_payload", "Bytes")], exits=True,
         consts={**HTYPE, **{f"QuicVersion.{a}": (f"{MLV}.{b}", MLV) for a, b in [("V1", "v1"), ("V2", "v2"), ("UNKNOWN", "unknown")]}},
         outs=[("dcid", "Bytes"), ("quic_version", MLV)]),
    # … the long-header CID test, the short-header candidate choice and the per-candidate test (the sort of the
    # candidates — `sorted(…, key=lambda …)` — is outside the subset: `MainLoop.sortCids` stays tied by sampling)
    dict(name="quic_long_cid_test", group="Demux", file="tlexport/main.py", func="handle_quic_packet",
         select={"if_test": "if len(dcid) > 0 and (dcid in session.client_cids"}, params=[("dcid", "Bytes")],
         places=[("session.client_cids", "client_cids", "Set Bytes", "r"), ("session.server_cids", "server_cids", "Set Bytes", "r")]),
    dict(name="quic_short_candidates", group="Demux", file="tlexport/main.py", func="handle_quic_packet",
         select={"start": "candidates = session.client_cids | session.server_cids", "end": "if session.matches_session_dgram("},
         params=[], outs=[("candidates", "Set Bytes")],
         places=[("session.client_cids", "client_cids", "Set Bytes", "r"), ("session.server_cids", "server_cids", "Set Bytes", "r"),
                 ("session.matches_session_dgram(packet.ip_src, packet.ip_dst, packet.sport, packet.dport)", "on_tuple", "Bool", "r"),
                 ("packet.ip_src", "ip_src", "Bytes", "r"), ("packet.sport", "sport", "Nat", "r"),
                 ("session.client_ip", "client_ip", "Bytes", "r"), ("session.client_port", "client_port", "Nat", "r")]),
    dict(name="quic_short_cid_test", group="Demux", file="tlexport/main.py", func="handle_quic_packet",
         select={"within": "for cid in sorted(", "if_test": "if "}, params=[("cid", "Bytes"), ("packet_payload", "Bytes")]),
    # main.py run(): what happens to one frame of the capture (the statement `if packet.tcp_packet: … elif packet.udp_packet: …`
    # of the loop body); the checksum functions are inputs, the two handlers are trace entries
    dict(name="run_classify", group="Demux", file="tlexport/main.py", func="run", select={"start": "if packet.tcp_packet:"}, params=[], exits=True,
         places=[("packet.tcp_packet", "tcp_packet", "Bool", "r"), ("packet.udp_packet", "udp_packet", "Bool", "r"),
                 ("packet.tls_data", "tls_data", "Bytes", "r"), ("args.checksumTest", "checksumTest", "Bool", "r"),
                 ("args.greasy", "greasy", "Bool", "r"),
                 ("calculate_checksum_tcp(packet)", "csum_tcp", "Bool", "r"), ("calculate_checksum_udp(packet)", "csum_udp", "Bool", "r")],
         actions={"handle_packet(packet, args, keylog, sessions, portmap, keep_original_ports, exp_meta=metadata)": "RunAct.tls",
                  "handle_quic_packet(packet, keylog, quic_sessions, portmap, keep_original_ports)": "RunAct.quic"},
         action_type="RunAct"),
    # the exported server port (and the initial sequence numbers) as both output builders' __init__ set them
    dict(name="output_builder_init", group="Ports", file="tlexport/output_builder.py", func="OutputBuilder.__init__", ret="None",
         params=[("server_port", "Nat"), ("client_port", "Nat"), ("portmap", "Dict Nat Nat"), ("keep_original_ports", "Bool")],
         ignore_writes=["self.decrypted_records", "self.server_ip", "self.client_ip", "self.server_mac_addr", "self.client_mac_addr",
                        "self.out", "self.ipv6"],
         places=[("self.server_port", "server_port_", "Nat", "rw"), ("self.client_port", "client_port_", "Nat", "rw"),
                 ("self.default_port", "default_port", "Nat", "rw"),
                 ("self.server_seq", "server_seq", "Nat", "rw"), ("self.client_seq", "client_seq", "Nat", "rw")]),
    dict(name="quic_output_builder_init", group="Ports", file="tlexport/quic/quic_output_builder.py", func="QUICOutputbuilder.__init__", ret="None",
         params=[("server_port", "Nat"), ("client_port", "Nat"), ("portmap", "Dict Nat Nat"), ("keep_original_ports", "Bool")],
         ignore_writes=["self.decrypted_traffic", "self.server_ip", "self.client_ip", "self.server_mac_address",
                        "self.client_mac_address", "self.out", "self.ipv6"],
         places=[("self.server_port", "server_port_", "Nat", "rw"), ("self.client_port", "client_port_", "Nat", "rw"),
                 ("self.default_port", "default_port", "Nat", "rw")]),
]

def theorem_of(spec):
    return "TLX.Props.Translated." + spec.get("theorem", spec["name"] + "_eq_model")


def _uniq(xs):
    return list(dict.fromkeys(xs))


VARINT_CALLS = {
    "get_variable_length_int_length": dict(lean="get_variable_length_int_length", args=["Bytes"], ret="Nat", raises=True),
    "decode_variable_length_int": dict(lean="decode_variable_length_int", args=["Bytes"], ret="Nat", raises=True),
}
N, B, BO = "Nat", "Bytes", "Bool"
# quic_frame.py: the attributes each frame class constructor writes (`self.payload` is `payload_`: the parameter has the name)
FRAME_CLASSES = [
    ("PaddingFrame", [("length", N)]),
    ("GenericFrame", [("length", N), ("frame_length", N), ("data", B)]),
    ("AckFrame", [("frame_type", N), ("length", N), ("largest_acknowledged", N), ("ack_delay", N), ("range_count", N),
                  ("first_ack_range", N), ("ack_ranges", "List (Nat × Nat)"), ("ect_0_count", "Option Nat"),
                  ("ect_1_count", "Option Nat"), ("ect_ce_count", "Option Nat")]),
    ("ResetStreamFrame", [("length", N), ("stream_id", N), ("application_protocol_error_code", N), ("final_size", N)]),
    ("StopSendingFrame", [("length", N), ("stream_id", N), ("application_protocol_error_code", N)]),
    ("CryptoFrame", [("length", N), ("offset", N), ("crypto_length", N), ("crypto", B)]),
    ("NewTokenFrame", [("length", N), ("token_length", N), ("token", B)]),
    ("StreamFrame", [("frame_type", N), ("fin", BO), ("len", BO), ("off", BO), ("length", N), ("stream_id", N),
                     ("server_initiated", BO), ("stream_unidirectional", BO), ("stream_data", "Option Bytes"), ("offset", N),
                     ("data_length", "Int")]),
    ("MaxDataFrame", [("length", N), ("maximum_data", N)]),
    ("MaxStreamDataFrame", [("length", N), ("stream_id", N), ("maximum_stream_data", N)]),
    ("MaxStreamsFrame", [("frame_type", N), ("length", N), ("maximum_streams", N)]),
    ("DataBlockedFrame", [("length", N), ("maximum_data", N)]),
    ("StreamDataBlockedFrame", [("length", N), ("stream_id", N), ("maximum_stream_data", N)]),
    ("StreamsBlockedFrame", [("frame_type", N), ("length", N), ("maximum_streams", N)]),
    ("NewConnectionIdFrame", [("length", N), ("sequence_number", N), ("retire_prior_to", N), ("connection_id_length", N),
                              ("connection_id", B), ("stateless_reset_token", B)]),
    ("RetireConnectionIdFrame", [("length", N), ("sequence_number", N)]),
    ("PathChallengeFrame", [("data", B)]),
    ("PathResponseFrame", [("data", B)]),
    ("ConnectionCloseFrame", [("frame_type", N), ("length", N), ("error_code", N), ("close_frame_type", "Option Nat"),
                              ("reason_phrase_length", N), ("reason_phrase", B)]),
    ("DatagramFrame", [("frame_type", N), ("len_bit", BO), ("payload_", B), ("length", N)]),
]
for _cls, _attrs in FRAME_CLASSES:
    SPECS.append(dict(name=_cls + "_init", group="Frames", file="tlexport/quic/quic_frame.py", func=_cls + ".__init__",
                      params=[("payload", "Bytes")], ret="None", drop_calls=["super().__init__(src_packet)"], calls=VARINT_CALLS,
                      raise_state=False,
                      places=[("self." + a.rstrip("_"), a, t, "rw") for a, t in _attrs]))

CLS = "TLX.Quic.Cls"
NO_ATTR_CLASSES = ["PingFrame", "HandshakeDoneFrame"]            # constructors that write nothing
CLASS_LENGTH = ["PingFrame", "HandshakeDoneFrame", "PathChallengeFrame", "PathResponseFrame"]   # `length` is a class attribute
for _cls in NO_ATTR_CLASSES:
    SPECS.append(dict(name=_cls + "_init", group="Frames", file="tlexport/quic/quic_frame.py", func=_cls + ".__init__",
                      params=[("_payload", "Bytes")], ret="None", drop_calls=["super().__init__(src_packet)"],
                      theorem="parse_frames_eq_model"))
for _cls in CLASS_LENGTH:
    SPECS.append(dict(name=_cls + "_length", group="Frames", kind="classattr", file="tlexport/quic/quic_frame.py", func=None,
                      cls=_cls, attr="length", type="Nat", theorem="parse_frames_eq_model"))


def frame_glue():
    """the frame objects as one type, `frame.length` (instance attribute if the constructor writes it, else the class
    attribute) and the constructor per class name — glue over the translated definitions, nothing read from the source"""
    written = {c: [a for a, _ in attrs] for c, attrs in FRAME_CLASSES}
    lines = ["/-- an object of one of the frame classes: the attributes its constructor wrote -/", "inductive FrameObj"]
    for c, _ in FRAME_CLASSES:
        lines.append(f"  | {c} (s : {c}_init.St)")
    for c in NO_ATTR_CLASSES:
        lines.append(f"  | {c}")
    lines += ["  deriving DecidableEq, Repr", "", "/-- `frame.length` -/", "def FrameObj.length : FrameObj → Nat"]
    for c, _ in FRAME_CLASSES:
        lines.append(f"  | .{c} s => " + ("s.length" if "length" in written[c] else f"{c}_length"))
    for c in NO_ATTR_CLASSES:
        lines.append(f"  | .{c} => {c}_length")
    lines += ["", "/-- `<class>(payload, src_packet)` (attributes that exist only on some paths start absent) -/",
              f"def construct (c : {CLS}) (payload : Bytes) : Except PyRt.Err FrameObj :=", "  match c with"]
    for c, attrs in FRAME_CLASSES:
        opt = "".join(" none" for a, t in attrs if t.startswith("Option ") and c in ("AckFrame", "ConnectionCloseFrame"))
        raises = c not in ("PathChallengeFrame", "PathResponseFrame")
        lines.append(f"  | .{c} => " + (f"({c}_init payload{opt}).map .{c}" if raises else f".ok (.{c} ({c}_init payload))"))
    for c in NO_ATTR_CLASSES:
        lines.append(f"  | .{c} => .ok .{c}")
    return "\n".join(lines) + "\n"


SPECS.append(dict(name="FrameObj", group="Frames", kind="raw", file="tlexport/quic/quic_frame.py", func=None, gen=frame_glue,
                  theorem="parse_frames_eq_model"))
SPECS.append(dict(name="frame_type", group="Frames", kind="table", file="tlexport/quic/quic_frame.py", func=None, target="frame_type",
                  type=f"List (List Nat × {CLS})", theorem="frame_type_eq_model",
                  consts={c: (f"{CLS}.{c}", CLS) for c in [x for x, _ in FRAME_CLASSES] + NO_ATTR_CLASSES}))
SPECS.append(dict(name="parse_frames", group="Frames", file="tlexport/quic/quic_frame.py", func="parse_frames",
                  params=[("payload", "Bytes")], ret="List FrameObj",
                  consts={"frame_type": ("frame_type", f"Table List Nat; {CLS}")},
                  locals={"key": "Int|List Nat", "frames": "List FrameObj"},
                  fuel={"while ": "len(payload)"},
                  class_call=dict(type=f"Option {CLS}", lean="construct", args=["Bytes", None], ret="FrameObj"),
                  calls={"GenericFrame": dict(lean=f"construct {CLS}.GenericFrame", args=["Bytes", None], ret="FrameObj", raises=True)},
                  attr_funcs={("FrameObj", "length"): ("FrameObj.length", "Nat")}))

# quic_dissector.py: byte_xor / byte_and, remove_header_protection (the two mask primitives are one external function of
# (chacha?, key, sample)) and extract_quic_packet (struct formats with static field kinds, keyword constructors as records,
# `except Exception`, UnboundLocalError). `keys` is a dict of byte strings (a missing name: KeyError).
MASK = ("hpMask", "Bool → Bytes → Bytes → Except PyRt.Err Bytes")
PKT_FIELDS = [("packet_type", PT), ("isserver", "Bool"), ("ts", "Nat"), ("first_byte", "Nat|Bytes"), ("dcid", "Bytes"),
              ("version", "Option Bytes"), ("dcid_len", "Option Bytes"), ("scid_len", "Option Bytes"), ("scid", "Option Bytes"),
              ("token_len", "Option Nat"), ("token_len_bytes", "Option Bytes"), ("token", "Option Bytes"),
              ("packet_len", "Option Bytes"), ("packet_len_bytes", "Option Bytes"), ("packet_num", "Option Bytes"),
              ("payload", "Option Bytes"), ("key_phase", "Option Nat"), ("retry_token", "Option Bytes"),
              ("retry_integ_tag", "Option Bytes")]
QD = "tlexport/quic/quic_dissector.py"
for _n in ("byte_xor", "byte_and"):
    SPECS.append(dict(name=_n, group="QuicDissect2", file=QD, func=_n, params=[("byte1", "Bytes"), ("byte2", "Bytes")], ret="Bytes"))
BYTE_CALLS = {n: dict(lean=n, args=["Bytes", "Bytes"], ret="Bytes", raises=True) for n in ("byte_xor", "byte_and")}
RHP_PARAMS = ["header_type", "sample", "first_packet_byte", "hp_key", "datagram_data", "pn_offset", "ciphersuite"]
RHP_TYPES = [HT, "Bytes", "Nat", "Bytes", "Bytes", "Nat", "Option Bytes"]
SPECS.append(dict(name="remove_header_protection", group="QuicDissect2", file=QD, func="remove_header_protection",
                  externals=[MASK], params=list(zip(RHP_PARAMS, RHP_TYPES)), ret="Bytes × Bytes × Nat", consts=HTYPE,
                  calls={**BYTE_CALLS, "decode_variable_length_int": VARINT_CALLS["decode_variable_length_int"],
                         "make_hp_mask": dict(lean="hpMask false", args=["Bytes", "Bytes"], ret="Bytes", raises=True),
                         "make_chacha_hp_mask": dict(lean="hpMask true", args=["Bytes", "Bytes"], ret="Bytes", raises=True)}))
SPECS.append(dict(name="extract_quic_packet", group="QuicDissect2", file=QD, func="extract_quic_packet",
                  externals=[MASK], objects=["in_packet"],
                  params=[("isserver", "Bool"), ("guessed_dcid", "Bytes"), ("keys", "Dict Str Bytes"), ("ciphersuite", "Option Bytes")],
                  places=[("in_packet.tls_data", "tls_data", "Bytes", "rw"), ("in_packet.timestamp", "timestamp", "Nat", "r")],
                  ret="List QuicPacketObj", consts={**HTYPE, **PTYPE},
                  locals={"fmt_string": "Fmt", "packet_buf": "List QuicPacketObj", "total_packet_len": "Nat"},
                  calls={**VARINT_CALLS,
                         "get_header_type": dict(lean="get_header_type", args=["Bytes"], ret=HT, raises=True),
                         "get_packet_type": dict(lean="get_packet_type", params=["datagram_data"], args=["Bytes"], ret=f"Option {PT}", raises=True),
                         "remove_header_protection": dict(lean="remove_header_protection hpMask", params=RHP_PARAMS, args=RHP_TYPES,
                                                          ret="Bytes × Bytes × Nat", raises=True)},
                  ctors={"LongQuicPacket": dict(type="QuicPacketObj", fields=PKT_FIELDS, consts=[f"header := {HT}.long"], ignore=["supported_version"]),
                         "ShortQuicPacket": dict(type="QuicPacketObj", fields=PKT_FIELDS, consts=[f"header := {HT}.short"])}))

# cipher_suite_parser.py: the two tables re-derived from the dict displays (classes named by the last identifier of the
# expression that denotes them) and `split_cipher_suite`
VAL = "TLX.CipherSuite.Val"


def _val_leaf(node, plain, fname):
    """a value of `cipher_suite_parts[part]`: `(class, int)`, a class, or an int — as the model's `Val`"""
    if isinstance(node, ast.Tuple) and len(node.elts) == 2:
        return f".tup {plain(node.elts[0])} {plain(node.elts[1])}"
    if isinstance(node, ast.Constant) and isinstance(node.value, int) and not isinstance(node.value, bool):
        return f".int {plain(node)}"
    if isinstance(node, (ast.Name, ast.Attribute)):
        return f".cls {plain(node)}"
    raise Untranslatable(fname, node, "table value that is not a (class, int) tuple, a class or an int")


def _cls(name):
    return ("([" + ", ".join(str(ord(c)) for c in name) + "] : List Nat)", "Cls")


SUITE_TYPES = {"Val": VAL, "Cls": "List Nat"}
SPECS.append(dict(name="cipher_suites", group="Suites", kind="table", file="tlexport/cipher_suite_parser.py", func=None,
                  target="cipher_suites", type="List (Bytes × List Nat)", theorem="cipher_tables_eq_model"))
SPECS.append(dict(name="cipher_suite_parts", group="Suites", kind="table", file="tlexport/cipher_suite_parser.py", func=None,
                  target="cipher_suite_parts", type=f"List (List Nat × List (List Nat × {VAL}))", class_names=True, leaf=_val_leaf,
                  theorem="cipher_tables_eq_model"))
SPECS.append(dict(name="split_cipher_suite", group="Suites", file="tlexport/cipher_suite_parser.py", func="split_cipher_suite",
                  params=[("suite_id", "Bytes")], ret="Option (Table Str; Val)", types=SUITE_TYPES,
                  consts={"cipher_suites": ("cipher_suites", "Table Bytes; Str"),
                          "cipher_suite_parts": ("cipher_suite_parts", "Table Str; Table Str; Val"),
                          "AES": _cls("AES"), "aead.AESGCM": _cls("AESGCM"), "aead.AESCCM": _cls("AESCCM"),
                          "hashes.SHA256": _cls("SHA256"), "None": _cls("None")},
                  locals={"cipher_suite": "Table Str; Val"},
                  unions={"Val": [("Cls × Nat", f"{VAL}.tup {{0}}.1 {{0}}.2"), ("Cls", f"{VAL}.cls {{0}}"), ("Nat", f"{VAL}.int {{0}}")]}))

# checksums.py: the bytearrays are locals the functions create (`copy.deepcopy`, `bytearray(…)`): values that are rebound;
# what the functions read from the packet object are places (`len(packet.udp)`, `bytes(packet.udp)` are inputs)
SPECS.append(dict(name="ones_complement_checksum", group="Checksum", file="tlexport/checksums.py", func="ones_complement_checksum",
                  params=[("byte_arr", "Bytes")], ret="Bytes", fuel={"while ": "checksum"}))
SPECS.append(dict(name="calculate_checksum_udp", group="Checksum", file="tlexport/checksums.py", func="calculate_checksum_udp",
                  params=[], ret="Bool",
                  calls={"ones_complement_checksum": dict(lean="ones_complement_checksum", args=["Bytes"], ret="Bytes", raises=True)},
                  places=[("packet.ipv6_packet", "ipv6_packet", "Bool", "r"), ("packet.ip_src", "ip_src", "Bytes", "r"),
                          ("packet.ip_dst", "ip_dst", "Bytes", "r"), ("packet.ip.p", "ip_p", "Nat", "r"),
                          ("len(packet.udp)", "l4_len", "Nat", "r"), ("bytes(packet.udp)", "l4_bytes", "Bytes", "r"),
                          ("packet.udp.sum", "l4_sum", "Nat", "r")]))
SPECS.append(dict(name="calculate_checksum_tcp", group="Checksum", file="tlexport/checksums.py", func="calculate_checksum_tcp",
                  params=[], ret="Bool",
                  calls={"ones_complement_checksum": dict(lean="ones_complement_checksum", args=["Bytes"], ret="Bytes", raises=True)},
                  places=[("packet.ipv6_packet", "ipv6_packet", "Bool", "r"), ("packet.ip_src", "ip_src", "Bytes", "r"),
                          ("packet.ip_dst", "ip_dst", "Bytes", "r"), ("packet.ip.p", "ip_p", "Nat", "r"),
                          ("len(packet.tcp)", "l4_len", "Nat", "r"), ("bytes(packet.tcp)", "l4_bytes", "Bytes", "r"),
                          ("packet.tcp.sum", "l4_sum", "Nat", "r")]))

# session.py, the record handlers as a family over ONE state record (`Sess.St δ`, δ = the decryptor object): the methods
# call each other (state calls), `Decryptor.decrypt` / `update_keys` and `generate_keys` are externals. A `TlsRecord` is the
# model's `Rec` (`record.binary` = `Rec.body` …, tied by `TlsRecord_init`). Attributes that exist only after some record was
# seen are `Option` places whose read is AttributeError on `none` (`maybe_attrs`).
REC = "TLX.Session.Rec"
SESS_ST = "Sess.St δ"
SESS_FIELDS = [("self.can_decrypt", "can_decrypt", "Bool"), ("self.client_hello_seen", "client_hello_seen", "Bool"),
               ("self.tls_version", "tls_version", f"Option {VER}"),
               ("self.server_cipher_change", "server_cipher_change", "Bool"), ("self.client_cipher_change", "client_cipher_change", "Bool"),
               ("self.decryptor", "decryptor", "Option δ"),
               ("self.client_random", "client_random", "Option Bytes"), ("self.server_random", "server_random", "Option Bytes"),
               ("self.ciphersuite", "ciphersuite", "Option Bytes"), ("self.compression_method", "compression_method", "Option Nat"),
               ("self.extensions", "extensions", "Option (Table Bytes; Bytes)"),
               ("self.application_traffic", "application_traffic", f"List ((Option Bytes) × {REC} × Bool)"),
               ("self.handshake_13_buffer", "handshake_13_buffer", "Bytes × Bytes")]
SESS_PLACES = [(k, f, t, "s") for k, f, t in SESS_FIELDS] + [("self.exp_meta", "exp_meta", "Bool", "r")]
SESS_MAYBE = ["self.client_random", "self.server_random", "self.ciphersuite", "self.compression_method", "self.extensions"]
SESS_EXT = {"decrypt": ("decrypt", f"δ → {REC} → Bool → PyRt.Res δ (Option Bytes)"),
            "update_keys": ("update_keys", "δ → Bool → PyRt.Res δ Unit"),
            "generate_keys": ("generate_keys", f"Option {VER} → Bytes → Bytes → Bytes → Option (List (Bytes × Bytes)) → Option Nat → Bool → Option δ → "
                                               "PyRt.Res (Bool × Option δ) Unit")}
REC_ATTRS = {(REC, "binary"): ("TLX.Session.Rec.body", "Bytes"), (REC, "raw"): ("TLX.Session.Rec.raw", "Bytes"),
             (REC, "record_version"): ("TLX.Session.Rec.ver", "Bytes"), (REC, "record_type"): ("Sess.recType", "Nat")}
SESS_METHODS = {
    "self.decryptor.decrypt": dict(kind="method", recv="self.decryptor", lean="decrypt", args=[REC, "Bool"], ret="Option Bytes"),
    "self.decryptor.update_keys": dict(kind="method", recv="self.decryptor", lean="update_keys", args=["Bool"], ret="None"),
    "self.generate_keys": dict(kind="ext", lean="generate_keys", args=[f"Option {VER}", "Bytes", "Bytes", "Bytes"],
                               reads=["self.extensions", "self.compression_method", "self.can_decrypt", "self.decryptor"],
                               writes=["self.can_decrypt", "self.decryptor"], ret="None"),
}
# the externals each definition needs (its own and those of the definitions it calls), in this order
SESS_NEEDS = {}


def sess_state_decl():
    lines = ["/-- the attributes of a `Session` the record handlers read and write (δ: the `Decryptor` object) -/",
             "structure Sess.St (δ : Type) where"]
    lines += [f"  {f} : {py2lean.ty(t)}" for _, f, t in SESS_FIELDS]
    lines += ["  deriving DecidableEq, Repr", "", "/-- `record.record_type` (`binary[0]` as `TlsRecord.__init__` stores it, see `TlsRecord_init`) -/",
              f"def Sess.recType (r : {REC}) : Nat := (r.raw.headD 0).toNat"]
    return "\n".join(lines) + "\n"


def sess_spec(func, params, ext, calls=(), name=None, **more):
    """a method of the family; `calls`: the family methods it calls (already declared)"""
    name = name or func
    need = list(ext)
    for c in calls:
        need += [e for e in SESS_NEEDS[c] if e not in need]
    need = [e for e in SESS_EXT if e in need]
    SESS_NEEDS[name] = need
    sc = {k: v for k, v in SESS_METHODS.items() if v["lean"] in need}
    for c in calls:
        cs = next(x for x in SPECS if x["name"] == "Sess." + c)
        sc["self." + c] = dict(kind="shared", lean="Sess." + c, exts=SESS_NEEDS[c], args=[t for _, t in cs["params"]],
                               rplaces=["self.exp_meta"], ret="None")
    spec = dict(name="Sess." + name, group="TlsSess2", file="tlexport/session.py", func="Session." + func, params=params, ret="None",
                tparams=["δ"], state=dict(type=SESS_ST, param="st"), always_res=True, places=SESS_PLACES, maybe_attrs=SESS_MAYBE,
                pairdicts={"self.handshake_13_buffer": 'b""'}, consts=TLSVER, attr_funcs=REC_ATTRS,
                externals=[SESS_EXT[e] for e in need], state_calls=sc)
    spec.update(more)
    SPECS.append(spec)


SPECS.append(dict(name="TlsRecord_init", group="TlsSess2", file="tlexport/tlsrecord.py", func="TlsRecord.__init__", theorem="Sess.TlsRecord_init_eq_model",
                  params=[("binary", "Bytes")], ret="None", raise_state=False, ignore_writes=["self.metadata", "self.isserver"],
                  places=[("self.binary", "binary_", "Bytes", "rw"), ("self.record_type", "record_type", "Nat", "rw"),
                          ("self.record_version", "record_version", "Bytes", "rw"), ("self.record_length", "record_length", "Bytes", "rw"),
                          ("self.raw", "raw", "Bytes", "rw")]))
SPECS.append(dict(name="Sess.St", group="TlsSess2", kind="raw", file="tlexport/session.py", func=None, gen=sess_state_decl,
                  theorem="Sess.handle_tls_record_eq_model"))
R = [("record", REC)]
RS = [("record", REC), ("isserver", "Bool")]
sess_spec("handle_alert", [("alert_level", "Nat")], [])
sess_spec("handle_tls_client_hello", R, [])
sess_spec("handle_tls_server_hello", R, ["generate_keys"], fuel={"while extensions_index": "extensions_length"})
sess_spec("handle_handshake_finished", RS, ["decrypt"], locals={"_plaintext": "Option Bytes"})
sess_spec("handle_tls_handshake_record", RS, [], calls=["handle_handshake_finished", "handle_tls_client_hello", "handle_tls_server_hello"])
sess_spec("handle_decrypted_tls_13_handshake_record", [("plaintext", "Bytes"), ("isserver", "Bool")], ["update_keys"],
          fuel={"while len(buffer)": "len(buffer)"})
sess_spec("handle_tls_13_application_record", RS, ["decrypt"], calls=["handle_decrypted_tls_13_handshake_record", "handle_alert"])
sess_spec("handle_tls_application_record", RS, ["decrypt"])
sess_spec("handle_tls_record", RS, [], calls=["handle_tls_handshake_record", "handle_tls_13_application_record",
                                              "handle_tls_application_record", "handle_alert"])
# get_tls_records: the two loops that hand the records of one direction on, in order (an exception ends the run there)
for _d, _flag in (("server", "True"), ("client", "False")):
    sess_spec("get_tls_records", [], [], calls=["handle_tls_record"], name=f"run_{_d}_records",
              select={"start": f"for record in self.{_d}_tls_records"},
              places=SESS_PLACES + [(f"self.{_d}_tls_records", "records", f"List {REC}", "r")])

# session.py extract_*_buf, the framing part (after the contiguity test): packet_ranges / packet_data, the scan for
# `need_data`, the records with their carrier packets, the next expected sequence number. A packet object is the model's
# `Seg` (`tls_data` = `Seg.data`); a `TlsRecord` is what its constructor gets (`binary`, `metadata`).
for _d in ("server", "client"):
    SPECS.append(dict(name=f"extract_{_d}_frame", group="Reasm2", file="tlexport/session.py", func=f"Session.extract_{_d}_buf",
                      select={"start": "index = 0", "end": "if not need_data:"}, params=[("base", "Nat")],
                      places=[(f"self.{_d}_packet_buffer", "packet_buffer", f"List {SEG}", "rw"),
                              (f"self.{_d}_tls_records", "tls_records", "List TlsRecordObj", "rw"),
                              (f"self.{_d}_next_seq", "next_seq", "Option Nat", "rw")],
                      attr_funcs={(SEG, "tls_data"): ("TLX.Reassembly.Seg.data", "Bytes")},
                      locals={"packet_ranges": f"List (Nat × Nat × {SEG})", "metadata": f"List {SEG}"},
                      fuel={"while True": "total_packet_len + 1", "while index != total_packet_len": "total_packet_len"},
                      ctors={"TlsRecord": dict(type="TlsRecordObj", positional=[("binary", "Bytes"), ("metadata", f"List {SEG}"), (None, None)])}))

# key_derivator.py / quic_key_generation.py: the PRFs, master secrets, key-block slicing and HKDF label plumbing. The hash
# primitives are externals (`hmacX alg key msg`, `hashX alg msg`, `hkdfExpandX alg length info ikm`, `hkdfExtractX alg salt ikm`);
# a hash / HMAC object is `PyRt.Acc` (`update` appends, `finalize` digests); `math.ceil(l_s / 2)` is the external `ceilHalf`
# (float division: exact below 2^53, which the spec does not assume). Hash classes and cipher classes are the model's tags.
MT = "TLX.KeySchedule.MacTag"
CT = "TLX.KeySchedule.CipherTag"
KD = "tlexport/key_derivator.py"
HMACX = ("hmacX", f"{MT} → Bytes → Bytes → Bytes")
HASHX = ("hashX", f"{MT} → Bytes → Bytes")
HKDFX = ("hkdfExpandX", f"{MT} → Nat → Bytes → Bytes → Bytes")
EXTRX = ("hkdfExtractX", f"{MT} → Bytes → Bytes → Bytes")
CEILX = ("ceilHalf", "Nat → Nat")
HASH_CONSTS = {"hashes.SHA256": (f"{MT}.sha256", MT), "hashes.SHA384": (f"{MT}.sha384", MT),
               "hashes.MD5()": (f"{MT}.md5", MT), "hashes.SHA1()": (f"{MT}.sha1", MT)}
CIPHER_CONSTS = {"algorithms.AES": (f"{CT}.aes", CT), "algorithms.Camellia": (f"{CT}.camellia", CT),
                 "algorithms.TripleDES": (f"{CT}.tripleDES", CT), "algorithms.IDEA": (f"{CT}.idea", CT),
                 "ChaCha20Poly1305": (f"{CT}.chacha", CT)}
ACC_CALLS = {"hmac.HMAC": dict(fmt="(PyRt.Acc.mk (hmacX {1} {0}) [])", args=["Bytes", MT], ret="Acc"),
             "hashes.Hash": dict(fmt="(PyRt.Acc.mk (hashX {0}) [])", args=[MT], ret="Acc")}
B4 = [("secret", "Bytes"), ("client_random", "Bytes"), ("server_random", "Bytes")]


def ks_spec(name, params, ret, file=KD, **more):
    spec = dict(name=name, group="KeySched", file=file, func=name, params=params, ret=ret, consts={**HASH_CONSTS, **CIPHER_CONSTS},
                theorem=f"KS.{name}_eq_model",
                instances=[MT], calls=dict(ACC_CALLS))
    for k, v in more.items():
        if k in ("consts", "calls"):
            spec[k] = {**spec[k], **v}
        else:
            spec[k] = v
    SPECS.append(spec)


PRF12 = dict(lean="prf_tls_12 hmacX", args=["Bytes", "Bytes", "Bytes", "Bytes", "Nat", MT], ret="Bytes", raises=True)
PRF1011 = dict(lean="prf_tls_10_11 hmacX ceilHalf", args=["Bytes", "Bytes", "Bytes", "Bytes", "Nat", "Nat"], ret="Bytes", raises=True)
PRF30 = dict(lean="prf_ssl_30 hashX", args=["Bytes", "Bytes", "Bytes", "Nat", "Nat"], ret="Bytes", raises=True)
ks_spec("prf_tls_12", B4 + [("label", "Bytes"), ("length", "Nat"), ("mac_function", MT)], "Bytes", externals=[HMACX],
        fuel={"while len(secret_block)": "length"})
ks_spec("prf_tls_10_11", B4 + [("label", "Bytes"), ("length", "Nat"), ("non_key", "Nat")], "Bytes", externals=[HMACX, CEILX],
        consts={"math.ceil(l_s / 2)": ("(ceilHalf l_s)", "Nat")},
        fuel={"while len(p_md5)": "length", "while len(p_sha1)": "length"})
ks_spec("prf_ssl_30", B4 + [("length", "Nat"), ("non_key", "Nat")], "Bytes", externals=[HASHX], fuel={"while len(key_block)": "length"})
GM = [("pm_secret", "Bytes"), ("client_random", "Bytes"), ("server_random", "Bytes")]
ks_spec("gen_master_secret_tls_12", GM + [("mac_function", MT)], "Bytes", externals=[HMACX])
ks_spec("gen_master_secret_tls_10_11", GM, "Bytes", externals=[HMACX, CEILX], calls={"prf_tls_10_11": PRF1011})
ks_spec("gen_master_secret_ssl_30", GM, "Bytes", externals=[HASHX], calls={"prf_ssl_30": PRF30})
DEV = [("key_length", "Nat"), ("mac_length", "Nat"), ("key_block_length", "Nat"), ("cipher_algo", CT), ("use_aead", "Nat")]
DROP_LOG = ["logging_string", "for k in keys"]
KEYS_T = "Table Str; Bytes"
ks_spec("dev_tls_12_keys", [("master_secret", "Bytes"), ("client_random", "Bytes"), ("server_random", "Bytes")] + DEV + [("mac_function", MT)],
        KEYS_T, externals=[HMACX], calls={"prf_tls_12": PRF12}, drop_stmts=DROP_LOG)
ks_spec("dev_tls_10_11_keys", [("master_secret", "Bytes"), ("server_random", "Bytes"), ("client_random", "Bytes")] + DEV,
        KEYS_T, externals=[HMACX, CEILX], calls={"prf_tls_10_11": PRF1011}, drop_stmts=DROP_LOG)
ks_spec("dev_ssl_30_keys", [("master_secret", "Bytes"), ("server_random", "Bytes"), ("client_random", "Bytes")] + DEV,
        KEYS_T, externals=[HASHX], calls={"prf_ssl_30": PRF30}, drop_stmts=DROP_LOG)
QK = "tlexport/quic/quic_key_generation.py"
ks_spec("make_info", [("label", "Bytes"), ("key_length", "Nat")], "Bytes", file=QK)

# … TLS 1.3 / QUIC: a key-log entry is (label, bytes of the hex value) — `bytes.fromhex(secret.value)` is that second component
KSEC = {"KSecret": "(List Nat × Bytes)"}
KSEC_ATTRS = {("KSecret", "label"): ("Prod.fst", "Str")}
KSEC_CONSTS = {"bytes.fromhex(secret.value)": ("secret.2", "Bytes")}
QV = "TLX.KeySchedule.QuicVersion"
QV_CONSTS = {"QuicVersion.V1": (f"{QV}.v1", QV), "QuicVersion.V2": (f"{QV}.v2", QV)}
HKDF_CALLS = {"HKDFExpand.derive": dict(lean="hkdfExpandX", params=(["algorithm", "length", "info"], ["key_material"]),
                                        args=[MT, "Nat", "Bytes", "Bytes"], ret="Bytes"),
              "HKDF._extract": dict(lean="hkdfExtractX", params=(["algorithm", "length", "salt", "info"], ["key_material"]),
                                    args=[MT, None, "Bytes", None, "Bytes"], ret="Bytes")}
MAKE_INFO = {"make_info": dict(lean="make_info", args=["Bytes", "Nat"], ret="Bytes", raises=True)}
OB = "Option Bytes"
ks_spec("dev_tls_13_keys", [("secret_list", "List KSecret"), ("key_length", "Nat"), ("hash_fun", MT)], f"Table Str; ({OB})",
        externals=[HKDFX], types=KSEC, attr_funcs=KSEC_ATTRS, consts=KSEC_CONSTS, calls=HKDF_CALLS, drop_stmts=DROP_LOG,
        locals={n: OB for n in ("client_handshake_key", "client_handshake_iv", "server_handshake_key", "server_handshake_iv",
                                "client_application_key", "client_application_iv", "server_application_key", "server_application_iv")})
ks_spec("dev_initial_keys", [("connection_id", "Bytes"), ("quic_version", QV), ("chacha20", "Bool")], f"Option ({KEYS_T})", file=QK,
        externals=[HKDFX, EXTRX], consts={**QV_CONSTS, "SHA256()": (f"{MT}.sha256", MT)}, calls={**HKDF_CALLS, **MAKE_INFO})
ks_spec("key_update", [("hash_fun", MT), ("key_length", "Nat"), ("quic_version", QV)], "QDecObj", file=QK,
        externals=[HKDFX, ("digestSize", f"{MT} → Nat")], consts={**QV_CONSTS, "quic_version.V1": ("true", "Bool")},
        attr_funcs={(MT, "digest_size"): ("digestSize", "Nat")}, calls={**HKDF_CALLS, **MAKE_INFO},
        places=[("decryptor_n.keys", "keys", "List Bytes", "r")],
        ctors={"QuicDecryptor": dict(type="QDecObj", positional=[("keys", "List Bytes"), (None, None)], ignore_kw=["early"])})
QK_MAYBE = {f"{side}_{kind}_{part}": "Bytes" for side in ("client", "server") for kind in ("handshake", "application") for part in ("key", "iv", "hp")}
QK_MAYBE.update({"client_application_secret": "Bytes", "server_application_secret": "Bytes"})
ks_spec("dev_quic_keys", [("key_length", "Nat"), ("secret_list", "List KSecret"), ("hash_fun", MT), ("quic_version", QV)], f"Table Str; ({OB})",
        file=QK, externals=[HKDFX], types=KSEC, attr_funcs=KSEC_ATTRS, consts={**KSEC_CONSTS, **QV_CONSTS}, calls={**HKDF_CALLS, **MAKE_INFO},
        drop_stmts=DROP_LOG, maybe_locals=QK_MAYBE, split_loops=True,
        locals={f"{side}_early_traffic_{part}": OB for side in ("client", "server") for part in ("key", "iv", "hp")})

# the output builders: the export loops and the seq/ack arithmetic. A scapy packet is the list of its layers as constructed
# (`Layer`: the keyword arguments given; `/` stacks); what scapy makes of them is compared byte for byte by the harness.
LAYERS = {"Layers": "(List Layer)"}
ADDR = "Str|Bytes"
SCAPY_CALLS = {"Ether": dict(lean="mkEther", params=["src", "dst"], args=["Bytes", "Bytes"], ret="Layers"),
               "IP": dict(lean="mkIP false", params=["src", "dst"], args=[ADDR, ADDR], ret="Layers"),
               "IPv6": dict(lean="mkIP true", params=["src", "dst"], args=[ADDR, ADDR], ret="Layers"),
               "UDP": dict(lean="mkUDP", params=["dport", "sport"], args=["Nat", "Nat"], ret="Layers"),
               "TCP": dict(lean="mkTCP", params=["dport", "sport", "flags", "seq", "ack"], args=["Nat", "Nat", "Str", "Nat", "Nat"], ret="Layers"),
               "Raw": dict(lean="mkRaw", args=["Bytes"], ret="Layers")}
LAYER_DECL = """/-- one scapy layer as constructed: the keyword arguments given -/
inductive Layer
  | ether (src dst : Bytes)
  | ip (v6 : Bool) (src dst : Sum (List Nat) Bytes)
  | udp (dport sport : Nat)
  | tcp (dport sport : Nat) (flags : List Nat) (seq ack : Nat)
  | raw (load : Bytes)
  deriving DecidableEq, Repr

abbrev Layers := List Layer
/-- a `TlsRecord` as the TCP builder reads it (the capture times of `metadata`), a packet of `metadata` (its `timestamp`) -/
abbrev TRec := List Nat
abbrev TPkt := Nat

def mkEther (src dst : Bytes) : List Layer := [Layer.ether src dst]
def mkIP (v6 : Bool) (src dst : Sum (List Nat) Bytes) : List Layer := [Layer.ip v6 src dst]
def mkUDP (dport sport : Nat) : List Layer := [Layer.udp dport sport]
def mkTCP (dport sport : Nat) (flags : List Nat) (seq ack : Nat) : List Layer := [Layer.tcp dport sport flags seq ack]
def mkRaw (load : Bytes) : List Layer := [Layer.raw load]
"""
GROUPS["Builders"] = dict(imports=["TLX.PyRt", "TLX.TcpOut", "TLX.Quic.UdpOut"], decls=[LAYER_DECL],
                          options=["set_option linter.unusedVariables false"])
UF = "TLX.Quic.UdpOut.Frame"
QB_ADDR = [("self.server_mac_address", "server_mac", "Bytes", "r"), ("self.client_mac_address", "client_mac", "Bytes", "r"),
           ("self.server_ip", "server_ip", "Str", "r"), ("self.client_ip", "client_ip", "Str", "r"),
           ("self.server_port", "server_port", "Nat", "r"), ("self.client_port", "client_port", "Nat", "r"), ("self.ipv6", "ipv6", "Bool", "r")]
SPECS.append(dict(name="quic_build", group="Builders", theorem="Bld.quic_build_eq_model", file="tlexport/quic/quic_output_builder.py", func="QUICOutputbuilder.build",
                  params=[("metadata", "Bool")], ret="List (Layers × (Option Nat))", types=LAYERS, calls=SCAPY_CALLS, split_loops=True,
                  places=[("self.decrypted_traffic", "decrypted_traffic", f"List {UF}", "r"),
                          ("self.out", "out", "List (Layers × (Option Nat))", "rw")] + QB_ADDR,
                  locals={"ts": "Option Nat", "isserver": "Option Bool", "data": "Option Bytes"},
                  consts={"frame.src_packet.ts": (f"({UF}.ts frame)", "Nat"), "frame.src_packet.isserver": (f"({UF}.isServer frame)", "Bool")},
                  attr_funcs={(UF, "frame_type"): (f"{UF}.ftype", "Nat"), (UF, "crypto"): (f"{UF}.data", "Bytes"),
                              (UF, "payload"): (f"{UF}.data", "Bytes"), (UF, "stream_data"): (f"{UF}.data", "Bytes")}))

# OutputBuilder: `build` and the three methods it calls, over one state record (`Tcp.St`). `floor(record_len / packet_count)` is
# the external `fdivfloor` (a float division: exact for operands below 2^26, which TLS record lengths and carrier counts are;
# the theorems give `fdivfloor a b = a // b`, ZeroDivisionError for b = 0). A record of `decrypted_records` is
# (plaintext or None, the capture times of its carrier packets, direction).
TCP_FIELDS = [("self.out", "out", "List (Layers × Nat)"), ("self.server_seq", "server_seq", "Nat"), ("self.client_seq", "client_seq", "Nat"),
              ("self.ts_zero", "ts_zero", "Option Nat"), ("self.conn_reset", "conn_reset", "Bool"),
              ("self.no_application_records", "no_application_records", "Bool")]
TCP_ADDR = [("self.server_mac_addr", "server_mac", "Bytes", "r"), ("self.client_mac_addr", "client_mac", "Bytes", "r"),
            ("self.server_ip", "server_ip", "Str", "r"), ("self.client_ip", "client_ip", "Str", "r"),
            ("self.server_port", "server_port", "Nat", "r"), ("self.client_port", "client_port", "Nat", "r"), ("self.ipv6", "ipv6", "Bool", "r")]
TCP_PLACES = [(k, f, t, "s") for k, f, t in TCP_FIELDS] + TCP_ADDR
TCP_RPLACES = [p[0] for p in TCP_ADDR]
FDIV = ("fdivfloor", "Int → Int → Except PyRt.Err Int")


def tcp_state_decl():
    return ("/-- the attributes of an `OutputBuilder` its methods write -/\nstructure Tcp.St where\n"
            + "".join(f"  {f} : {py2lean.ty(t)}\n" for _, f, t in TCP_FIELDS) + "  deriving DecidableEq, Repr\n")


SPECS.append(dict(name="Tcp.St", group="Builders", kind="raw", file="tlexport/output_builder.py", func=None, gen=tcp_state_decl,
                  theorem="Bld.tcp_build_eq_model"))


def tcp_spec(func, params, ext, calls=(), **more):
    sc = {}
    for c, cparams in calls:
        sc["self." + c] = dict(kind="shared", lean="Tcp." + c, exts=[e for e in (["fdivfloor"] if c != "build_ack_handshake" else [])],
                               args=[t for _, t in cparams], rplaces=TCP_RPLACES, ret="None")
    spec = dict(name="Tcp." + func, group="Builders", file="tlexport/output_builder.py", func="OutputBuilder." + func, params=params,
                ret="None", state=dict(type="Tcp.St", param="st"), always_res=True, places=TCP_PLACES, maybe_attrs=["self.ts_zero"],
                types={**LAYERS, "TRec": "(List Nat)", "TPkt": "Nat"}, calls=SCAPY_CALLS, externals=ext, state_calls=sc, split_loops=True,
                theorem=f"Bld.tcp_{func}_eq_model")
    spec.update(more)
    SPECS.append(spec)


PK = [("decrypted", "Bytes"), ("ts", "List Nat")]
tcp_spec("build_ack_handshake", [], [])
tcp_spec("build_server_packet", PK, [FDIV], locals={"parts": "List Bytes"})
tcp_spec("build_client_packet", PK, [FDIV], locals={"parts": "List Bytes"})
tcp_spec("build", [], [FDIV], calls=[("build_ack_handshake", []), ("build_server_packet", PK), ("build_client_packet", PK)],
         ret="List (Layers × Nat)", locals={"ts": "List Nat"},
         places=TCP_PLACES + [("self.decrypted_records", "decrypted_records", "List ((Option Bytes) × TRec × Bool)", "r")],
         attr_funcs={("TRec", "metadata"): ("id", "List TPkt"), ("TPkt", "timestamp"): ("id", "Nat")})

# decryptor.py: the control flow and byte arithmetic around the primitive calls, over one state record (`Dec.St`). The AEAD
# objects are what their constructors got (`AeadObj`), `cipher.decrypt(nonce, data, aad)` is the external `aeadOpen`; logging
# calls are NOT dropped here: `{key.hex()}` inside their f-strings raises AttributeError for a `None` key (`log_effects`).
RLV = "TLX.RecordLayer.Version"
ALG = "TLX.Cipher.Alg"
CTY = "TLX.RecordLayer.CType"
RLR = "TLX.RecordLayer.Rec"
DF = "tlexport/decryptor.py"
RLV_CONSTS = {f"TlsVersion.{a}": (f"{RLV}.{b}", RLV) for a, b in
              [("SSL30", "ssl30"), ("TLS10", "tls10"), ("TLS11", "tls11"), ("TLS12", "tls12"), ("TLS13", "tls13")]}
ALG_CONSTS = {a: (f"{ALG}.{b}", ALG) for a, b in [("AES", "aes"), ("TripleDES", "tdes"), ("Camellia", "camellia"), ("IDEA", "idea"),
                                                   ("AESCCM", "aesccm"), ("AESGCM", "aesgcm"), ("ChaCha20", "chacha20"),
                                                   ("ChaCha20Poly1305", "chachaPoly"), ("ARC4", "arc4")]}
CTY_CONSTS = {f"EncryptionType.{a}": (f"{CTY}.{b}", CTY) for a, b in
              [("Stream_Cipher", "stream"), ("Block_Cipher", "block"), ("AEAD", "aead"), ("Unknown", "unknown")]}
OB2 = "Option (Option Bytes)"
DEC_FIELDS = ([(f"self.{d}_{k}", f"{d}_{k}", "Option Bytes") for d in ("server", "client") for k in ("key", "iv")]
              + [("self.server_seq", "server_seq", "Nat"), ("self.client_seq", "client_seq", "Nat"),
                 ("self.last_block_server", "last_block_server", OB2), ("self.last_block_client", "last_block_client", OB2)]
              + [(f"self.{d}_{k}", f"{d}_{k}", OB2) for d in ("server", "client")
                 for k in ("handshake_key", "handshake_iv", "application_key", "application_iv")]
              + [("self.cipher_type", "cipher_type", f"Option {CTY}")])
DEC_MAYBE = [k for k, _, t in DEC_FIELDS if t == OB2] + ["self.cipher_type"]
DEC_CFG = [("self.tls_version", "tls_version", RLV, "r"), ("self.bulk_alg", "bulk_alg", ALG, "r"), ("self.mac_length", "mac_length", "Nat", "r"),
           ("self.tag_length", "tag_length", "Nat", "r"), ("self.block_length", "block_length", "Nat", "r"),
           ("self.encrypt_then_mac", "encrypt_then_mac", "Bool", "r"), ("self.compression_method", "compression_method", "Nat", "r")]
DEC_PLACES = [(k, f, t, "s") for k, f, t in DEC_FIELDS] + DEC_CFG
DEC_REC_ATTRS = {(RLR, "binary"): (f"{RLR}.body", "Bytes"), (RLR, "raw"): (f"{RLR}.raw", "Bytes"), (RLR, "record_version"): (f"{RLR}.ver", "Bytes"),
                 (RLR, "record_length"): (f"{RLR}.len", "Bytes"), (RLR, "record_type"): ("Dec.recType", "Nat")}
AEADX = ("aeadOpen", "AeadObj → Bytes → Bytes → Bytes → Except PyRt.Err Bytes")
INFLX = ("inflate", "Bytes → Bool → Except PyRt.Err Bytes")
DEC_DECL = ("/-- an AEAD cipher object as constructed: the class, the key and (AESCCM) the tag length -/\n"
            f"structure AeadObj where\n  alg : {ALG}\n  key : Bytes\n  tag : Option Nat\n  deriving DecidableEq, Repr\n\n"
            f"/-- `record.record_type` -/\ndef Dec.recType (r : {RLR}) : Nat := r.typ.toNat\n")
GROUPS["Decrypt"] = dict(imports=["TLX.PyRt", "TLX.RecordLayer"], decls=[DEC_DECL], options=["set_option linter.unusedVariables false"])


def dec_state_decl():
    return ("/-- the attributes of a `Decryptor` its methods write -/\nstructure Dec.St where\n"
            + "".join(f"  {f} : {py2lean.ty(t)}\n" for _, f, t in DEC_FIELDS) + "  deriving DecidableEq, Repr\n")


SPECS.append(dict(name="Dec.byte_xor", group="Decrypt", file=DF, func="byte_xor", params=[("a", "Bytes"), ("b", "Bytes")], ret="Bytes",
                  theorem="Decr.byte_xor_eq_model"))
SPECS.append(dict(name="Dec.St", group="Decrypt", kind="raw", file=DF, func=None, gen=dec_state_decl, theorem="Decr.decrypt_eq_model"))
DEC_ROUTINES = ["decrypt_tls13_aead", "decrypt_tls13_stream_cipher", "decrypt_tls12_chacha20", "decrypt_generic_stream_cipher",
                "decrypt_tls12_aead", "decrypt_tls12_block_cipher", "decrypt_last_block_iv_cbc"]
ROUT_T = f"Dec.St → {RLR} → Bool → PyRt.Res Dec.St Bytes"


def dec_spec(func, params, ret="None", ext=(), **more):
    spec = dict(name="Dec." + func, group="Decrypt", file=DF, func="Decryptor." + func, params=params, ret=ret,
                state=dict(type="Dec.St", param="st"), always_res=True, places=DEC_PLACES, maybe_attrs=DEC_MAYBE, log_effects=True,
                consts={**RLV_CONSTS, **ALG_CONSTS, **CTY_CONSTS}, attr_funcs=DEC_REC_ATTRS, externals=list(ext),
                theorem=f"Decr.{func}_eq_model",
                calls={"byte_xor": dict(lean="Dec.byte_xor", args=["Bytes", "Bytes"], ret="Bytes", raises=True),
                       "AESGCM": dict(fmt="(AeadObj.mk TLX.Cipher.Alg.aesgcm {0} none)", args=["Bytes"], ret="AeadObj"),
                       "AESCCM": dict(fmt="(AeadObj.mk TLX.Cipher.Alg.aesccm {0} (some {1}))", args=["Bytes", "Nat"], ret="AeadObj"),
                       "ChaCha20Poly1305": dict(fmt="(AeadObj.mk TLX.Cipher.Alg.chachaPoly {0} none)", args=["Bytes"], ret="AeadObj"),
                       "self.inflate": dict(lean="inflate", args=["Bytes", "Bool"], ret="Bytes", raises=True)},
                obj_methods={("AeadObj", "decrypt"): dict(lean="aeadOpen", args=["Bytes", "Bytes", "Bytes"], ret="Bytes", raises=True)})
    spec.update(more)
    SPECS.append(spec)


DR = [("record", RLR), ("isserver", "Bool")]
dec_spec("get_cipher_type", [])
dec_spec("update_keys", [("isserver", "Bool")])
for _r in ("decrypt_tls13_aead", "decrypt_tls13_stream_cipher", "decrypt_tls12_chacha20", "decrypt_tls12_aead"):
    dec_spec(_r, DR, ret="Bytes", ext=[AEADX, INFLX], locals={"cipher": "AeadObj"})
# the dispatch: the seven routines are externals here (the four above are translated themselves, the other three — the RC4
# context that two attributes alias, the CBC routines with `int(self.block_length / 8)` — are not)
dec_spec("decrypt", DR, ret="Option Bytes", ext=[(r, ROUT_T) for r in DEC_ROUTINES],
         state_calls={"self." + r: dict(kind="extshared", lean=r, args=[RLR, "Bool"], ret="Bytes") for r in DEC_ROUTINES})

# quic_tls_parser.py: the handshake-message parsers of a QUIC session (`handle_record` and everything below it) over one state
# record (`QTls.St`); the varint functions are the Varint group's. NOT translated: `update_session` / `handle_buffer` (a list of
# frame objects sorted with a key function and `list.remove` by identity, dicts of lists keyed by packet type).
QT = "tlexport/quic/quic_tls_parser.py"
QT_FIELDS = [("self.client_random", "client_random", "Option Bytes"), ("self.ciphersuite", "ciphersuite", "Option Bytes"),
             ("self.alpn", "alpn", "Option Bytes"), ("self.tls_vers", "tls_vers", "Option Bytes"), ("self.greasy_bit", "greasy_bit", "Bool"),
             ("self.new_data", "new_data", "Bool"), ("self.session_id", "session_id", "Option Bytes")]
QT_PLACES = [(k, f, t, "s") for k, f, t in QT_FIELDS]
GROUPS["QuicTls"] = dict(imports=["TLX.PyRt", "TLX.Quic.TlsMsgs", "TLX.Gen.Translated.Varint"], decls=[], options=["set_option linter.unusedVariables false"])


def qtls_state_decl():
    return ("/-- the attributes of a `QuicTlsSession` the message parsers write -/\nstructure QTls.St where\n"
            + "".join(f"  {f} : {py2lean.ty(t)}\n" for _, f, t in QT_FIELDS) + "  deriving DecidableEq, Repr\n")


SPECS.append(dict(name="QTls.St", group="QuicTls", kind="raw", file=QT, func=None, gen=qtls_state_decl, theorem="QTlsP.handle_record_eq_model"))


def qtls_spec(func, params, calls=(), **more):
    sc = {}
    for c, cp in calls:
        sc["self." + c] = dict(kind="shared", lean="QTls." + c, exts=[], args=[t for _, t in cp], rplaces=[], ret="None")
    spec = dict(name="QTls." + func, group="QuicTls", file=QT, func="QuicTlsSession." + func, params=params, ret="None",
                state=dict(type="QTls.St", param="st"), always_res=True, places=QT_PLACES, state_calls=sc, calls=VARINT_CALLS,
                split_loops=True, theorem=f"QTlsP.{func}_eq_model")
    spec.update(more)
    SPECS.append(spec)


RB1 = [("record", "Bytes")]
qtls_spec("get_quic_transport_parameters", [("extension_body", "Bytes")], fuel={"while True": "len(extension_body) + 1"},
          locals={"parameters": "List (Nat × Nat × Bytes)"})
qtls_spec("get_extensions", RB1, calls=[("get_quic_transport_parameters", [("e", "Bytes")])], fuel={"while True": "len(record) + 1"},
          locals={"extensions": "List (Bytes × Nat × Bytes)"})
qtls_spec("handle_client_hello", RB1, calls=[("get_extensions", RB1)])
qtls_spec("handle_server_hello", RB1, calls=[("get_extensions", RB1)])
qtls_spec("handle_encrypted_extensions", RB1, calls=[("get_extensions", RB1)])
qtls_spec("handle_record", [("record_type", "Nat"), ("record", "Bytes")],
          calls=[("handle_client_hello", RB1), ("handle_server_hello", RB1), ("handle_encrypted_extensions", RB1)])

# quic_session.py, the packet path over the MODEL's state record itself (`TLX.Quic.Session.St σ`, σ = the QuicTlsSession object):
# `handle_frame`, `decrypt_packet`. A frame object is the model's `Out` (the parsed frame + what is read of `frame.src_packet`),
# a packet object the model's `Pkt`, a QuicDecryptor the model's `Dec`; `self.decryptors["…"]` are the four Option fields
# (KeyError on `none`, `maybe_keys`). Externals: handle_crypto_frame, check_key_epoch, get_full_packet_number,
# set_largest_packet_number (the last three are translated in groups Pn / QuicSess on their own), `QuicDecryptor.decrypt`, parse_frames.
QS_ST = "TLX.Quic.Session.St σ"
OUT = "TLX.Quic.Session.Out"
PKT = "TLX.Quic.Pkt"
QS_DECL = ("/-- `isinstance(frame, C)` for the frame classes of quic_frame.py (all direct subclasses of `Frame`) -/\n"
           f"def QS.isCrypto (f : {OUT}) : Bool := match f.frame with | .parsed (.crypto ..) => true | _ => false\n"
           f"def QS.isStream (f : {OUT}) : Bool := match f.frame with | .parsed (.stream ..) => true | _ => false\n"
           f"def QS.isNewCid (f : {OUT}) : Bool := match f.frame with | .parsed (.newConnectionId ..) => true | _ => false\n"
           f"def QS.isClose (f : {OUT}) : Bool := match f.frame with | .parsed (.connectionClose ..) => true | _ => false\n"
           f"def QS.isVersionNeg (f : {OUT}) : Bool := match f.frame with | .versionNeg => true | _ => false\n"
           "/-- `frame.connection_id` (read for a NewConnectionIdFrame only) -/\n"
           f"def QS.connectionId (f : {OUT}) : Bytes := match f.frame with | .parsed (.newConnectionId _ _ _ _ cid _) => cid | _ => []\n"
           "/-- `isinstance(quic_packet, ShortQuicPacket)` / `LongQuicPacket` (the two classes are disjoint) -/\n"
           f"def QS.isShort (p : {PKT}) : Bool := decide (p.htype = .short)\n"
           f"def QS.isLong (p : {PKT}) : Bool := decide (p.htype = .long)\n"
           "/-- `quic_packet.supported_version` (a VersionNegotiationPacket; stored in the pseudo frame, never read: not modelled) -/\n"
           f"def QS.supportedVersion (p : {PKT}) : Bytes := []\n"
           "/-- `PseudoVersionNegotiationFrame(payload=…, src_packet=quic_packet)` -/\n"
           f"def QS.vnFrame (payload : Bytes) (p : {PKT}) : {OUT} := ⟨.versionNeg, p.ts, p.isServer, p.ptype⟩\n")
GROUPS["QuicSess2"] = dict(imports=["TLX.PyRt", "TLX.Quic.Session"], decls=[QS_DECL], options=["set_option linter.unusedVariables false"])
QS_PLACES = [("self.server_cids", "serverCids", "Set Bytes", "s"), ("self.client_cids", "clientCids", "Set Bytes", "s"),
             ("self.output_buffer", "out", f"List {OUT}", "s"),
             ("self.epoch_server", "epochServer", "Nat", "s"), ("self.epoch_client", "epochClient", "Nat", "s"),
             ("self.decryptors['Initial']", "decInitial", f"Option {QDEC}", "s"),
             ("self.decryptors['Handshake']", "decHandshake", f"Option {QDEC}", "s"),
             ("self.decryptors['Early']", "decEarly", f"Option {QDEC}", "s"),
             ("self.decryptors['Application']", "decApp", f"Option (List {QDEC})", "s")]
QS_KEYS = ["self.decryptors['Initial']", "self.decryptors['Handshake']", "self.decryptors['Early']", "self.decryptors['Application']"]
QS_RES = f"PyRt.Res ({QS_ST})"
QS_EXT = {"handle_crypto_frame": ("handle_crypto_frame", f"{QS_ST} → {OUT} → {QS_RES} Unit"),
          "check_key_epoch": ("check_key_epoch", f"{QS_ST} → Option Nat → Bool → {QS_RES} Unit"),
          "get_full_packet_number": ("get_full_packet_number", f"{QS_ST} → {PKT} → {QS_RES} Bytes"),
          "set_largest_packet_number": ("set_largest_packet_number", f"{QS_ST} → {PKT} → Bytes → {QS_RES} Unit"),
          "dec_decrypt": ("dec_decrypt", f"{QDEC} → Option Bytes → Bytes → Bytes → Bool → Except PyRt.Err Bytes"),
          "parse_frames": ("parse_frames", f"Bytes → {PKT} → Except PyRt.Err (List {OUT})")}
QS_ATTRS = {(OUT, "src_packet"): ("id", OUT + ".src"), (OUT + ".src", "isserver"): (f"{OUT}.isServer", "Bool"),
            (OUT, "connection_id"): ("QS.connectionId", "Bytes"),
            (PKT, "packet_type"): (f"{PKT}.ptype", PT), (PKT, "isserver"): (f"{PKT}.isServer", "Bool"),
            (PKT, "key_phase"): (f"{PKT}.keyPhase", "Option Nat"), (PKT, "first_byte"): (f"{PKT}.firstByte", "Bytes"),
            (PKT, "version"): (f"{PKT}.version", "Option Bytes"), (PKT, "dcid_len"): (f"{PKT}.dcidLen", "Option Bytes"),
            (PKT, "dcid"): (f"{PKT}.dcid", "Bytes"), (PKT, "scid_len"): (f"{PKT}.scidLen", "Option Bytes"),
            (PKT, "scid"): (f"{PKT}.scid", "Option Bytes"), (PKT, "token_len_bytes"): (f"{PKT}.tokenLenBytes", "Option Bytes"),
            (PKT, "token"): (f"{PKT}.token", "Option Bytes"), (PKT, "packet_len_bytes"): (f"{PKT}.lenBytes", "Option Bytes"),
            (PKT, "packet_num"): (f"{PKT}.pn", "Option Bytes"), (PKT, "payload"): (f"{PKT}.payload", "Option Bytes")}
QS_CLASSES = {(OUT, "CryptoFrame"): "QS.isCrypto", (OUT, "StreamFrame"): "QS.isStream", (OUT, "NewConnectionIdFrame"): "QS.isNewCid",
              (OUT, "ConnectionCloseFrame"): "QS.isClose", (OUT, "PseudoVersionNegotiationFrame"): "QS.isVersionNeg",
              (PKT, "ShortQuicPacket"): "QS.isShort", (PKT, "LongQuicPacket"): "QS.isLong"}
QSF = "tlexport/quic/quic_session.py"


def qs_spec(func, params, ext, name=None, **more):
    spec = dict(name="QS." + (name or func), group="QuicSess2", file=QSF, func="QuicSession." + func, params=params, ret="None",
                tparams=["σ"], state=dict(type=QS_ST, param="st"), always_res=True, places=QS_PLACES, maybe_keys=QS_KEYS,
                consts=PTYPE, attr_funcs=QS_ATTRS, classes=QS_CLASSES, externals=[QS_EXT[e] for e in ext],
                theorem=f"QSess.{name or func}_eq_model")
    spec.update(more)
    SPECS.append(spec)


qs_spec("handle_frame", [("frame", OUT)], ["handle_crypto_frame"],
        state_calls={"self.handle_crypto_frame": dict(kind="extshared", lean="handle_crypto_frame", args=[OUT], ret="None")})
# decrypt_packet in three fragments of its `try:` body (the whole body, continuation-passed, is 1400 lines of Lean): the decryptor
# selection, the associated data, and everything from `decryptor.decrypt` on (AEAD check → largest packet number → parse_frames →
# handle_frame loop). NOT covered: that the fragments run in this order inside one try/except.
qs_spec("decrypt_packet", [("quic_packet", PKT)], ["check_key_epoch"], name="decrypt_select",
        select={"start": "if isinstance(quic_packet, ShortQuicPacket):"}, maybe_locals={"decryptor": QDEC},
        outs=[("decryptor", f"Option {QDEC}")],
        state_calls={"self.check_key_epoch": dict(kind="extshared", lean="check_key_epoch", args=["Option Nat", "Bool"], ret="None")})
qs_spec("decrypt_packet", [("quic_packet", PKT)], [], name="decrypt_aad",
        select={"start": "if isinstance(quic_packet, LongQuicPacket):"}, maybe_locals={"associated_data": "Bytes"},
        outs=[("associated_data", "Option Bytes")])
qs_spec("decrypt_packet", [("quic_packet", PKT), ("decryptor", QDEC), ("packet_number", "Bytes"), ("associated_data", "Bytes")],
        ["handle_crypto_frame", "set_largest_packet_number", "dec_decrypt", "parse_frames"], name="decrypt_rest",
        select={"start": "payload = decryptor.decrypt(", "end": "for frame in frames:"},
        calls={"parse_frames": dict(lean="parse_frames", args=["Bytes", PKT], ret=f"List {OUT}", raises=True)},
        obj_methods={(QDEC, "decrypt"): dict(lean="dec_decrypt", args=["Option Bytes", "Bytes", "Bytes", "Bool"], ret="Bytes", raises=True)},
        state_calls={"self.set_largest_packet_number": dict(kind="extshared", lean="set_largest_packet_number", args=[PKT, "Bytes"], ret="None"),
                     "self.handle_frame": dict(kind="shared", lean="QS.handle_frame", exts=["handle_crypto_frame"], args=[OUT], ret="None")})
# the whole method: the three parts above in their order inside the try/except (`join_raises`: an `if` whose branches may raise
# is one `Res` value, so that the statements after it are rendered once)
qs_spec("decrypt_packet", [("quic_packet", PKT)],
        ["handle_crypto_frame", "check_key_epoch", "get_full_packet_number", "set_largest_packet_number", "dec_decrypt", "parse_frames"],
        maybe_locals={"decryptor": QDEC, "associated_data": "Bytes"}, join_raises=True,
        drop_calls=["print(e)", "logging.warning(f'Could not decrypt Quic Packet: {quic_packet.dcid}')"],
        calls={"parse_frames": dict(lean="parse_frames", args=["Bytes", PKT], ret=f"List {OUT}", raises=True)},
        obj_methods={(QDEC, "decrypt"): dict(lean="dec_decrypt", args=["Option Bytes", "Bytes", "Bytes", "Bool"], ret="Bytes", raises=True)},
        state_calls={"self.check_key_epoch": dict(kind="extshared", lean="check_key_epoch", args=["Option Nat", "Bool"], ret="None"),
                     "self.get_full_packet_number": dict(kind="extshared", lean="get_full_packet_number", args=[PKT], ret="Bytes"),
                     "self.set_largest_packet_number": dict(kind="extshared", lean="set_largest_packet_number", args=[PKT, "Bytes"], ret="None"),
                     "self.handle_frame": dict(kind="shared", lean="QS.handle_frame", exts=["handle_crypto_frame"], args=[OUT], ret="None")})
# handle_quic_packet: the loop over the dissected packets (decrypt_packet; the Version Negotiation pseudo frame; the reset after a
# Retry; learning both CIDs from an Initial). `self.decryptors = {}` / `self.keys = {}` / the three suite attributes are mapped to
# the model's fields by `stmt_updates`; `scid` / `supported_version` exist on long-header packet objects only (`attr_guards`).
QS_ALL_EXT = ["handle_crypto_frame", "check_key_epoch", "get_full_packet_number", "set_largest_packet_number", "dec_decrypt", "parse_frames"]
QS_EXT["tls_init"] = ("tls_init", "σ")
QS_RETRY = {"self.tls_session = QuicTlsSession()": "tls := tls_init",
            "self.decryptors = {}": "decInitial := none, decHandshake := none, decEarly := none, decApp := none",
            "self.keys: dict[str, bytes] = {}": "keysInitial := false, keysHs := false, keysApp := false, keysEarly := false",
            "self.hash_fun = None": "suite := none", "self.cipher = None": "", "self.key_length = None": "", "self.alpn = None": "",
            "self.packet_buffer_quic = []": ""}
qs_spec("handle_quic_packet", [], QS_ALL_EXT + ["tls_init"],
        places=QS_PLACES + [("self.packet_buffer_quic", "pkts", f"List {PKT}", "r")], stmt_updates=QS_RETRY,
        attr_funcs={**QS_ATTRS, (PKT, "supported_version"): ("QS.supportedVersion", "Bytes")},
        attr_guards={(PKT, "scid"): "QS.isLong", (PKT, "supported_version"): "QS.isLong"},
        calls={"PseudoVersionNegotiationFrame": dict(lean="QS.vnFrame", params=["payload", "src_packet"], args=["Bytes", PKT], ret=OUT)},
        state_calls={"self.decrypt_packet": dict(kind="shared", lean="QS.decrypt_packet", exts=QS_ALL_EXT, args=[PKT], ret="None"),
                     "self.handle_frame": dict(kind="shared", lean="QS.handle_frame", exts=["handle_crypto_frame"], args=[OUT], ret="None")})
# handle_crypto_frame: the QuicTlsSession object is the opaque σ (`update_session`, its attributes and the reset of `new_data` are
# externals); `self.alpn` / `self.greasy_bit` are outside the model.
QSV = "TLX.Quic.Session.Version"
QS_EXT.update({"tls_update": ("tls_update", f"σ → {OUT} → PyRt.Res σ Unit"), "tls_new_data": ("tls_new_data", "σ → Bool"),
               "tls_client_random": ("tls_client_random", "σ → Option Bytes"), "tls_ciphersuite": ("tls_ciphersuite", "σ → Option Bytes"),
               "tls_clear_new_data": ("tls_clear_new_data", "σ → σ"),
               "set_tls_decryptors": ("set_tls_decryptors", f"{QS_ST} → Option Bytes → Option Bytes → {QS_RES} Unit"),
               "set_initial_decryptor": ("set_initial_decryptor", f"{QS_ST} → Bytes → Bool → {QS_RES} Unit"),
               "packet_isserver": ("packet_isserver", f"{QS_ST} → PacketObj → Bytes → {QS_RES} Bool")})
qs_spec("handle_crypto_frame", [("frame", OUT)],
        ["tls_update", "tls_new_data", "tls_client_random", "tls_ciphersuite", "tls_clear_new_data", "set_tls_decryptors"],
        places=QS_PLACES + [("self.tls_session", "tls", "σ", "s")],
        attr_funcs={**QS_ATTRS, ("σ", "new_data"): ("tls_new_data", "Bool"), ("σ", "client_random"): ("tls_client_random", "Option Bytes"),
                    ("σ", "ciphersuite"): ("tls_ciphersuite", "Option Bytes")},
        stmt_updates={"self.alpn = self.tls_session.alpn": "", "self.greasy_bit = self.tls_session.greasy_bit": "",
                      "self.tls_session.new_data = False": "tls := tls_clear_new_data {st}.tls"},
        state_calls={"self.tls_session.update_session": dict(kind="method", recv="self.tls_session", lean="tls_update", args=[OUT], ret="None"),
                     "self.set_tls_decryptors": dict(kind="extshared", lean="set_tls_decryptors", args=["Option Bytes", "Option Bytes"], ret="None")})
# handle_packet up to its loop: the version latch, the Initial decryptor from the routing DCID, the direction of the datagram
qs_spec("handle_packet", [("packet", "PacketObj"), ("dcid", "Bytes"), ("quic_version", QSV)], ["set_initial_decryptor", "packet_isserver"],
        name="handle_packet_pre", tparams=["σ", "PacketObj"],
        select={"start": "if self.quic_version == QuicVersion.UNKNOWN:", "end": "isserver = self.packet_isserver(packet, dcid)"},
        outs=[("isserver", "Bool")],
        places=QS_PLACES + [("self.quic_version", "version", QSV, "s")],
        consts={**PTYPE, "QuicVersion.UNKNOWN": (f"{QSV}.unknown", QSV),
                "'Initial' not in list(self.decryptors.keys())": ("(Option.isNone {st}.decInitial)", "Bool")},
        state_calls={"self.set_initial_decryptor": dict(kind="extshared", lean="set_initial_decryptor", args=["Bytes", "Bool"], ret="None"),
                     "self.packet_isserver": dict(kind="extshared", lean="packet_isserver", args=["PacketObj", "Bytes"], ret="Bool")})

# main.py, what the Demux group leaves: the key-log statements of run() (the `-s` file, a decryption secrets block of the capture),
# the collection of the exported frames (every TLS session in list order, then every QUIC session), the TCP session lookup /
# creation of handle_packet. Sessions are opaque objects (σ / τ), their methods externals; κ = a key-log entry, ο = an exported frame.
GROUPS["Main2"] = dict(imports=["TLX.PyRt", "TLX.MainLoop", "TLX.Quic.Packet"], decls=[], options=["set_option linter.unusedVariables false"])
MAINF = "tlexport/main.py"
SPECS.append(dict(name="Main.collect", group="Main2", file=MAINF, func="run", theorem="Main2.collect_eq_model",
                  select={"start": "all_decrypted_sessions = []", "end": "for quic_session in quic_sessions:"}, tparams=["σ", "τ", "ο"],
                  params=[("sessions", "List σ"), ("quic_sessions", "List τ"), ("metadata", "Bool")],
                  locals={"all_decrypted_sessions": "List ο"}, outs=[("all_decrypted_sessions", "List ο")], st_tparams=["ο"],
                  externals=[("tls_out", "σ → List ο"), ("quic_out", "τ → Bool → List ο")],
                  obj_methods={("σ", "decrypt"): dict(lean="tls_out", args=[], ret="List ο"),
                               ("τ", "build_output"): dict(lean="quic_out", args=["Bool"], ret="List ο")}))
SPECS.append(dict(name="Main.run_dsb", group="Main2", file=MAINF, func="run", theorem="Main2.run_dsb_eq_model",
                  select={"start": "if ts == -1:"}, tparams=["κ"], st_tparams=["κ"], params=[("ts", "Int"), ("buf", "Bytes")], exits=True,
                  places=[("keylog", "keylog", "List κ", "rw")], externals=[("keys_of", "Bytes → List κ")],
                  consts={"keylog_reader.get_keys_from_string(buf.decode('ascii'))": ("(keys_of buf)", "List κ")}))
SPECS.append(dict(name="Main.run_keylog_file", group="Main2", file=MAINF, func="run", theorem="Main2.run_keylog_file_eq_model",
                  select={"start": "if args.sslkeylog is not None:"}, tparams=["κ", "ρ"], st_tparams=["κ"], params=[],
                  places=[("keylog", "keylog", "List κ", "rw"), ("args.sslkeylog", "sslkeylog", "Option ρ", "r")],
                  externals=[("file_keys", "Option ρ → List κ")],
                  calls={"keylog_reader.read_keylog_from_file": dict(lean="file_keys", args=["Option ρ"], ret="List κ")}))
# handle_packet (TLS over TCP): the first session in list order that matches gets the packet; else a new one iff a port is a server port
SPECS.append(dict(name="Main.handle_packet", group="Main2", file=MAINF, func="handle_packet", theorem="Main2.handle_packet_eq_model",
                  tparams=["σ", "π"], st_tparams=["σ"], params=[("packet", "π")], ret="None",
                  places=[("sessions", "sessions", "List σ", "rw"), ("server_ports", "server_ports", "List Int", "r"),
                          ("packet.dport", "dport", "Int", "r"), ("packet.sport", "sport", "Int", "r")],
                  obj_lists={"sessions": "σ"}, externals=[("matches_session", "σ → π → Bool"), ("feed", "σ → π → σ"), ("new_session", "π → σ")],
                  obj_methods={("σ", "matches_session"): dict(lean="matches_session", args=["π"], ret="Bool")},
                  mut_methods={("σ", "handle_packet"): dict(lean="feed", args=["π"])},
                  calls={"Session": dict(lean="new_session", args=["π", None, None, None, None, None], ret="σ")}))
# handle_quic_packet, the session loop and the creation rule (the header parse before it is the Demux group's): a QUIC session
# is an opaque object τ (its CID sets, "the datagram is on my address pair", "it comes from my client" are externals, as is
# `handle_packet` = feed); `sorted(candidates, key=lambda c: (-len(c), c))` is the external `sort_cids`
DGRAM = "session.matches_session_dgram(packet.ip_src, packet.ip_dst, packet.sport, packet.dport)"
SPECS.append(dict(name="Main.quic_loop", group="Main2", file=MAINF, func="handle_quic_packet", theorem="Main2.quic_loop_eq_model",
                  select={"start": "for session in quic_sessions:", "end": "if header_type != QuicHeaderType.SHORT:"},
                  tparams=["τ", "π"], st_tparams=["τ"], exits=True,
                  params=[("packet", "π"), ("header_type", HT), ("dcid", "Bytes"), ("quic_version", MLV), ("packet_payload", "Bytes")],
                  places=[("quic_sessions", "quic_sessions", "List τ", "rw")], obj_lists={"quic_sessions": "τ"},
                  externals=[("client_cids", "τ → List Bytes"), ("server_cids", "τ → List Bytes"), ("on_tuple", "τ → Bool"),
                             ("from_client", "τ → Bool"), ("sort_cids", "List Bytes → List Bytes"), ("feed", f"τ → π → Bytes → {MLV} → τ"),
                             ("new_quic_session", "π → τ")],
                  attr_funcs={("τ", "client_cids"): ("client_cids", "Set Bytes"), ("τ", "server_cids"): ("server_cids", "Set Bytes")},
                  consts={**HTYPE, DGRAM: ("(on_tuple session)", "Bool"),
                          "packet.ip_src == session.client_ip and packet.sport == session.client_port": ("(from_client session)", "Bool"),
                          "sorted(candidates, key=lambda c: (-len(c), c))": ("(sort_cids candidates)", "List Bytes")},
                  mut_methods={("τ", "handle_packet"): dict(lean="feed", args=["π", "Bytes", MLV])},
                  calls={"QuicSession": dict(lean="new_quic_session", args=["π", None, None, None, None], ret="τ")}))

# keylog_reader.py: `Key.__init__` (three fields of the line split at spaces), `get_key_from_line` (the regular expression is the
# external `re_match`: `reg.match(line)` as `Option Unit`), `get_keys_from_string` (CR removed, split at LF, the matching lines)
GROUPS["Keylog"] = dict(imports=["TLX.PyRt", "TLX.Keylog"], decls=[], options=["set_option linter.unusedVariables false"])
KLF = "tlexport/keylog_reader.py"
KOBJ = "TLX.Keylog.Key"
SPECS.append(dict(name="KL.Key_init", group="Keylog", file=KLF, func="Key.__init__", theorem="KLog.Key_init_eq_model",
                  params=[("key_line", "Str")], ret="None", raise_state=False,
                  places=[("self.label", "label", "Str", "rw"), ("self.client_random", "clientRandom", "Str", "rw"),
                          ("self.value", "value", "Str", "rw")]))
SPECS.append(dict(name="KL.get_key_from_line", group="Keylog", file=KLF, func="get_key_from_line", theorem="KLog.get_key_from_line_eq_model",
                  params=[("line", "Str")], ret=f"Option {KOBJ}", externals=[("re_match", "List Nat → Option Unit")],
                  drop_stmts=["reg = re.compile("], consts={"reg.match(line)": ("(re_match line)", "Option Unit")},
                  calls={"Key": dict(lean="(fun l => (KL.Key_init l).map fun k => (⟨k.label, k.clientRandom, k.value⟩ : TLX.Keylog.Key))",
                                     args=["Str"], ret=KOBJ, raises=True)}))
SPECS.append(dict(name="KL.get_keys_from_string", group="Keylog", file=KLF, func="get_keys_from_string", theorem="KLog.get_keys_from_string_eq_model",
                  params=[("key_str", "Str")], ret=f"List {KOBJ}", externals=[("re_match", "List Nat → Option Unit")],
                  locals={"keys": f"List {KOBJ}"}, narrow_not_none=True,
                  calls={"get_key_from_line": dict(lean="KL.get_key_from_line re_match", args=["Str"], ret=f"Option {KOBJ}", raises=True)}))
# set_initial_decryptor: dev_initial_keys (group KeySched translates it on its own) and the QuicDecryptor constructor are externals;
# `self.keys.update(keys)` is the model's `keysInitial := true`.
QS_EXT.update({"dev_initial_keys": ("dev_initial_keys", f"Bytes → {QSV} → Bool → Option (List (List Nat × Bytes))"),
               "mk_decryptor": ("mk_decryptor", f"List Bytes → TLX.Cipher.Alg → Bool → Except PyRt.Err {QDEC}")})
qs_spec("set_initial_decryptor", [("dcid", "Bytes"), ("chacha20", "Bool")], ["dev_initial_keys", "mk_decryptor"],
        places=QS_PLACES + [("self.quic_version", "version", QSV, "s"), ("self.can_decrypt", "canDecrypt", "Bool", "s")],
        locals={"keys": "Option (Table Str; Bytes)"}, narrow_not_none=True,
        consts={**PTYPE, "AESGCM": ("TLX.Cipher.Alg.aesgcm", "TLX.Cipher.Alg")},
        stmt_updates={"self.keys.update(keys)": "keysInitial := true"},
        calls={"dev_initial_keys": dict(lean="dev_initial_keys", args=["Bytes", QSV, "Bool"], ret="Option (Table Str; Bytes)"),
               "QuicDecryptor": dict(lean="mk_decryptor", params=["keys", "cipher", "early"], args=["List Bytes", "TLX.Cipher.Alg", "Bool"],
                                     ret=QDEC, raises=True)})# run(): the write loop — one `writepkt` per collected frame, in the collected order
SPECS.append(dict(name="Main.write_all", group="Main2", file=MAINF, func="run", theorem="Main2.write_all_eq_model",
                  select={"start": "for buf, ts in all_decrypted_sessions:"}, tparams=["β", "θ"], st_tparams=["β", "θ"],
                  params=[("all_decrypted_sessions", "List (β × θ)")],
                  actions={"writer.writepkt(bytes(buf), ts)": "(buf, ts)"}, action_type="(β × θ)"))

# quic_session.py set_tls_decryptors over a state record of its own (`QS3.St κ`: the three suite attributes, the two flags, the three
# decryptor entries it writes, `self.keys`; κ = a key-log entry): the `match ciphersuite:` and everything after it as two definitions
# (the rest, continued in each of the four cases, would be rendered four times). dev_quic_keys (group KeySched translates it on its
# own) and the QuicDecryptor constructor are externals; the dict dev_quic_keys returns has `Option Bytes` values (the early entries).
HSEL = "TLX.Quic.Session.HashSel"
QS3_FIELDS = [("self.hash_fun", "hash_fun", f"Option {HSEL}"), ("self.cipher", "cipher", "Option TLX.Cipher.Alg"),
              ("self.key_length", "key_length", "Option Nat"), ("self.can_decrypt", "can_decrypt", "Bool"),
              ("self.early_traffic_keys", "early_traffic_keys", "Bool"),
              ("self.decryptors['Handshake']", "dec_handshake", f"Option {QDEC}"),
              ("self.decryptors['Application']", "dec_app", f"Option (List {QDEC})"),
              ("self.decryptors['Early']", "dec_early", f"Option {QDEC}"),
              ("self.keys", "keys", "Table Str; Option Bytes")]
QS3_PLACES = [(k, f, t, "s") for k, f, t in QS3_FIELDS]
GROUPS["QuicSess3"] = dict(imports=["TLX.PyRt", "TLX.Quic.Session"], decls=[], options=["set_option linter.unusedVariables false"])


def qs3_state_decl():
    return ("/-- the attributes of a `QuicSession` that `set_tls_decryptors` writes -/\nstructure QS3.St where\n"
            + "".join(f"  {f} : {py2lean.ty(t)}\n" for _, f, t in QS3_FIELDS) + "  deriving DecidableEq, Repr\n")


SPECS.append(dict(name="QS3.St", group="QuicSess3", kind="raw", file=QSF, func=None, gen=qs3_state_decl, theorem="QSess3.set_tls_decryptors_eq_model"))
QS3_CONSTS = {"SHA256": (f"{HSEL}.sha256", HSEL), "SHA384": (f"{HSEL}.sha384", HSEL), "AESGCM": ("TLX.Cipher.Alg.aesgcm", "TLX.Cipher.Alg"),
              "ChaCha20Poly1305": ("TLX.Cipher.Alg.chachaPoly", "TLX.Cipher.Alg"), "AESCCM": ("TLX.Cipher.Alg.aesccm", "TLX.Cipher.Alg")}
SPECS.append(dict(name="QS3.select_suite", group="QuicSess3", file=QSF, func="QuicSession.set_tls_decryptors", theorem="QSess3.select_suite_eq_model",
                  select={"start": "match ciphersuite:"}, params=[("ciphersuite", "Bytes")], exits=True,
                  state=dict(type="QS3.St", param="st"), always_res=True, places=QS3_PLACES, consts=QS3_CONSTS))
SPECS.append(dict(name="QS3.install", group="QuicSess3", file=QSF, func="QuicSession.set_tls_decryptors", theorem="QSess3.install_eq_model",
                  select={"start": "session_keys = []", "end": "try:\n    self.decryptors['Early']"}, tparams=["κ"],
                  params=[("client_random", "Bytes")], exits=True,
                  state=dict(type="QS3.St", param="st"), always_res=True,
                  places=QS3_PLACES + [("self.keylog", "keylog", "List κ", "r"), ("self.quic_version", "quic_version", QSV, "r")],
                  locals={"session_keys": "List κ"},
                  externals=[("key_random", "κ → Bytes"),
                             ("dev_quic_keys", f"Option Nat → List κ → Option {HSEL} → {QSV} → Except PyRt.Err (List (List Nat × Option Bytes))"),
                             ("mk_decryptor", f"List (Option Bytes) → Option TLX.Cipher.Alg → Bool → Except PyRt.Err {QDEC}")],
                  consts={"bytes.fromhex(key.client_random)": ("(key_random key)", "Bytes"), "self.hash_fun()": ("{st}.hash_fun", f"Option {HSEL}")},
                  calls={"dev_quic_keys": dict(lean="dev_quic_keys", args=["Option Nat", "List κ", f"Option {HSEL}", QSV],
                                               ret="Table Str; Option Bytes", raises=True),
                         "QuicDecryptor": dict(lean="mk_decryptor", params=["keys", "cipher", "early"],
                                               args=["List (Option Bytes)", "Option TLX.Cipher.Alg", "Bool"], ret=QDEC, raises=True)}))

# decryptor.py `Decryptor.__init__` with `get_cipher_type` and `parse_keys`, over a state record of its own (every attribute the
# constructor assigns; an attribute it does not assign on some path keeps the value of the record it starts from). `keys` is a dict
# with `bytes | None` values (dev_tls_13_keys gives None for a missing secret): `Table Str; Option Bytes`. Externals: the RC4 / ChaCha20
# context (`Cipher(self.bulk_alg(key), mode=None).decryptor()`), the zlib objects. `bulk_mode`, `mac_alg`, `key_length` are stored, never read.
D2_FIELDS = ([("self.bulk_alg", "bulk_alg", ALG), ("self.tls_version", "tls_version", RLV), ("self.mac_length", "mac_length", "Nat"),
              ("self.tag_length", "tag_length", "Option Nat"), ("self.block_length", "block_length", "Nat"),
              ("self.compression_method", "compression_method", "Nat"), ("self.encrypt_then_mac", "encrypt_then_mac", "Bool"),
              ("self.cipher_type", "cipher_type", f"Option {CTY}")]
             + [(f"self.{d}_{k}", f"{d}_{k}", "Option Bytes") for d in ("server", "client") for k in ("key", "iv", "mac")]
             + [(f"self.{d}_{k}", f"{d}_{k}", "Option Bytes") for d in ("server", "client")
                for k in ("handshake_key", "handshake_iv", "application_key", "application_iv")]
             + [("self.server_seq", "server_seq", "Nat"), ("self.client_seq", "client_seq", "Nat"),
                ("self.last_block_server", "last_block_server", "Option Bytes"), ("self.last_block_client", "last_block_client", "Option Bytes"),
                ("self.server_cipher", "server_cipher", "Option (Bytes × Nat)"), ("self.client_cipher", "client_cipher", "Option (Bytes × Nat)"),
                ("self.s_decompressor", "s_decompressor", "Option Unit"), ("self.c_decompressor", "c_decompressor", "Option Unit")])
D2_PLACES = [(k, f, t, "s") for k, f, t in D2_FIELDS]
GROUPS["Decrypt2"] = dict(imports=["TLX.PyRt", "TLX.RecordLayer"], decls=[], options=["set_option linter.unusedVariables false"])


def d2_state_decl():
    return ("/-- the attributes `Decryptor.__init__` assigns -/\nstructure Dec2.St where\n"
            + "".join(f"  {f} : {py2lean.ty(t)}\n" for _, f, t in D2_FIELDS) + "  deriving DecidableEq, Repr\n")


SPECS.append(dict(name="Dec2.St", group="Decrypt2", kind="raw", file=DF, func=None, gen=d2_state_decl, theorem="Decr2.init_eq_model"))
D2_COMMON = dict(group="Decrypt2", file=DF, ret="None", state=dict(type="Dec2.St", param="st"), always_res=True, places=D2_PLACES,
                 maybe_attrs=["self.cipher_type"], consts={**RLV_CONSTS, **ALG_CONSTS, **CTY_CONSTS})
SPECS.append(dict(D2_COMMON, name="Dec2.get_cipher_type", func="Decryptor.get_cipher_type", params=[], theorem="Decr2.get_cipher_type_eq_model"))
SPECS.append(dict(D2_COMMON, name="Dec2.parse_keys", func="Decryptor.parse_keys", params=[("keys", "Table Str; Option Bytes")],
                  theorem="Decr2.parse_keys_eq_model"))
SPECS.append(dict(D2_COMMON, name="Dec2.init", func="Decryptor.__init__", theorem="Decr2.init_eq_model",
                  params=[("bulk_alg", ALG), ("bulk_mode", "Unit"), ("mac_alg", "Unit"), ("keys", "Table Str; Option Bytes"), ("tls_version", RLV),
                          ("key_length", "Nat"), ("mac_length", "Nat"), ("tag_length", "Option Nat"), ("block_length", "Nat"),
                          ("extensions", "Table Bytes; Bytes"), ("compression", "Nat")],
                  ignore_writes=["self.bulk_mode", "self.mac_alg", "self.key_length"],
                  externals=[("stream_ctx", f"{ALG} → Option Bytes → Except PyRt.Err (Bytes × Nat)")],
                  consts={**RLV_CONSTS, **ALG_CONSTS, **CTY_CONSTS,
                          "Cipher(self.bulk_alg(self.server_key), mode=None).decryptor()": ("stream_ctx {st}.bulk_alg {st}.server_key", "Bytes × Nat", "raises"),
                          "Cipher(self.bulk_alg(self.client_key), mode=None).decryptor()": ("stream_ctx {st}.bulk_alg {st}.client_key", "Bytes × Nat", "raises"),
                          "zlib.decompressobj(wbits=0)": ("()", "Unit")},
                  state_calls={"self.get_cipher_type": dict(kind="shared", lean="Dec2.get_cipher_type", exts=[], args=[], ret="None"),
                               "self.parse_keys": dict(kind="shared", lean="Dec2.parse_keys", exts=[], args=["Table Str; Option Bytes"], ret="None")}))

# main.py options (C10): `MapPortsAction.__call__` (the two `setattr` on the namespace as a record: what `-m` stores and
# `keep_original_ports`; `self.dest` is "mapports", the dest argparse derives from `--mapports`), `get_port_map` (`int(str)` is the external
# `py_int`, instantiated with the model's `pyInt`; `parser.mapports : Option (List Str)`, `none` = attribute absent or None), and the
# built-in port list / the `-p` default / `server_ports.extend([int(x) …])`.
GROUPS["Opts"] = dict(imports=["TLX.PyRt", "TLX.Options"], decls=[], options=["set_option linter.unusedVariables false"])
SPECS.append(dict(name="Opts.MapPortsAction_call", group="Opts", file=MAINF, func="MapPortsAction.__call__", theorem="Opts.MapPortsAction_call_eq_model",
                  params=[("values", "List Str")], ret="None", list_truth=True, setattr_names={"self.dest": "mapports"},
                  places=[("namespace.mapports", "mapports", "List Str", "rw"),
                          ("namespace.keep_original_ports", "keep", "Bool", "rw")]))
SPECS.append(dict(name="Opts.get_port_map", group="Opts", file=MAINF, func="get_port_map", theorem="Opts.get_port_map_eq_model",
                  params=[], ret="Table Int; Int", externals=[("py_int", "List Nat → Option Int")],
                  places=[("parser.mapports", "mapports", "Option (List Str)", "r")], absent_or_none=["parser.mapports"],
                  locals={"port_map": "Table Int; Int"}))
SPECS.append(dict(name="Opts.extend_server_ports", group="Opts", file=MAINF, func="run", theorem="Opts.extend_server_ports_eq_model",
                  select={"start": "server_ports.extend([int(x) for x in args.serverports])"},
                  params=[], externals=[("py_int", "List Nat → Option Int")],
                  places=[("server_ports", "server_ports", "List Int", "rw"), ("args.serverports", "serverports", "List Str", "r")]))
# the same statement when `-p` is absent: argparse stores its default, a list of ints (`int(x)` of an int is the int)
SPECS.append(dict(name="Opts.extend_server_ports_default", group="Opts", file=MAINF, func="run", theorem="Opts.extend_server_ports_eq_model",
                  select={"start": "server_ports.extend([int(x) for x in args.serverports])"},
                  params=[], places=[("server_ports", "server_ports", "List Int", "rw"), ("args.serverports", "serverports", "List Int", "r")]))
SPECS.append(dict(name="Opts.builtin_server_ports", group="Opts", kind="table", file=MAINF, func=None, target="server_ports", type="List Int",
                  theorem="Opts.extend_server_ports_eq_model"))

# session.py key selection (C01, C15): `find_session_secrets` whole (the key-log lines of this client random; `str.lower` is the external
# `str_lower`, instantiated with the model's `lower`; the statements that only build the log text
# are dropped), and two fragments of `generate_keys`: the choice of the secret line (the (pre-)master-secret filter for TLS ≤ 1.2, the
# "Missing Secrets" exits) and the block-size table. The key-derivation dispatch (`match tls_version:`) is not translated here.
TKF = "tlexport/session.py"
GROUPS["TlsKeys"] = dict(imports=["TLX.PyRt", "TLX.Keylog", "TLX.Pipeline"], options=["set_option linter.unusedVariables false"],
                         decls=[])
TK_ATTRS = {(KOBJ, "client_random"): ("TLX.Keylog.Key.clientRandom", "Str"), (KOBJ, "label"): ("TLX.Keylog.Key.label", "Str"),
            (KOBJ, "value"): ("TLX.Keylog.Key.value", "Str")}
SPECS.append(dict(name="TK.find_session_secrets", group="TlsKeys", file=TKF, func="Session.find_session_secrets",
                  theorem="TlsKeys.find_session_secrets_eq_model", params=[], ret=f"List {KOBJ}",
                  externals=[("str_lower", "List Nat → List Nat")], attr_funcs=TK_ATTRS, consts=TLSVER,
                  locals={"secrets": f"List {KOBJ}"}, drop_stmts=["logging_string", "for secret in secrets:"],
                  places=[("self.keylog", "keylog", f"List {KOBJ}", "r"), ("self.client_random", "client_random", "Bytes", "r"),
                          ("self.tls_version", "tls_version", f"Option {VER}", "r")]))
SPECS.append(dict(name="TK.select_secret", group="TlsKeys", file=TKF, func="Session.generate_keys", theorem="TlsKeys.select_secret_eq_model",
                  select={"start": "secret_list = self.find_session_secrets()", "end": "try:\n    secret = secret_list[0]"},
                  params=[("tls_version", f"Option {VER}")], exits=True, externals=[("str_lower", "List Nat → List Nat")],
                  attr_funcs=TK_ATTRS, consts=TLSVER, outs=[("secret_list", f"List {KOBJ}")],
                  places=[("self.keylog", "keylog", f"List {KOBJ}", "r"), ("self.client_random", "client_random", "Bytes", "r"),
                          ("self.tls_version", "self_tls_version", f"Option {VER}", "r"), ("self.can_decrypt", "can_decrypt", "Bool", "rw")],
                  calls={"self.find_session_secrets": dict(lean="TK.find_session_secrets str_lower keylog client_random self_tls_version",
                                                           args=[], ret=f"List {KOBJ}")}))
SPECS.append(dict(name="TK.block_size", group="TlsKeys", file=TKF, func="Session.generate_keys", theorem="TlsKeys.block_size_eq_model",
                  select={"start": "block_size = 0", "end": "if algo in [AES, AESCCM, AESGCM, Camellia]:"},
                  params=[("algo0", ALG)], outs=[("block_size", "Nat")],
                  consts={**ALG_CONSTS, "cipher_suite['CryptoAlgo'][0]": ("algo0", ALG)}))
# the end of generate_keys: the block-size table and the `Decryptor(...)` call — which resolved-suite field goes to which constructor
# parameter (the constructor itself is group Decrypt2; here it is the external `mk_decryptor`, the values read from the suite dict are parameters)
SPECS.append(dict(name="TK.install", group="TlsKeys", file=TKF, func="Session.generate_keys", theorem="TlsKeys.install_eq_model",
                  select={"start": "block_size = 0", "end": "self.decryptor = Decryptor("},
                  tparams=["μ", "η", "κ", "ε", "δ"], st_tparams=["δ"], params=[("algo0", ALG), ("mode0", "μ"), ("mac", "η"), ("keys", "κ"), ("key_length", "Nat"),
                                                           ("digest_size", "Nat"), ("tag_length", "Option Nat")],
                  externals=[("mk_decryptor", f"{ALG} → μ → η → κ → Option {VER} → Nat → Nat → Option Nat → Nat → ε → Nat → δ")],
                  places=[("self.decryptor", "decryptor", "δ", "rw"), ("self.tls_version", "tls_version", f"Option {VER}", "r"),
                          ("self.extensions", "extensions", "ε", "r"), ("self.compression_method", "compression_method", "Nat", "r")],
                  consts={**ALG_CONSTS, "cipher_suite['CryptoAlgo'][0]": ("algo0", ALG), "cipher_suite['Mode'][0]": ("mode0", "μ"),
                          "cipher_suite['MAC']": ("mac", "η"), "cipher_suite['KeyLength']": ("key_length", "Nat"),
                          "cipher_suite['MAC'].digest_size": ("digest_size", "Nat"), "cipher_suite['TagLength']": ("tag_length", "Option Nat")},
                  calls={"Decryptor": dict(lean="mk_decryptor", args=[ALG, "μ", "η", "κ", f"Option {VER}", "Nat", "Nat", "Option Nat", "Nat", "ε", "Nat"],
                                           ret="δ")}))

# dpkt_dsb.py (C12): `DecryptionSecretBlock.unpack`. dpkt itself is outside the subset (struct formats built by a metaclass): the
# header unpack `dpkt.Packet.unpack(self, buf)` is stated as the two fields the method reads, from the externals `hdr_len` (raises where
# the buffer is shorter than the header: `struct.error`, which `dpkt.Packet.__init__` turns into NeedData — both are `.struct` here) and
# `hdr_slen`; `_do_unpack_options` is the external `unpack_options`; `dpng._align32b` is the model's `align4`; `__hdr_len__` is 20
# (five 'I' fields). The Reader (`__init__`, `__iter__`: file objects, generators, floats) is refused, see OUTSIDE.
DSBF = "tlexport/dpkt_dsb.py"
COPT = "TLX.Container.Opt"
GROUPS["Dsb"] = dict(imports=["TLX.PyRt", "TLX.Container"], decls=[], options=["set_option linter.unusedVariables false"])
SPECS.append(dict(name="Dsb.unpack", group="Dsb", file=DSBF, func="DecryptionSecretBlock.unpack", theorem="Dsb.unpack_eq_model",
                  params=[("buf", "Bytes")], ret="None", raise_state=False,
                  externals=[("hdr_len", "Bytes → Except PyRt.Err Nat"), ("hdr_slen", "Bytes → Nat"),
                             ("unpack_options", f"Bytes → Nat → Int → Except PyRt.Err (List {COPT})")],
                  places=[("self.len", "len", "Nat", "rw"), ("self.secrets_length", "secrets_length", "Nat", "rw"),
                          ("self.pkt_data", "pkt_data", "Bytes", "rw"), ("self.opts", "opts", f"List {COPT}", "rw")],
                  consts={"self.__hdr_len__": ("(20 : Nat)", "Nat")}, raise_as={"dpkt.NeedData": "struct"},
                  stmt_rewrites={"dpkt.Packet.unpack(self, buf)": "self.len = HDR_LEN(buf)\nself.secrets_length = HDR_SLEN(buf)",
                                 "self._do_unpack_options(buf, opts_offset)": "self.opts = UNPACK_OPTIONS(buf, self.len, opts_offset)"},
                  calls={"HDR_LEN": dict(lean="hdr_len", args=["Bytes"], ret="Nat", raises=True),
                         "HDR_SLEN": dict(lean="hdr_slen", args=["Bytes"], ret="Nat"),
                         "UNPACK_OPTIONS": dict(lean="unpack_options", args=["Bytes", "Nat", "Int"], ret=f"List {COPT}", raises=True),
                         "dpng._align32b": dict(lean="TLX.Container.align4", args=["Nat"], ret="Nat")}))

THEOREMS = _uniq(theorem_of(s) for s in SPECS)


# a group whose definitions call another group's: it cannot be proved when that one is broken
GROUP_DEPS = {"Frames": ["Varint"], "QuicDissect2": ["Varint", "QuicDissect"], "QuicTls": ["Varint"]}


def group_modules(groups):
    """the theorem modules of these groups (`lean/TLX/Props/Translated/<Group>.lean`)"""
    return ["TLX.Props.Translated." + g for g in groups]


def group_theorems(groups):
    return _uniq(theorem_of(s) for s in SPECS if s["group"] in groups)


MODULES = group_modules(GROUPS)          # all groups (`TLX.Props.Translated` imports them)

# property → the groups whose translated functions its model functions are (what the check proves besides its own modules)
CHECK_GROUPS = {
    "C01": ["TlsSess", "Suites", "TlsSess2", "Decrypt", "Decrypt2", "TlsKeys"],
    "C02": ["QuicDissect", "QuicSess", "Pn", "Varint", "Frames", "QuicDissect2", "QuicTls", "QuicSess2", "QuicSess3"],
    "C03": ["TlsSess", "QuicDissect", "Varint", "QuicDissect2", "TlsSess2", "QuicSess2"],
    "C04": ["Demux", "QuicSess", "QuicDissect", "Main2"],
    "C05": ["Reasm", "Reasm2"],
    "C06": ["Builders"],
    "C07": ["Ports", "Builders"],
    "C08": ["Main2"],
    "C09": ["Keylog"],
    "C10": ["Ports", "Builders", "Opts"],
    "C11": ["Checksum"],
    "C12": ["Dsb"],
    "C13": ["TlsSess", "TlsSess2"],
    "C14": ["Suites"],
    "C15": ["KeySched", "QuicSess3", "Decrypt2", "TlsKeys"],
    "C16": ["Pn", "QuicSess2"],
    "C17": ["Varint", "Frames"],
    "C18": ["Demux", "Main2"],
}
BY_CHECK = {c: (group_modules(g), group_theorems(g)) for c, g in CHECK_GROUPS.items()}


class TranslatorProblem(Exception):
    def __init__(self, problems, shas):
        self.problems, self.shas = problems, shas
        super().__init__("; ".join(p["error"] for p in problems))


def repo():
    import fw
    return fw.REPO


def table_term(node, spec, fname):
    """a dict / tuple / list display of spec constants and int literals as a Lean term (dict → association list in
    display order; `PyRt.tableGet` looks up the LAST entry of a key, as a dict display keeps the last value)"""
    k = ast.unparse(node)
    if k in spec.get("consts", {}):
        return spec["consts"][k][0]
    leaf = spec.get("leaf")                # how the values of a dict of mixed values are written (a union type of the spec)
    if leaf is not None and not isinstance(node, ast.Dict) and spec.get("_in_value"):
        return leaf(node, lambda n: table_term(n, dict(spec, leaf=None), fname), fname)
    if isinstance(node, ast.Constant) and isinstance(node.value, int) and not isinstance(node.value, bool):
        return str(node.value) if node.value >= 0 else f"({node.value})"
    if isinstance(node, ast.Constant) and isinstance(node.value, bytes):
        return "[" + ", ".join(str(b) for b in node.value) + "]"
    if isinstance(node, ast.Constant) and isinstance(node.value, str):
        return "[" + ", ".join(str(ord(c)) for c in node.value) + "]"
    if spec.get("class_names") and (isinstance(node, (ast.Name, ast.Attribute)) or (isinstance(node, ast.Constant) and node.value is None)):
        # a class (or None) is named by the last identifier of the expression that denotes it
        name = "None" if isinstance(node, ast.Constant) else (node.id if isinstance(node, ast.Name) else node.attr)
        return "[" + ", ".join(str(ord(c)) for c in name) + "]"
    if isinstance(node, (ast.Tuple, ast.List)):
        return "[" + ", ".join(table_term(e, spec, fname) for e in node.elts) + "]"
    if isinstance(node, ast.Dict) and all(key is not None for key in node.keys):
        inner = dict(spec, _in_value=True)
        keyspec = dict(spec, _in_value=False)
        return "[" + ",\n  ".join(f"({table_term(a, keyspec, fname)}, {table_term(b, inner, fname)})" for a, b in zip(node.keys, node.values)) + "]"
    raise Untranslatable(fname, node, "table entry that is not a spec constant, an int literal, a tuple/list or a dict display")


def translate_table(tree, text, spec):
    """`target = <display>`: a module-level assignment (`func=None`) or the one assignment to `target` in a function body"""
    fname = spec["func"] or "<module>"
    if spec["func"] is None:
        body, scope = tree.body, None
    else:
        scope = py2lean.find_function(tree, spec["func"])
        if scope is None:
            raise Untranslatable(fname, tree, f"function not found in {spec['file']}")
        body = [n for n in ast.walk(scope) if isinstance(n, ast.stmt)]
    hits = [n for n in body if isinstance(n, (ast.Assign, ast.AnnAssign))
            and any(ast.unparse(t) == spec["target"] for t in (n.targets if isinstance(n, ast.Assign) else [n.target]))]
    if len(hits) != 1 or (isinstance(hits[0], ast.Assign) and len(hits[0].targets) != 1) or hits[0].value is None:
        raise Untranslatable(fname, scope or tree, f"{len(hits)} assignments to `{spec['target']}` (exactly one plain assignment expected)")
    st = hits[0]
    seg = "\n".join(text.splitlines()[st.lineno - 1:st.end_lineno])
    h = hashlib.sha256(seg.encode()).hexdigest()[:16]
    return (f"/- `{spec['target']}` ({fname}): {spec['file']} lines {st.lineno}-{st.end_lineno}, sha256[:16] of the source text {h} -/\n"
            f"def {spec['name']} : {spec['type']} :=\n  {table_term(st.value, spec, fname)}\n")


def translate_classattr(tree, text, spec):
    """`attr = <int literal>` in the body of class `cls`"""
    cls = next((n for n in tree.body if isinstance(n, ast.ClassDef) and n.name == spec["cls"]), None)
    if cls is None:
        raise Untranslatable(spec["cls"], tree, f"class not found in {spec['file']}")
    hits = [n for n in cls.body if isinstance(n, ast.Assign) and len(n.targets) == 1 and ast.unparse(n.targets[0]) == spec["attr"]]
    if (len(hits) != 1 or not isinstance(hits[0].value, ast.Constant) or isinstance(hits[0].value.value, bool)
            or not isinstance(hits[0].value.value, int) or hits[0].value.value < 0):
        raise Untranslatable(spec["cls"], cls, f"class attribute `{spec['attr']}` is not assigned one non-negative int literal in the class body")
    st = hits[0]
    return (f"/- class attribute `{spec['cls']}.{spec['attr']}`: {spec['file']} line {st.lineno} -/\n"
            f"def {spec['name']} : {spec['type']} := {st.value.value}\n")


def translate_all(root, specs=None):
    """→ ({file name under lean/TLX/Gen: Lean text}, problems); each problem names its group"""
    specs = SPECS if specs is None else specs
    body = {g: [] for g in GROUPS}
    problems = []
    cache = {}
    for spec in specs:
        out = body[spec["group"]]
        path = os.path.join(root, spec["file"])
        try:
            if path not in cache:
                text = open(path).read()
                cache[path] = (text, ast.parse(text))
            text, tree = cache[path]
            if spec.get("kind") == "table":
                out.append(translate_table(tree, text, spec))
                continue
            if spec.get("kind") == "classattr":
                out.append(translate_classattr(tree, text, spec))
                continue
            if spec.get("kind") == "raw":
                out.append(f"/- glue over the definitions above (harness/translate.py `{spec['gen'].__name__}`) -/\n" + spec["gen"]())
                continue
            fn = py2lean.find_function(tree, spec["func"])
            if fn is None:
                raise Untranslatable(spec["func"], tree, f"function not found in {spec['file']}")
            lo, hi, h = py2lean.source_info(text, fn)
            lean = py2lean.translate(fn, spec)
            sel = f", fragment {spec['select']}" if spec.get("select") else ""
            out.append(f"/- `{spec['func']}`: {spec['file']} lines {lo}-{hi}{sel}, sha256[:16] of the source text {h} -/")
            out.append(lean)
        except Untranslatable as e:
            problems.append({"kind": "translator", "group": spec["group"], "function": spec["func"] or spec.get("target"), "file": spec["file"],
                             "lean": spec["name"], "line": getattr(e.node, "lineno", None), "reason": e.reason, "error": str(e)})
            out.append(f"/- `{spec['func']}` ({spec['file']}) is OUTSIDE THE SUBSET now: {str(e).replace('-/', '- /')} -/\n")
        except (OSError, SyntaxError) as e:
            problems.append({"kind": "translator", "group": spec["group"], "function": spec["func"], "file": spec["file"],
                             "lean": spec["name"], "line": None, "reason": repr(e), "error": f"{spec['file']}: {e!r}"})
            out.append(f"/- `{spec['func']}` ({spec['file']}) could not be read/parsed -/\n")
    files = {}
    for g, cfg in GROUPS.items():
        head = ["/- GENERATED by harness/translate.py (py2lean) from the Python sources of the tree under test — do not edit.",
                f"   Group {g}: one definition per translated function; the meaning of the operations is `TLX/PyRt.lean`. -/"]
        head += [f"import {m}" for m in cfg["imports"]]
        head += cfg.get("options", []) + ["namespace TLX.Gen.Py", "open TLX", ""] + cfg["decls"]
        files[f"Translated/{g}.lean"] = "\n".join(head + body[g] + ["end TLX.Gen.Py", ""])
    files["Translated.lean"] = "\n".join(
        ["/- GENERATED by harness/translate.py — do not edit. All groups of translated definitions. -/"]
        + [f"import TLX.Gen.Translated.{g}" for g in GROUPS] + [""])
    return files, problems


def regen(root=None):
    """Writes `lean/TLX/Gen/Translated/<Group>.lean` and `lean/TLX/Gen/Translated.lean`; → {file: sha256}."""
    files, problems = translate_all(root or repo())
    os.makedirs(os.path.join(extract.GEN, "Translated"), exist_ok=True)
    shas = {name: extract.write_if_changed(name, text) for name, text in files.items()}
    if problems:
        raise TranslatorProblem(problems, shas)
    return shas


def regen_into(ctx, root=None, check=None):
    """What a check calls before `ctx.prove`: regenerates every group (cheap) and records translator problems as proof
    problems — with `check` given, only those of the groups that check uses (`CHECK_GROUPS`)."""
    groups = set(GROUPS) if check is None else set(CHECK_GROUPS.get(check, []))
    try:
        shas, problems = regen(root), []
    except TranslatorProblem as e:
        shas, problems = e.shas, e.problems
    keep = {"Translated/" + g + ".lean" for g in groups} | ({"Translated.lean"} if check is None else set())
    ctx.gen_tables.update({k: v for k, v in shas.items() if k in keep})
    ctx.proof_problems.extend(p for p in problems if p["group"] in groups)


def wire(ctx, check):
    """`m, t = translate.wire(ctx, "C16"); ctx.prove([...] + m); ctx.require_theorems([...] + t)`"""
    regen_into(ctx, check=check)
    m, t = BY_CHECK.get(check, ([], []))
    return list(m), list(t)


if __name__ == "__main__":
    try:
        print(regen(sys.argv[1] if len(sys.argv) > 1 else None))
    except TranslatorProblem as e:
        for p in e.problems:
            print("TRANSLATOR-PROBLEM", p["error"])
        sys.exit(1)


# ------------------------------------------------------------------------------------------- selftest
def _b(x):
    return "([" + ", ".join(str(c) for c in bytes(x)) + "] : TLX.Bytes)"


def _bool(x):
    return "true" if x else "false"


def _exc(e):
    return {IndexError: "index", ZeroDivisionError: "zeroDiv", ValueError: "value", OverflowError: "overflow",
            KeyError: "key", AttributeError: "attr", UnboundLocalError: "unbound", TypeError: "type"}.get(type(e))


# ---- session.py record handlers (group TlsSess2): the real methods on a `Session` made without `__init__`, a toy
# decryptor whose state is a counter and a toy `generate_keys` — the same functions on the Lean side
TOY_DECRYPT = ("(fun (d : Nat) (r : TLX.Session.Rec) (srv : Bool) => let n := d + 1; let h := (n + r.raw.length + (if srv then 1 else 0)) % 5; "
               "if h = 0 then PyRt.Res.raised PyRt.Err.value n else if h = 1 then PyRt.Res.ok none n else PyRt.Res.ok (some r.body) n)")
TOY_UPDATE = "(fun (d : Nat) (_srv : Bool) => let n := d + 10; if n % 3 = 0 then PyRt.Res.raised PyRt.Err.value n else PyRt.Res.ok () n)"
TOY_GENKEYS = ("(fun (_v : Option TLX.Session.Ver) (suite cr _sr : TLX.Bytes) (exts : Option (List (TLX.Bytes × TLX.Bytes))) (comp : Option Nat) (cd : Bool) (dec : Option Nat) => "
               "let k := (suite.length + (suite.headD 0).toNat + (exts.getD []).length + comp.getD 0) % 4; "
               "if k = 0 then PyRt.Res.ok () (false, dec) else if k = 1 then PyRt.Res.raised PyRt.Err.value (cd, dec) "
               "else if k = 2 then PyRt.Res.ok () (cd, some (100 + cr.length)) else PyRt.Res.raised PyRt.Err.key (false, dec))")
TOY_EXT = {"decrypt": TOY_DECRYPT, "update_keys": TOY_UPDATE, "generate_keys": TOY_GENKEYS}


class _ToyDec:
    def __init__(self, n):
        self.n = n

    def decrypt(self, record, isserver):
        self.n += 1
        h = (self.n + len(record.raw) + (1 if isserver else 0)) % 5
        if h == 0:
            raise ValueError("toy")
        return None if h == 1 else bytes(record.binary)

    def update_keys(self, isserver):
        self.n += 10
        if self.n % 3 == 0:
            raise ValueError("toy")


def _toy_generate_keys(self, ver, suite, cr, sr):
    k = (len(suite) + (suite[0] if len(suite) else 0) + len(self.extensions) + self.compression_method) % 4
    if k == 0:
        self.can_decrypt = False
    elif k == 1:
        raise ValueError("toy")
    elif k == 2:
        self.decryptor = _ToyDec(100 + len(cr))
    else:
        self.can_decrypt = False
        raise KeyError("toy")


# ---- key_derivator.py / quic_key_generation.py (group KeySched): the toy hash suites of `TLX.Crypto.toyPrims` on both sides
def _toy_digest(w, m):
    s_ = 1
    for x in m:
        s_ = (s_ * 31 + x + 7) % 65521
    return bytes((s_ // (i + 1) + i) % 256 for i in range(w))


def _toy_stream(seed, n):
    return bytes(_toy_digest(1, bytes([i % 256]) + seed)[0] for i in range(n))


_TOY_W = {"MD5": 2, "SHA1": 3, "SHA256": 4, "SHA384": 5}
_MT = "TLX.KeySchedule.MacTag"
_TOY_MT = {"MD5": f"{_MT}.md5", "SHA1": f"{_MT}.sha1", "SHA256": f"{_MT}.sha256", "SHA384": f"{_MT}.sha384"}
_SUITE = "(TLX.KeySchedule.macSuite TLX.Crypto.toyPrims t)"
KS_EXT = {"hmacX": f"(fun t k m => {_SUITE}.hmac k m)", "hashX": f"(fun t m => {_SUITE}.hash m)",
          "hkdfExpandX": f"(fun t n info ikm => {_SUITE}.hkdfExpand ikm info n)", "hkdfExtractX": f"(fun t salt ikm => {_SUITE}.hkdfExtract salt ikm)",
          "ceilHalf": "(fun n => (n + 1) / 2)",
          "digestSize": f"(fun t => match t with | {_MT}.md5 => 16 | {_MT}.sha1 => 20 | {_MT}.sha256 => 32 | {_MT}.sha384 => 48)"}


def _w(alg):
    return _TOY_W[alg.__name__ if isinstance(alg, type) else type(alg).__name__]


class _ToyHMAC:
    def __init__(self, key, alg):
        self.k, self.w, self.m = bytes(key), _w(alg), b""

    def update(self, x):
        self.m += bytes(x)

    def finalize(self):
        return _toy_digest(self.w, self.k + b"\x5c" + self.m)


class _ToyHash:
    def __init__(self, alg):
        self.w, self.m = _w(alg), b""

    def update(self, x):
        self.m += bytes(x)

    def finalize(self):
        return _toy_digest(self.w, self.m)


class _ToyHKDFExpand:
    def __init__(self, algorithm, length, info):
        self.n, self.info = length, bytes(info)

    def derive(self, key_material):
        return _toy_stream(bytes(key_material) + b"\xff" + self.info, self.n)


class _ToyHKDF:
    def __init__(self, algorithm, length, salt, info):
        self.w, self.salt = _w(algorithm), bytes(salt)

    def _extract(self, key_material):
        return _toy_digest(self.w, self.salt + b"\x36" + bytes(key_material))


def _ks_cases(rng, call):
    """one call of each translated function of the group → [(lean name, arguments, expected)]"""
    import importlib
    from types import SimpleNamespace as NS
    from cryptography.hazmat.primitives import hashes as H
    from cryptography.hazmat.primitives.ciphers import algorithms as A
    from cryptography.hazmat.primitives.ciphers.aead import ChaCha20Poly1305
    kd = importlib.import_module("tlexport.key_derivator")
    qk = importlib.import_module("tlexport.quic.quic_key_generation")
    qd = importlib.import_module("tlexport.quic.quic_decode")
    saved = (kd.hmac, kd.hashes, kd.HKDFExpand, qk.HKDFExpand, qk.HKDF, qk.QuicDecryptor)
    kd.hmac = NS(HMAC=_ToyHMAC)
    kd.hashes = NS(SHA256=H.SHA256, SHA384=H.SHA384, MD5=H.MD5, SHA1=H.SHA1, Hash=_ToyHash, HashAlgorithm=H.HashAlgorithm)
    kd.HKDFExpand = qk.HKDFExpand = _ToyHKDFExpand
    qk.HKDF = _ToyHKDF
    qk.QuicDecryptor = lambda keys, cipher, early=False: NS(keys=keys)
    out = []

    def rb(lo, hi):
        return bytes(rng.randrange(256) for _ in range(rng.randint(lo, hi)))

    def res(k, v, f=_b):
        return f".ok {f(v)}" if k == "ok" else f".error .{v}"

    def table(d, opt=False):
        ent = lambda x: ("none" if x is None else f"(some {_b(x)})") if opt else _b(x)
        return "[" + ", ".join("([" + ", ".join(str(ord(c)) for c in kk) + "], " + ent(vv) + ")" for kk, vv in d.items()) + "]"
    try:
        sec, cr, sr, lab = rb(0, 5), rb(0, 4), rb(0, 4), rb(0, 4)
        n = rng.choice([0, 1, 3, 7, 12])
        mac = rng.choice([H.SHA256, H.SHA384, H.MD5, H.SHA1])
        mt = _TOY_MT[mac.__name__]
        nk = rng.choice([0, 1])
        k, v = call(kd.prf_tls_12, sec, cr, sr, lab, n, mac)
        out.append(("prf_tls_12", f"{KS_EXT['hmacX']} {_b(sec)} {_b(cr)} {_b(sr)} {_b(lab)} {n} {mt}", res(k, v)))
        k, v = call(kd.prf_tls_10_11, sec, cr, sr, lab, n, nk)
        out.append(("prf_tls_10_11", f"{KS_EXT['hmacX']} {KS_EXT['ceilHalf']} {_b(sec)} {_b(cr)} {_b(sr)} {_b(lab)} {n} {nk}", res(k, v)))
        n30 = rng.choice([0, 1, 3, 7, 12, 21, 25])
        k, v = call(kd.prf_ssl_30, sec, cr, sr, n30, nk)
        out.append(("prf_ssl_30", f"{KS_EXT['hashX']} {_b(sec)} {_b(cr)} {_b(sr)} {n30} {nk}", res(k, v)))
        k, v = call(kd.gen_master_secret_tls_12, sec, cr, sr, mac)
        out.append(("gen_master_secret_tls_12", f"{KS_EXT['hmacX']} {_b(sec)} {_b(cr)} {_b(sr)} {mt}", _b(v)))
        k, v = call(kd.gen_master_secret_tls_10_11, sec, cr, sr)
        out.append(("gen_master_secret_tls_10_11", f"{KS_EXT['hmacX']} {KS_EXT['ceilHalf']} {_b(sec)} {_b(cr)} {_b(sr)}", res(k, v)))
        k, v = call(kd.gen_master_secret_ssl_30, sec, cr, sr)
        out.append(("gen_master_secret_ssl_30", f"{KS_EXT['hashX']} {_b(sec)} {_b(cr)} {_b(sr)}", res(k, v)))
        ciph = rng.choice([(A.AES, "aes"), (A.Camellia, "camellia"), (A.TripleDES, "tripleDES"), (A.IDEA, "idea"), (ChaCha20Poly1305, "chacha"), (A.ARC4, "rc4")])
        ct = f"TLX.KeySchedule.CipherTag.{ciph[1]}"
        kl_, ml_, ua = rng.choice([0, 1, 2]), rng.choice([0, 1, 2]), rng.choice([0, 1])
        kbl = 2 * kl_ + 2 * ml_
        k, v = call(kd.dev_tls_12_keys, sec, cr, sr, kl_, ml_, kbl, ciph[0], ua, mac)
        out.append(("dev_tls_12_keys", f"{KS_EXT['hmacX']} {_b(sec)} {_b(cr)} {_b(sr)} {kl_} {ml_} {kbl} {ct} {ua} {mt}", res(k, v, table)))
        k, v = call(kd.dev_tls_10_11_keys, sec, sr, cr, kl_, ml_, kbl, ciph[0], ua)
        out.append(("dev_tls_10_11_keys", f"{KS_EXT['hmacX']} {KS_EXT['ceilHalf']} {_b(sec)} {_b(sr)} {_b(cr)} {kl_} {ml_} {kbl} {ct} {ua}", res(k, v, table)))
        k, v = call(kd.dev_ssl_30_keys, sec, sr, cr, kl_, ml_, kbl, ciph[0], ua)
        out.append(("dev_ssl_30_keys", f"{KS_EXT['hashX']} {_b(sec)} {_b(sr)} {_b(cr)} {kl_} {ml_} {kbl} {ct} {ua}", res(k, v, table)))
        lbl, kl2 = rb(0, 12), rng.choice([0, 16, 32, 255, 65535, 65536, 70000])
        k, v = call(qk.make_info, lbl, kl2)
        out.append(("make_info", f"{_b(lbl)} {kl2}", res(k, v)))
        names = ["CLIENT_HANDSHAKE_TRAFFIC_SECRET", "SERVER_HANDSHAKE_TRAFFIC_SECRET", "CLIENT_TRAFFIC_SECRET_0", "SERVER_TRAFFIC_SECRET_0",
                 "CLIENT_EARLY_TRAFFIC_SECRET", "SERVER_EARLY_TRAFFIC_SECRET", "CLIENT_RANDOM", "EXPORTER_SECRET"]
        picks = [(nm, rb(0, 4)) for nm in names if rng.random() < 0.8] + [(rng.choice(names), rb(1, 3)) for _ in range(rng.randint(0, 2))]
        rng.shuffle(picks)
        secs = [NS(label=a, value=b_.hex()) for a, b_ in picks]
        ssl = "[" + ", ".join("([" + ", ".join(str(ord(c)) for c in a) + "], " + _b(b_) + ")" for a, b_ in picks) + "]"
        kl3 = rng.choice([1, 2, 16, 70000]) if rng.random() < 0.9 else 65535
        k, v = call(kd.dev_tls_13_keys, secs, kl3 if kl3 != 65535 else 3, mac())
        out.append(("dev_tls_13_keys", f"{KS_EXT['hkdfExpandX']} {ssl} {kl3 if kl3 != 65535 else 3} {mt}", res(k, v, lambda d: table(d, True))))
        cid = rb(0, 5)
        ver = rng.choice([(qd.QuicVersion.V1, "v1"), (qd.QuicVersion.V2, "v2"), (qd.QuicVersion.UNKNOWN, "unknown")])
        qv = f"TLX.KeySchedule.QuicVersion.{ver[1]}"
        cha = rng.random() < 0.5
        k, v = call(qk.dev_initial_keys, cid, ver[0], cha)
        out.append(("dev_initial_keys", f"{KS_EXT['hkdfExpandX']} {KS_EXT['hkdfExtractX']} {_b(cid)} {qv} {_bool(cha)}",
                    (".ok none" if v is None else f".ok (some {table(v)})") if k == "ok" else f".error .{v}"))
        keys = [rb(0, 3) for _ in range(rng.choice([0, 4, 5, 6, 6, 6]))]
        hcls = rng.choice([H.SHA256, H.SHA384])
        kl4 = rng.choice([1, 2, 16])
        k, v = call(qk.key_update, NS(keys=list(keys)), hcls, kl4, None, ver[0])
        out.append(("key_update", f"{KS_EXT['hkdfExpandX']} {KS_EXT['digestSize']} {_TOY_MT[hcls.__name__]} {kl4} {qv} [" + ", ".join(_b(x) for x in keys) + "]",
                    f".ok {{ keys := [" + ", ".join(_b(x) for x in v.keys) + "] }" if k == "ok" else f".error .{v}"))
        kl5 = rng.choice([1, 2, 70000]) if rng.random() < 0.95 else 70000
        k, v = call(qk.dev_quic_keys, kl5, secs, mac(), ver[0])
        out.append(("dev_quic_keys", f"{KS_EXT['hkdfExpandX']} {kl5} {ssl} {mt} {qv}", res(k, v, lambda d: table(d, True))))
    finally:
        kd.hmac, kd.hashes, kd.HKDFExpand, qk.HKDFExpand, qk.HKDF, qk.QuicDecryptor = saved
    return out


# ---- output builders (group Builders): scapy's layer classes replaced by recorders of their keyword arguments
class _Lay:
    def __init__(self, name, kw):
        self.layers = [(name, kw)]

    def __truediv__(self, other):
        r = _Lay(None, None)
        r.layers = self.layers + other.layers
        return r


def _layer(name):
    def mk(*a, **kw):
        if a:
            kw = dict(kw, load=a[0])
        return _Lay(name, kw)
    return mk


def _lstr(x):
    return "[" + ", ".join(str(ord(ch)) for ch in x) + "]"


def _addr(x):
    return f"(Sum.inl {_lstr(x)})" if isinstance(x, str) else f"(Sum.inr {_b(x)})"


def _layers(p):
    out = []
    for name, kw in p.layers:
        if name == "Ether":
            out.append(f"Gen.Py.Layer.ether {_b(kw['src'])} {_b(kw['dst'])}")
        elif name in ("IP", "IPv6"):
            out.append(f"Gen.Py.Layer.ip {_bool(name == 'IPv6')} {_addr(kw['src'])} {_addr(kw['dst'])}")
        elif name == "UDP":
            out.append(f"Gen.Py.Layer.udp {kw['dport']} {kw['sport']}")
        elif name == "TCP":
            out.append(f"Gen.Py.Layer.tcp {kw['dport']} {kw['sport']} {_lstr(kw['flags'])} {kw['seq']} {kw['ack']}")
        else:
            out.append(f"Gen.Py.Layer.raw {_b(kw['load'])}")
    return "[" + ", ".join(out) + "]"


FDIV_LEAN = "(fun a b => if b = 0 then Except.error PyRt.Err.zeroDiv else Except.ok ((a.toNat / b.toNat : Nat) : Int))"


def _bld_cases(rng, call):
    import importlib
    from types import SimpleNamespace as NS
    ob = importlib.import_module("tlexport.output_builder")
    qob = importlib.import_module("tlexport.quic.quic_output_builder")
    names = ["Ether", "IP", "IPv6", "TCP", "Raw"]
    qnames = ["Ether", "IP", "IPv6", "UDP", "Raw"]
    saved = [getattr(ob, n) for n in names], [getattr(qob, n) for n in qnames]
    for n in names:
        setattr(ob, n, _layer(n))
    for n in qnames:
        setattr(qob, n, _layer(n))
    out = []

    def rb(lo, hi):
        return bytes(rng.randrange(256) for _ in range(rng.randint(lo, hi)))
    try:
        v6 = rng.random() < 0.4
        addr = dict(server_mac=b"\x02\x01", client_mac=b"\x02\x02", server_ip="10.0.0.1", client_ip="fe80::2", server_port=8443, client_port=5000)
        largs = f"{_b(addr['server_mac'])} {_b(addr['client_mac'])} {_lstr(addr['server_ip'])} {_lstr(addr['client_ip'])} 8443 5000 {_bool(v6)}"
        # QUIC
        md = rng.random() < 0.5
        frames = []
        tcur, scur = rng.randrange(3), rng.random() < 0.5
        for _ in range(rng.randint(0, 6)):
            if rng.random() < 0.4:
                tcur, scur = rng.randrange(3), rng.random() < 0.5
            ft = rng.choice([0x06, 0xfe, 0x08, 0x0a, 0x0f, 0x01, 0x1c])
            dat = rb(0, 3)
            frames.append(NS(frame_type=ft, crypto=dat, payload=dat, stream_data=dat, src_packet=NS(ts=tcur, isserver=scur)))
        b_ = object.__new__(qob.QUICOutputbuilder)
        b_.decrypted_traffic, b_.out, b_.ipv6 = frames, [], v6
        b_.server_mac_address, b_.client_mac_address = addr["server_mac"], addr["client_mac"]
        b_.server_ip, b_.client_ip, b_.server_port, b_.client_port = addr["server_ip"], addr["client_ip"], 8443, 5000
        k, v = call(b_.build, md)
        fl = "[" + ", ".join(f"(⟨{f.frame_type}, {f.src_packet.ts}, {_bool(f.src_packet.isserver)}, {_b(f.crypto)}⟩ : TLX.Quic.UdpOut.Frame)" for f in frames) + "]"
        ol = "[" + ", ".join(f"({_layers(p)}, some {t})" for p, t in b_.out) + "]"
        out.append(("quic_build", f"{_bool(md)} {fl} [] {largs}", f".ok {ol} {{ out := {ol} }}" if k == "ok" else f".raised .{v} {{ out := {ol} }}"))
        # TCP
        recs = []
        for _ in range(rng.randint(0, 3)):
            nts = rng.choice([1, 1, 2, 3, 0]) if rng.random() < 0.9 else 0
            recs.append((rb(0, 7) if rng.random() < 0.85 else None, [rng.randrange(50) for _ in range(nts)], rng.random() < 0.5))
        t_ = object.__new__(ob.OutputBuilder)
        t_.decrypted_records = [(d, NS(metadata=[NS(timestamp=x) for x in tl]), sv) for d, tl, sv in recs]
        t_.out, t_.server_seq, t_.client_seq, t_.ipv6 = [], 1, 1, v6
        t_.server_mac_addr, t_.client_mac_addr = addr["server_mac"], addr["client_mac"]
        t_.server_ip, t_.client_ip, t_.server_port, t_.client_port = addr["server_ip"], addr["client_ip"], 8443, 5000
        k, v = call(t_.build)
        rl = "[" + ", ".join(f"({'none' if d is None else '(some ' + _b(d) + ')'}, [{', '.join(str(x) for x in tl)}], {_bool(sv)})" for d, tl, sv in recs) + "]"

        def st_():
            ol_ = "[" + ", ".join(f"({_layers(p)}, {t})" for p, t in t_.out) + "]"
            tz = getattr(t_, "ts_zero", None)
            return (f"{{ out := {ol_}, server_seq := {t_.server_seq}, client_seq := {t_.client_seq}, ts_zero := {'none' if tz is None else '(some ' + str(tz) + ')'}, "
                    f"conn_reset := {_bool(getattr(t_, 'conn_reset', False))}, no_application_records := {_bool(t_.no_application_records)} }}")
        rv = ("[" + ", ".join(f"({_layers(p)}, {t})" for p, t in v) + "]") if k == "ok" else None
        init = "{ out := [], server_seq := 1, client_seq := 1, ts_zero := none, conn_reset := false, no_application_records := false }"
        out.append(("Tcp.build", f"{FDIV_LEAN} {largs} {rl} {init}", f".ok {rv} {st_()}" if k == "ok" else f".raised .{v} {st_()}"))
    finally:
        for n, o in zip(names, saved[0]):
            setattr(ob, n, o)
        for n, o in zip(qnames, saved[1]):
            setattr(qob, n, o)
    return out


# ---- decryptor.py (group Decrypt): toy AEAD classes on both sides; logging stays real (its f-strings are evaluated)
TOY_AEAD = ("(fun (o : Gen.Py.AeadObj) (nonce ct aad : TLX.Bytes) => if ct.length < 1 ∨ o.key.length < 1 ∨ nonce.length < 1 then Except.error PyRt.Err.value "
            "else Except.ok (ct.map fun b => b ^^^ o.key.headD 0 ^^^ nonce.getLastD 0 ^^^ UInt8.ofNat aad.length ^^^ "
            "UInt8.ofNat (match o.alg with | TLX.Cipher.Alg.aesgcm => 1 | TLX.Cipher.Alg.aesccm => 2 + o.tag.getD 0 | _ => 3)))")
TOY_INFLATE = "(fun (b : TLX.Bytes) (_s : Bool) => Except.ok b)"


def _toy_aead_cls(tagbyte):
    class C:
        def __init__(self, key, tag_length=None):
            self.key, self.t = bytes(key), (tagbyte if tag_length is None else 2 + tag_length)

        def decrypt(self, nonce, data, aad):
            if len(data) < 1 or len(self.key) < 1 or len(nonce) < 1:
                raise ValueError("toy")
            return bytes(x ^ self.key[0] ^ nonce[-1] ^ (len(aad) % 256) ^ (self.t % 256) for x in data)
    return C


def _dec_cases(rng, call):
    import importlib
    from types import SimpleNamespace as NS
    dm = importlib.import_module("tlexport.decryptor")
    from tlexport.tlsversion import TlsVersion as TV
    from tlexport.tlsrecord import TlsRecord
    saved = (dm.AESGCM, dm.AESCCM, dm.ChaCha20Poly1305)
    G, C_, P_ = _toy_aead_cls(1), _toy_aead_cls(2), _toy_aead_cls(3)
    dm.AESGCM, dm.AESCCM, dm.ChaCha20Poly1305 = G, C_, P_
    out = []

    def rb(lo, hi):
        return bytes(rng.randrange(256) for _ in range(rng.randint(lo, hi)))

    def ob(x):
        return "none" if x is None else f"(some {_b(x)})"
    MISSING = object()

    def oob(x):
        return "none" if x is MISSING else f"(some {ob(x)})"
    try:
        a, b_ = rb(0, 5), rb(0, 5)
        k, v = call(dm.byte_xor, a, b_)
        out.append(("Dec.byte_xor", f"{_b(a)} {_b(b_)}", f".ok {_b(v)}" if k == "ok" else f".error .{v}"))
        algs = [(dm.AES, "aes"), (dm.TripleDES, "tdes"), (dm.Camellia, "camellia"), (dm.IDEA, "idea"), (C_, "aesccm"), (G, "aesgcm"),
                (dm.ChaCha20, "chacha20"), (P_, "chachaPoly"), (dm.ARC4, "arc4"), (None, "none")]
        vers = [(TV.SSL30, "ssl30"), (TV.TLS10, "tls10"), (TV.TLS11, "tls11"), (TV.TLS12, "tls12"), (TV.TLS13, "tls13")]
        ctys = {"EncryptionType.Stream_Cipher": "stream", "EncryptionType.Block_Cipher": "block", "EncryptionType.AEAD": "aead", "EncryptionType.Unknown": "unknown"}
        for func in ("get_cipher_type", "update_keys", "decrypt_tls13_aead", "decrypt_tls13_stream_cipher", "decrypt_tls12_chacha20", "decrypt_tls12_aead", "decrypt"):
            alg = rng.choice(algs if func in ("get_cipher_type", "decrypt") else [algs[4], algs[5], algs[5], algs[7], algs[0]])
            ver = rng.choice(vers)
            o = object.__new__(dm.Decryptor)
            o.bulk_alg, o.tls_version = alg[0], ver[0]
            o.mac_length, o.tag_length, o.block_length = rng.choice([0, 20, 32]), rng.choice([8, 16]), rng.choice([0, 64, 128])
            o.encrypt_then_mac, o.compression_method = rng.random() < 0.5, 0
            for dname in ("server", "client"):
                setattr(o, dname + "_key", rb(1, 3) if rng.random() < 0.85 else None)
                setattr(o, dname + "_iv", rng.choice([rb(8, 12), rb(12, 12), rb(0, 7)]) if rng.random() < 0.9 else None)
                setattr(o, dname + "_seq", rng.choice([0, 1, 7, 2 ** 64 - 1, 2 ** 64]))
                if rng.random() < 0.85:
                    for kname in ("handshake_key", "handshake_iv", "application_key", "application_iv"):
                        setattr(o, f"{dname}_{kname}", rb(1, 2) if rng.random() < 0.9 else None)
            if func != "get_cipher_type":
                o.cipher_type = rng.choice([dm.EncryptionType.AEAD, dm.EncryptionType.Stream_Cipher, dm.EncryptionType.Block_Cipher, dm.EncryptionType.Unknown])
                if func == "decrypt" and rng.random() < 0.7:
                    o.get_cipher_type()

            def state():
                g = lambda n: getattr(o, n, MISSING)
                ct = g("cipher_type")
                return ("{ " + ", ".join(
                    [f"{d_}_{k_} := {ob(g(d_ + '_' + k_))}" for d_ in ("server", "client") for k_ in ("key", "iv")]
                    + [f"server_seq := {o.server_seq}, client_seq := {o.client_seq}, last_block_server := none, last_block_client := none"]
                    + [f"{d_}_{k_} := {oob(g(d_ + '_' + k_))}" for d_ in ("server", "client") for k_ in ("handshake_key", "handshake_iv", "application_key", "application_iv")]
                    + [f"cipher_type := {'none' if ct is MISSING else '(some TLX.RecordLayer.CType.' + ctys[str(ct)] + ')'}"]) + " }")
            cfg = (f"TLX.RecordLayer.Version.{ver[1]} TLX.Cipher.Alg.{alg[1]} {o.mac_length} {o.tag_length} {o.block_length} {_bool(o.encrypt_then_mac)} 0")
            before = state()
            raw = bytes([rng.choice([0x16, 0x17])]) + b"\x03\x03" + b"\x00\x00" + rb(0, 20)
            rec = TlsRecord(bytearray(raw), [], False)
            recl = (f"(⟨{raw[0]}, {_b(raw[1:3])}, {_b(raw[3:5])}, {_b(raw[5:])}, {_b(raw)}⟩ : TLX.RecordLayer.Rec)")
            srv = rng.random() < 0.5
            import logging
            logging.disable(logging.CRITICAL)
            try:
                if func == "get_cipher_type":
                    k, v = call(o.get_cipher_type)
                    out.append(("Dec.get_cipher_type", f"{cfg} {before}", f".ok () {state()}" if k == "ok" else f".raised .{v} {state()}"))
                elif func == "update_keys":
                    k, v = call(o.update_keys, srv)
                    out.append(("Dec.update_keys", f"{_bool(srv)} {cfg} {before}", f".ok () {state()}" if k == "ok" else f".raised .{v} {state()}"))
                elif func == "decrypt":
                    names = ["decrypt_tls13_aead", "decrypt_tls13_stream_cipher", "decrypt_tls12_chacha20", "decrypt_generic_stream_cipher",
                             "decrypt_tls12_aead", "decrypt_tls12_block_cipher", "decrypt_last_block_iv_cbc"]
                    for j, nm in enumerate(names):
                        def toy(record, isserver, j=j):
                            o.server_seq += j + 1
                            if (j + len(record.binary)) % 4 == 0:
                                raise KeyError("toy")
                            return bytes([j])
                        setattr(o, nm, toy)
                    k, v = call(o.decrypt, rec, srv)
                    toys = " ".join(f"(fun (st : Gen.Py.Dec.St) (r : TLX.RecordLayer.Rec) (_s : Bool) => let st' := {{ st with server_seq := st.server_seq + {j + 1} }}; "
                                    f"if ({j} + r.body.length) % 4 = 0 then PyRt.Res.raised PyRt.Err.key st' else PyRt.Res.ok [{j}] st')" for j in range(7))
                    out.append(("Dec.decrypt", f"{toys} {recl} {_bool(srv)} {cfg} {before}",
                                (f".ok {ob(v)} {state()}") if k == "ok" else f".raised .{v} {state()}"))
                else:
                    k, v = call(getattr(o, func), rec, srv)
                    out.append(("Dec." + func, f"{TOY_AEAD} {TOY_INFLATE} {recl} {_bool(srv)} {cfg} {before}",
                                f".ok {_b(v)} {state()}" if k == "ok" else f".raised .{v} {state()}"))
            finally:
                logging.disable(logging.NOTSET)
    finally:
        dm.AESGCM, dm.AESCCM, dm.ChaCha20Poly1305 = saved
    return out


# ---- quic_tls_parser.py (group QuicTls)
def _qtls_cases(rng, call):
    import importlib
    qt = importlib.import_module("tlexport.quic.quic_tls_parser")
    out = []
    MISSING = object()

    def rb(lo, hi):
        return bytes(rng.randrange(256) for _ in range(rng.randint(lo, hi)))

    def ob(x):
        return "none" if x is None or x is MISSING else f"(some {_b(x)})"

    def vint(n):
        return bytes([n]) if n < 64 else (0x4000 | n).to_bytes(2, "big")

    def tparams():
        b_ = b""
        for _ in range(rng.randint(0, 3)):
            body = rb(0, 3)
            b_ += vint(rng.choice([1, 4, 0x2ab2, 0x2ab2, 63])) + vint(len(body) + rng.choice([0, 0, 0, 2])) + body
        return b_[:rng.randint(0, len(b_))] if rng.random() < 0.3 else b_

    def exts():
        b_ = b""
        for _ in range(rng.randint(0, 4)):
            t = rng.choice([43, 16, 57, 57, 10])
            if t == 43:
                body = rng.choice([b"\x03\x04", b"\x03", rb(0, 3)])
            elif t == 16:
                nm = rb(0, 4)
                body = rng.choice([b"\x00" + bytes([len(nm) + 1, len(nm)]) + nm, b"\x00\x05\x09ab", rb(0, 2), b"\x00\x02\x00"])
            elif t == 57:
                body = tparams()
            else:
                body = rb(0, 3)
            b_ += t.to_bytes(2, "big") + (len(body) + rng.choice([0, 0, 0, 0, 1])).to_bytes(2, "big") + body
        return (len(b_) + rng.choice([0, 0, 0, 0, 1])).to_bytes(2, "big") + b_

    def state(o):
        g = lambda n: getattr(o, n, MISSING)
        return (f"{{ client_random := {ob(o.client_random)}, ciphersuite := {ob(o.ciphersuite)}, alpn := {ob(o.alpn)}, tls_vers := {ob(o.tls_vers)}, "
                f"greasy_bit := {_bool(o.greasy_bit)}, new_data := {_bool(o.new_data)}, session_id := {ob(g('session_id'))} }}")
    for func in ("get_quic_transport_parameters", "get_extensions", "handle_client_hello", "handle_server_hello", "handle_encrypted_extensions", "handle_record"):
        o = qt.QuicTlsSession()
        if rng.random() < 0.4:
            o.alpn, o.tls_vers, o.greasy_bit = b"h3", b"\x03\x03", rng.random() < 0.3
        before = state(o)
        sid = rb(0, 3)
        suites = rb(0, 2) + rb(2, 2) * rng.randint(0, 2)
        chb = b"\x03\x03" + rb(32, 32) + bytes([len(sid)]) + sid + len(suites).to_bytes(2, "big") + suites + b"\x01\x00" + exts()
        ch = b"\x01" + (len(chb) + rng.choice([0, 0, 0, 3])).to_bytes(3, "big") + chb
        shb = b"\x03\x03" + rb(32, 32) + bytes([len(sid)]) + sid + rb(2, 2) + b"\x00" + exts()
        sh = b"\x02" + len(shb).to_bytes(3, "big") + shb
        eeb = exts()
        ee = b"\x08" + len(eeb).to_bytes(3, "big") + eeb
        msg = rng.choice([ch, sh, ee])
        if rng.random() < 0.25:
            msg = msg[:rng.randint(0, len(msg))]
        if func == "get_quic_transport_parameters":
            arg = tparams()
            k, v = call(o.get_quic_transport_parameters, arg)
            largs = _b(arg)
        elif func == "get_extensions":
            arg = exts() if rng.random() < 0.9 else rb(0, 5)
            k, v = call(o.get_extensions, arg)
            largs = _b(arg)
        elif func == "handle_record":
            t = rng.choice([msg[0] if msg else 1, 1, 2, 8, 11])
            k, v = call(o.handle_record, t, msg)
            largs = f"{t} {_b(msg)}"
        else:
            arg = {"handle_client_hello": ch, "handle_server_hello": sh, "handle_encrypted_extensions": ee}[func]
            if rng.random() < 0.3:
                arg = arg[:rng.randint(0, len(arg))]
            k, v = call(getattr(o, func), arg)
            largs = _b(arg)
        out.append(("QTls." + func, f"{largs} {before}", f".ok () {state(o)}" if k == "ok" else f".raised .{v} {state(o)}"))
    return out


def _main_cases(rng, call):
    """main.py handle_packet (group Main2) with toy sessions (an object = its id and what it was fed), the key-log statements and
    the collection fragment are straight-line: handle_packet is the one with a loop"""
    import importlib
    main = importlib.import_module("tlexport.main")
    out = []

    class S:
        def __init__(self, ident, mod):
            self.ident, self.mod, self.fed = ident, mod, 0

        def matches_session(self, packet):
            return packet.k % self.mod == 0

        def handle_packet(self, packet):
            self.fed += packet.k
    saved = main.Session, list(main.server_ports)
    main.Session = lambda packet, *a: S(100 + packet.k, 1)
    try:
        for _ in range(4):
            ss = [S(i, rng.choice([2, 3, 5, 7])) for i in range(rng.randint(0, 4))]
            before = "[" + ", ".join(f"({x.ident}, {x.mod}, {x.fed})" for x in ss) + "]"
            pk = types.SimpleNamespace(k=rng.randint(1, 12), dport=rng.choice([443, 80, 5000]), sport=rng.choice([443, 80, 5000]))
            main.server_ports[:] = rng.choice([[443], [443, 5000], []])
            call(main.handle_packet, pk, None, b"", ss, {}, False, False)
            after = "[" + ", ".join(f"({x.ident}, {x.mod}, {x.fed})" for x in ss) + "]"
            out.append(("(fun k ss ports dp sp => (Main.handle_packet (σ := Nat × Nat × Nat) (π := Nat) (fun s q => q % s.2.1 == 0) "
                        "(fun s q => (s.1, s.2.1, s.2.2 + q)) (fun q => (100 + q, 1, 0)) k ss ports dp sp).sessions)",
                        f"{pk.k} {before} [{', '.join(str(x) for x in main.server_ports)}] {pk.dport} {pk.sport}", after))
        # handle_quic_packet: the session loop (toy sessions: id, CID sets, "on my address pair", "from my client", the CIDs fed)
        class Q:
            def __init__(self, ident):
                self.ident, self.fed = ident, []
                self.client_cids = {bytes(rng.randrange(3) for _ in range(rng.randint(0, 2))) for _ in range(rng.randint(0, 2))}
                self.server_cids = {bytes(rng.randrange(3) for _ in range(rng.randint(0, 2))) for _ in range(rng.randint(0, 2))}
                self.on, self.client_ip, self.client_port = rng.random() < 0.3, rng.choice([b"c", b"x"]), 7

            def matches_session_dgram(self, *a):
                return self.on

            def handle_packet(self, packet, cid, ver):
                self.fed.append(cid)
        savedq = main.QuicSession
        main.QuicSession = lambda packet, *a: Q(100)
        try:
            for _ in range(5):
                ss = [Q(i) for i in range(rng.randint(0, 3))]
                lb = lambda st: "[" + ", ".join(_b(x) for x in sorted(st)) + "]"
                before = "[" + ", ".join(f"({x.ident}, {lb(x.client_cids)}, {lb(x.server_cids)}, {_bool(x.on)}, {_bool(x.client_ip == b'c')}, ([] : List TLX.Bytes))"
                                         for x in ss) + "]"
                dcid = bytes(rng.randrange(3) for _ in range(rng.randint(0, 2)))
                long = rng.random() < 0.5
                payload = (b"\xc0\x00\x00\x00\x01" + bytes([len(dcid)]) + dcid + b"\x00\x00") if long else b"\x40" + dcid + b"\x09"
                pk = types.SimpleNamespace(tls_data=payload, ip_src=b"c", ip_dst=b"s", sport=7, dport=443)
                call(main.handle_quic_packet, pk, [], ss, {}, False)
                after = "[" + ", ".join(f"({x.ident}, [" + ", ".join(_b(c) for c in x.fed) + "])" for x in ss) + "]"
                out.append(("(fun ht d v pl ss => match (Main.quic_loop (τ := Nat × List TLX.Bytes × List TLX.Bytes × Bool × Bool × List TLX.Bytes) (π := Unit) "
                            "(fun s => s.2.1) (fun s => s.2.2.1) (fun s => s.2.2.2.1) (fun s => s.2.2.2.2.1) TLX.MainLoop.sortCids "
                            "(fun s _ c _ => (s.1, s.2.1, s.2.2.1, s.2.2.2.1, s.2.2.2.2.1, s.2.2.2.2.2 ++ [c])) (fun _ => (100, [], [], false, false, [])) "
                            "() ht d v pl ss) with | .ok _ st => st.quic_sessions.map (fun s => (s.1, s.2.2.2.2.2)) | .raised _ _ => [])",
                            f"TLX.Quic.HType.{'long' if long else 'short'} {_b(dcid if long else b'')} TLX.MainLoop.Version.{'v1' if long else 'unknown'} {_b(payload)} {before}",
                            after))
        finally:
            main.QuicSession = savedq
    finally:
        main.Session = saved[0]
        main.server_ports[:] = saved[1]
    return out


def _kl_cases(rng, call):
    """keylog_reader.py (group Keylog): `Key(line)` on lines with few or many fields; get_keys_from_string with the REAL regular
    expression against the translation with the model's `accepts` as `re_match`"""
    import importlib
    kr = importlib.import_module("tlexport.keylog_reader")
    out = []
    st = lambda x: "([" + ", ".join(str(ord(c)) for c in x) + "] : List Nat)"
    hexs = lambda n, up: "".join(rng.choice("0123456789abcdef" + ("ABCDEF" if up else "")) for _ in range(n))

    def line():
        lab = rng.choice(["CLIENT_RANDOM", "CLIENT_HANDSHAKE_TRAFFIC_SECRET", "AB", "X0_", "A" * 33, "client_random", "RSA", "EXPORTER_SECRET1"])
        cr = hexs(rng.choice([64, 64, 64, 63, 65]), rng.random() < 0.3)
        return rng.choice([f"{lab} {cr} {hexs(rng.randint(0, 6), True)}", f"{lab} {cr}", f"{lab}  {cr} ab", f"# {lab}", "", f"{lab} {cr} zz yy"])
    for _ in range(3):
        l = rng.choice([line(), "a b", "a", "a b c d", " "])
        me = types.SimpleNamespace()
        k, v = call(kr.Key.__init__, me, l)
        out.append(("(fun l => (KL.Key_init l).map fun k => (k.label, k.clientRandom, k.value))", st(l),
                    f".ok ({st(me.label)}, {st(me.client_random)}, {st(me.value)})" if k == "ok" else f".error .{v}"))
    for _ in range(3):
        text = rng.choice(["\n", "\r\n", "\n\n"]).join(line() for _ in range(rng.randint(0, 4)))
        k, v = call(kr.get_keys_from_string, text)
        exp = "[" + ", ".join(f"({st(x.label)}, {st(x.client_random)}, {st(x.value)})" for x in v) + "]"
        out.append(("(fun s => (KL.get_keys_from_string (fun l => if TLX.Keylog.accepts .any l then some () else none) s).map "
                    "fun ks => ks.map fun k => (k.label, k.clientRandom, k.value))", st(text), f".ok {exp}"))
    return out


def _opts_cases(rng, call):
    """main.py options (group Opts): `MapPortsAction.__call__` on a namespace, `get_port_map` on namespaces with and without `mapports`
    (the translation with the model's `pyInt` as `py_int` against CPython's `int`), the `server_ports.extend` statement of `run`.
    The strings stay below U+0100: `TLX.Options.pyInt` models `int()` on latin-1 text only (its header says so); CPython's `int` also
    accepts other Unicode decimal digits and spaces (`int("\u0661") == 1`), where the instantiated external and CPython differ."""
    import importlib
    import argparse
    main = importlib.import_module("tlexport.main")
    out = []
    st = lambda x: "([" + ", ".join(str(ord(c)) for c in x) + "] : List Nat)"
    sl = lambda xs: "([" + ", ".join(st(x) for x in xs) + "] : List (List Nat))"
    il = lambda xs: "([" + ", ".join(f"({x} : Int)" for x in xs) + "] : List Int)"
    num = lambda: rng.choice(["443", "8080", " 80", "+5", "-1", "1_0", "4 4", "", "x", "0x10", "65536", "1__0", "\t7\n", "_1", "\xa07", "\x1c7"])
    tok = lambda: rng.choice([f"{num()}:{num()}", f"{num()}:{num()},", f"{num()}", f"{num()}:{num()}:{num()}", f"4,43:{num()}", ":", ""])
    for _ in range(3):
        vals = [tok() for _ in range(rng.randint(0, 3))]
        ns = argparse.Namespace()
        call(main.MapPortsAction.__call__, types.SimpleNamespace(dest="mapports"), None, ns, list(vals))
        out.append(("(fun v => let r := Opts.MapPortsAction_call v; (r.mapports, r.keep))", sl(vals),
                    f"({sl(ns.mapports)}, {_bool(ns.keep_original_ports)})"))
    for _ in range(5):
        vals = [tok() for _ in range(rng.randint(0, 4))]
        if rng.random() < 0.4:
            vals = [f"{rng.choice([443, 80, 1])}:{rng.randint(1, 9)}" for _ in range(rng.randint(1, 4))]
        ns = rng.choice([argparse.Namespace(), argparse.Namespace(mapports=None), argparse.Namespace(mapports=vals), argparse.Namespace(mapports=vals)])
        k, v = call(main.get_port_map, ns)
        arg = f"(some {sl(ns.mapports)})" if getattr(ns, "mapports", None) is not None else "(none : Option (List (List Nat)))"
        exp = ("[" + ", ".join(f"(({a} : Int), ({b} : Int))" for a, b in v.items()) + "]") if k == "ok" else None
        out.append(("Opts.get_port_map TLX.Options.pyInt", arg, f".ok {exp}" if k == "ok" else f".error .{v}"))
    for _ in range(3):
        vals = [num() for _ in range(rng.randint(0, 3))]
        sp0 = [rng.randint(0, 70000) for _ in range(rng.randint(0, 3))]
        sp = list(sp0)
        k, v = call(lambda a: sp.extend([int(x) for x in a]), vals)          # the statement of `run` (its text is what is translated)
        out.append(("Opts.extend_server_ports TLX.Options.pyInt", f"{il(sp0)} {sl(vals)}",
                    f".ok () {{ server_ports := {il(sp)} }}" if k == "ok" else f".raised .{v} {{ server_ports := {il(sp)} }}"))
    out.append(("Opts.builtin_server_ports", "", il(main.server_ports)))
    return out


def _tk_cases(rng, call):
    """session.py key selection (group TlsKeys): `find_session_secrets` on toy key logs (ASCII text: `str_lower` is the model's `lower`);
    the two fragments of `generate_keys` are executed from their own source text (the statements `py2lean.select` picks, wrapped in a
    function: a `return` in the fragment gives None, reaching its end gives the locals)"""
    import importlib
    import inspect
    ses = importlib.import_module("tlexport.session")
    out = []
    st = lambda x: "([" + ", ".join(str(ord(c)) for c in x) + "] : List Nat)"
    kobj = lambda k: f"(⟨{st(k.label)}, {st(k.client_random)}, {st(k.value)}⟩ : TLX.Keylog.Key)"
    klist = lambda ks: "([" + ", ".join(kobj(k) for k in ks) + "] : List TLX.Keylog.Key)"
    trip = lambda ks: "[" + ", ".join(f"({st(k.label)}, {st(k.client_random)}, {st(k.value)})" for k in ks) + "]"
    vopt = lambda v: "(none : Option TLX.Session.Ver)" if v is None or v.name == "UNDEFINED" else f"(some {TLSVER['TlsVersion.' + v.name][0]})"
    fn = next(n for n in ast.walk(ast.parse(textwrap.dedent(inspect.getsource(ses.Session)))) if isinstance(n, ast.FunctionDef) and n.name == "generate_keys")

    def frag(sel, params, result):
        _, stmts = py2lean.select(fn, sel, "generate_keys")
        f = ast.FunctionDef(name="frag", args=ast.arguments(posonlyargs=[], args=[ast.arg(arg=a) for a in params], kwonlyargs=[], kw_defaults=[], defaults=[]),
                            body=list(stmts) + [ast.parse(f"return ({result},)").body[0]], decorator_list=[], type_params=[])
        mod = ast.Module(body=[f], type_ignores=[])
        ast.fix_missing_locations(mod)
        ns = dict(vars(ses))
        exec(compile(mod, "<fragment>", "exec"), ns)
        return ns["frag"]
    f_sel = frag({"start": "secret_list = self.find_session_secrets()", "end": "try:\n    secret = secret_list[0]"}, ["self", "tls_version"], "secret_list")
    f_blk = frag({"start": "block_size = 0", "end": "if algo in [AES, AESCCM, AESGCM, Camellia]:"}, ["cipher_suite"], "block_size")
    labels = ["CLIENT_RANDOM", "RSA", "CLIENT_HANDSHAKE_TRAFFIC_SECRET", "SERVER_HANDSHAKE_TRAFFIC_SECRET", "CLIENT_TRAFFIC_SECRET_0", "client_random", "X"]
    for i in range(6):
        cr = bytes(rng.randrange(256) for _ in range(rng.choice([0, 1, 2, 32])))
        other = bytes(rng.randrange(256) for _ in range(2))
        crs = lambda: rng.choice([cr.hex(), cr.hex().upper(), cr.hex().capitalize(), other.hex(), cr.hex() + "0", ""])
        kl = [types.SimpleNamespace(label=rng.choice(labels), client_random=crs(), value=rng.choice(["ab", "", "zz"])) for _ in range(rng.randint(0, 5))]
        v = rng.choice([None] + list(ses.TlsVersion))
        me = types.SimpleNamespace(keylog=kl, client_random=cr, tls_version=v, can_decrypt=True, server_ip=b"", client_ip=b"", server_port=1,
                                   client_port=2, binary_to_ip=lambda x: x)
        me.find_session_secrets = lambda me=me: ses.Session.find_session_secrets(me)
        if i % 2 == 0:
            k, r = call(ses.Session.find_session_secrets, me)
            out.append(("(fun kl cr v => (TK.find_session_secrets TLX.Keylog.lower kl cr v).map fun k => (k.label, k.clientRandom, k.value))",
                        f"{klist(kl)} {_b(cr)} {vopt(v)}", trip(r)))
        else:
            k, r = call(f_sel, me, v)
            exp = (f"(PyRt.Exit.ret, {_bool(me.can_decrypt)}, ([] : List (List Nat × List Nat × List Nat)))" if r is None
                   else f"(PyRt.Exit.fall, {_bool(me.can_decrypt)}, {trip(r[0])})")
            out.append(("(fun kl cr v => match TK.select_secret TLX.Keylog.lower v kl cr v true with "
                        "| .ok e s => (e, s.can_decrypt, s.secret_list.map fun k => (k.label, k.clientRandom, k.value)) "
                        "| .raised _ s => (PyRt.Exit.brk, s.can_decrypt, []))", f"{klist(kl)} {_b(cr)} {vopt(v)}", exp))
    for name, (term, _) in ALG_CONSTS.items():
        k, r = call(f_blk, {"CryptoAlgo": (getattr(ses, name), False)} if hasattr(ses, name) else None)
        if k == "ok":
            out.append(("(fun a => (TK.block_size a).block_size)", term, str(r[0])))
    f_ins = frag({"start": "block_size = 0", "end": "self.decryptor = Decryptor("}, ["self", "cipher_suite", "keys", "Decryptor"], "self.decryptor")
    for name, (term, _) in ALG_CONSTS.items():
        if not hasattr(ses, name):
            continue
        kl_, ds_, tl_, m_, k_, ex_, c_ = (rng.randint(0, 40) for _ in range(7))
        tl_ = rng.choice([None, tl_])
        v = rng.choice(list(ses.TlsVersion))
        me = types.SimpleNamespace(tls_version=v, extensions=ex_, compression_method=c_, decryptor=None)
        suite = {"CryptoAlgo": (getattr(ses, name), False), "Mode": (m_, None), "MAC": types.SimpleNamespace(digest_size=ds_, code=2),
                 "KeyLength": kl_, "TagLength": tl_}
        k, r = call(f_ins, me, suite, k_, lambda *a: list(a))
        a = r[0]
        exp = [a[1], a[2].code, a[3], 12 if a[4] == ses.TlsVersion.TLS12 else 0, a[5], a[6], 99 if a[7] is None else a[7], a[8], a[9], a[10]]
        out.append(("(fun a v => (TK.install (fun _ m mac k v kl ds tl bs ex c => [m, mac, k, (if v = some TLX.Session.Ver.tls12 then 12 else 0), kl, ds, "
                    f"tl.getD 99, bs, ex, c]) a {m_} 2 {k_} {kl_} {ds_} {'none' if tl_ is None else f'(some {tl_})'} v {ex_} {c_}).decryptor)",
                    f"{term} {vopt(v)}", "[" + ", ".join(str(x) for x in exp) + "]"))
    return out


def _dsb_cases(rng, call):
    """dpkt_dsb.py (group Dsb): `DecryptionSecretBlock(buf)` / `DecryptionSecretBlockLE(buf)` of the REAL classes (dpkt underneath) on
    well-formed blocks, blocks with options, truncated blocks, wrong length fields — against the translation with the model's
    `fld` / `blockTail` as the dpkt externals (NeedData = `.struct`, UnpackError = `.value`, UnicodeDecodeError = `.type`).
    The `len` field stays ≥ 7: below, `_do_unpack_options` slices with a negative bound, which `blockTail` does not model (its header
    says so: the Reader has raised on such a length before any block class is built)."""
    import importlib
    import struct
    import dpkt
    dd = importlib.import_module("tlexport.dpkt_dsb")
    out = []
    for _ in range(6):
        le = rng.random() < 0.5
        o = "<" if le else ">"
        data = bytes(rng.randrange(256) for _ in range(rng.choice([0, 1, 3, 4, 7, 16])))
        pad = b"\0" * (-len(data) % 4)
        opts = rng.choice([b"", struct.pack(o + "HH", 1, 2) + b"hi\0\0" + struct.pack(o + "HH", 0, 0), struct.pack(o + "HH", 1, 1) + b"\xff\0\0\0",
                           struct.pack(o + "HH", 5, 3) + b"abc"])
        n = 20 + len(data) + len(pad) + len(opts)
        slen = rng.choice([len(data), len(data), len(data) + 1, 0, 1000])
        buf = struct.pack(o + "IIII", 10, rng.choice([n, n, n, n + 4, 12, 7]), rng.choice([0x544c534b, 0]), slen) + data + pad + opts \
            + struct.pack(o + "I", rng.choice([n, n, n, n + 1]))
        buf = rng.choice([buf, buf, buf, buf[:rng.randint(0, len(buf))], buf + b"\1\2\3\4"])
        try:
            exp = ".ok " + _b((dd.DecryptionSecretBlockLE if le else dd.DecryptionSecretBlock)(buf).pkt_data)
        except dpkt.NeedData:
            exp = ".error .struct"
        except dpkt.UnpackError:
            exp = ".error .value"
        except UnicodeDecodeError:
            exp = ".error .type"
        e = "TLX.Container.Endian." + ("le" if le else "be")
        out.append((f"(fun buf => (Dsb.unpack (fun b => if b.length < 20 then .error .struct else .ok (TLX.Container.fld {e} b 4 4)) "
                    f"(fun b => TLX.Container.fld {e} b 12 4) (fun b l oo => match TLX.Container.blockTail {e} b l oo.toNat with "
                    "| .ok o => .ok o | .error .needData => .error .struct | .error .lenMismatch => .error .value | .error _ => .error .type) buf).map (·.pkt_data))",
                    _b(buf), exp))
    return out


def _d2_cases(rng, call):
    """Decryptor.__init__ (group Decrypt2) on an object made without it, with the real `cryptography` classes (ARC4 keys of 16 / 3 bytes
    or None, `ChaCha20(key)` without a nonce); the attributes the constructor does not assign are sentinels on the Lean side and
    missing on the Python side"""
    import importlib
    dm = importlib.import_module("tlexport.decryptor")
    from tlexport.tlsversion import TlsVersion as TV
    out = []
    st = lambda x: "([" + ", ".join(str(ord(c)) for c in x) + "] : List Nat)"
    ob = lambda x: "none" if x is None else f"(some {_b(x)})"
    SENT = b"\xff"
    algs = [(dm.AES, "aes"), (dm.AESGCM, "aesgcm"), (dm.AESCCM, "aesccm"), (dm.ChaCha20, "chacha20"), (dm.ChaCha20Poly1305, "chachaPoly"),
            (dm.ARC4, "arc4"), (dm.ARC4, "arc4"), (dm.TripleDES, "tdes")]
    vers = [(TV.SSL30, "ssl30"), (TV.TLS10, "tls10"), (TV.TLS11, "tls11"), (TV.TLS12, "tls12"), (TV.TLS13, "tls13"), (TV.TLS13, "tls13")]
    ctys = {"EncryptionType.Stream_Cipher": "stream", "EncryptionType.Block_Cipher": "block", "EncryptionType.AEAD": "aead", "EncryptionType.Unknown": "unknown"}
    n13 = ["client_handshake_iv", "server_handshake_iv", "client_application_iv", "server_application_iv", "client_handshake_traffic_secret",
           "server_handshake_traffic_secret", "client_application_traffic_secret_0", "server_application_traffic_secret_0"]
    nl = ["client_write_IV", "server_write_IV", "client_write_key", "server_write_key", "client_write_MAC_secret", "server_write_MAC_secret"]
    for _ in range(6):
        alg, ver = rng.choice(algs), rng.choice(vers)
        kv = lambda: rng.choice([bytes([rng.randrange(256)]) * 16, bytes([rng.randrange(256)]) * 16, bytes(3), None])
        d = {n_: kv() for n_ in (n13 if ver[1] == "tls13" else nl)}
        if rng.random() < 0.15:
            d.pop(rng.choice(list(d)))
        tag = rng.choice([None, 8, 16])
        exts = rng.choice([{}, {b"\x00\x16": b""}, {b"\x00\x17": b"", b"\x00\x16": b"x"}])
        comp = rng.choice([0, 0, 0, 1])
        me = object.__new__(dm.Decryptor)
        k, v = call(dm.Decryptor.__init__, me, alg[0], None, None, d, ver[0], 16, 20, tag, 128, exts, comp)
        g = lambda n_: getattr(me, n_, SENT)
        ld = "[" + ", ".join(f"({st(n_)}, {ob(x)})" for n_, x in d.items()) + "]"
        le = "[" + ", ".join(f"({_b(a)}, {_b(b_)})" for a, b_ in exts.items()) + "]"
        S = "(some [255])"
        st0 = ("(⟨TLX.Cipher.Alg.none, TLX.RecordLayer.Version.tls11, 0, none, 0, 7, false, none, " + ", ".join([S] * 14) + ", 9, 9, " + S + ", " + S + ", none, none, none, none⟩ : Dec2.St)")
        ct = g("cipher_type")
        e1 = (f"({'none' if ct is SENT else '(some TLX.RecordLayer.CType.' + ctys[str(ct)] + ')'}, {'none' if g('tag_length') in (SENT, None) else '(some ' + str(me.tag_length) + ')'}, "
              f"{_bool(g('encrypt_then_mac') is True)}, PyRt.Err.{'fuel' if k == 'ok' else v}) "
              f"({g('server_seq') if g('server_seq') is not SENT else 9}, {g('client_seq') if g('client_seq') is not SENT else 9}, "
              f"{_bool(hasattr(me, 'server_cipher'))}, {_bool(hasattr(me, 'client_cipher'))}, {_bool(hasattr(me, 's_decompressor'))})")
        e2 = "[" + ", ".join(ob(g(f"{a}_{b_}")) for a in ("server", "client") for b_ in ("key", "iv", "mac")) + "]"
        e3 = "[" + ", ".join(ob(g(f"{a}_{b_}")) for a in ("server", "client") for b_ in ("handshake_key", "handshake_iv", "application_key", "application_iv")) + "]"
        e4 = "[" + ", ".join(ob(g(n_)) for n_ in ("last_block_server", "last_block_client")) + "]"
        out.append(("(fun alg ver d tag exts comp st0 e1 e1b (e2 e3 e4 : List (Option TLX.Bytes)) => (fun (r : PyRt.Res Dec2.St Unit) => "
                    "let t := match r with | PyRt.Res.ok _ t => t | PyRt.Res.raised _ t => t; "
                    "let e := match r with | PyRt.Res.ok _ _ => PyRt.Err.fuel | PyRt.Res.raised e _ => e; "
                    "decide ((t.cipher_type, t.tag_length, t.encrypt_then_mac, e) = e1) && "
                    "decide ((t.server_seq, t.client_seq, t.server_cipher.isSome, t.client_cipher.isSome, t.s_decompressor.isSome) = e1b) && "
                    "decide ([t.server_key, t.server_iv, t.server_mac, t.client_key, t.client_iv, t.client_mac] = e2) && "
                    "decide ([t.server_handshake_key, t.server_handshake_iv, t.server_application_key, t.server_application_iv, "
                    "t.client_handshake_key, t.client_handshake_iv, t.client_application_key, t.client_application_iv] = e3) && "
                    "decide ([t.last_block_server, t.last_block_client] = e4)) "
                    "(Dec2.init (fun a key => match a with | TLX.Cipher.Alg.arc4 => (match key with | none => .error .type "
                    "| some k => if k.length = 16 then .ok (k, 0) else .error .value) | _ => .error .type) "
                    "alg () () d ver 16 20 tag 128 exts comp st0))",
                    f"TLX.Cipher.Alg.{alg[1]} TLX.RecordLayer.Version.{ver[1]} {ld} {'none' if tag is None else f'(some {tag})'} {le} {comp} {st0} {e1} {e2} {e3} {e4}", "true"))
    return out


def _qs3_cases(rng, call):
    """QuicSession.set_tls_decryptors (group QuicSess3: the two translated parts composed as the method composes them) with a toy
    dev_quic_keys (a dict with some entries missing / `None`, UnboundLocalError without session keys) and a toy QuicDecryptor"""
    import importlib
    qs = importlib.import_module("tlexport.quic.quic_session")
    out = []
    names = ["server_handshake_key", "server_handshake_iv", "client_handshake_key", "client_handshake_iv",
             "server_application_key", "server_application_iv", "client_application_key", "client_application_iv",
             "server_application_sec", "client_application_sec", "client_early_key", "client_early_iv"]
    st = lambda x: "([" + ", ".join(str(ord(c)) for c in x) + "] : List Nat)"
    ob = lambda x: "none" if x is None else f"(some {_b(x)})"
    hsel = {qs.SHA256: "TLX.Quic.Session.HashSel.sha256", qs.SHA384: "TLX.Quic.Session.HashSel.sha384"}
    algs = {qs.AESGCM: "TLX.Cipher.Alg.aesgcm", qs.ChaCha20Poly1305: "TLX.Cipher.Alg.chachaPoly", qs.AESCCM: "TLX.Cipher.Alg.aesccm"}
    saved = (qs.dev_quic_keys, qs.QuicDecryptor)
    try:
        for _ in range(5):
            d = {}
            for n_ in names:
                r = rng.random()
                if r < 0.85:
                    d[n_] = bytes([rng.randrange(256)])
                elif r < 0.93:
                    d[n_] = None
            cr = bytes([rng.randrange(3)])
            keylog = [types.SimpleNamespace(client_random=bytes([rng.randrange(3)]).hex()) for _ in range(rng.randint(0, 3))]
            cs = rng.choice([b"\x13\x01", b"\x13\x02", b"\x13\x03", b"\x13\x04", b"\x13\x05", b"\x13"])
            me = types.SimpleNamespace(hash_fun=None, cipher=None, key_length=None, can_decrypt=True, early_traffic_keys=False,
                                       decryptors={}, keys={}, keylog=keylog, quic_version=None)

            def toy_keys(kl, sk, h, v):
                if not sk:
                    raise UnboundLocalError("client_handshake_key")
                return dict(d)

            def toy_dec(ks, cipher, early):
                if cipher is None or any(k_ is None for k_ in ks):
                    raise TypeError("key")
                return (b"".join(ks), early)
            qs.dev_quic_keys, qs.QuicDecryptor = toy_keys, toy_dec
            k, v = call(qs.QuicSession.set_tls_decryptors, me, cr, cs)
            ld = "[" + ", ".join(f"({st(n_)}, {ob(x)})" for n_, x in d.items()) + "]"
            lk = "[" + ", ".join(_b(bytes.fromhex(x.client_random)) for x in keylog) + "]"
            g = lambda n_: me.decryptors.get(n_)
            app = g("Application")
            e1 = ("(" + ("none" if me.hash_fun is None else f"(some {hsel[me.hash_fun]})") + ", " + ("none" if me.cipher is None else f"(some {algs[me.cipher]})")
                  + f", {'none' if me.key_length is None else f'(some {me.key_length})'}, {_bool(me.can_decrypt)}, {_bool(me.early_traffic_keys)}, "
                  + f"PyRt.Err.{'fuel' if k == 'ok' else v})")
            e2 = (f"({ob(g('Handshake')[0] if g('Handshake') else None)}, {ob(app[0][0] if app else None)}, {ob(g('Early')[0] if g('Early') else None)}, "
                  + "[" + ", ".join(st(n_) for n_ in me.keys) + "], [" + ", ".join(ob(x) for x in me.keys.values()) + "])")
            # (the comparison is split in two: instance search gives up on one long tuple)
            out.append(("(fun cs cr kl d e1 (e2 : Option TLX.Bytes × Option TLX.Bytes × Option TLX.Bytes × List (List Nat) × List (Option TLX.Bytes)) => (fun (r : PyRt.Res QS3.St PyRt.Exit) => "
                        "let t := match r with | PyRt.Res.ok _ t => t | PyRt.Res.raised _ t => t; "
                        "let e := match r with | PyRt.Res.ok _ _ => PyRt.Err.fuel | PyRt.Res.raised e _ => e; "
                        "decide ((t.hash_fun, t.cipher, t.key_length, t.can_decrypt, t.early_traffic_keys, e) = e1) && "
                        "decide (t.dec_handshake.map (·.client.key) = e2.1) && decide ((t.dec_app.getD []).head?.map (·.client.key) = e2.2.1) && "
                        "decide (t.dec_early.map (·.client.key) = e2.2.2.1) && decide (t.keys.map (·.1) = e2.2.2.2.1) && decide (t.keys.map (·.2) = e2.2.2.2.2)) "
                        "(match QS3.select_suite cs ⟨none, none, none, true, false, none, none, none, []⟩ with "
                        "| PyRt.Res.ok PyRt.Exit.fall st1 => QS3.install (κ := TLX.Bytes) (fun k => k) "
                        "(fun _ sk _ _ => if sk.length > 0 then .ok d else .error .unbound) "
                        "(fun ks alg early => match alg with | none => .error .type | some a => if ks.any (·.isNone) then .error .type else "
                        ".ok { alg := a, server := if early then none else some ⟨[], []⟩, client := ⟨(ks.map (·.getD [])).flatten, []⟩ }) "
                        "cr kl TLX.Quic.Session.Version.v1 st1 | r => r))",
                        f"{_b(cs)} {_b(cr)} {lk} {ld} {e1} {e2}", "true"))
    finally:
        qs.dev_quic_keys, qs.QuicDecryptor = saved
    return out


def _qs_cases(rng, call):
    """QuicSession.decrypt_packet / handle_frame / handle_quic_packet (group QuicSess2) on a session made without `__init__`, with toy
    decryptors, a toy `parse_frames` and toy `check_key_epoch` / `get_full_packet_number` / `set_largest_packet_number` — the same
    functions as externals on the Lean side; observed: the data of the STREAM frames in the output buffer (the toy decryptor returns
    its tag + the associated data), the epochs (the toys count there) and the CID sets"""
    import importlib
    qs = importlib.import_module("tlexport.quic.quic_session")
    qp = importlib.import_module("tlexport.quic.quic_packet")
    qf = importlib.import_module("tlexport.quic.quic_frame")
    pts = {getattr(qp.QuicPacketType, k.split(".")[1]): v[0] for k, v in PTYPE.items()}
    out = []

    def rb(lo, hi):
        return bytes(rng.randrange(256) for _ in range(rng.randint(lo, hi)))

    def ob(x):
        return "none" if x is None else f"(some {_b(x)})"

    class Dec:
        def __init__(self, tag):
            self.tag = tag

        def decrypt(self, payload, pn, aad, srv):
            if self.tag == 9:
                raise ValueError("tag")
            if payload is None:
                raise TypeError("payload")
            return bytes([self.tag]) + aad

    def ldec(d):
        return f"({{ alg := TLX.Cipher.Alg.aesgcm, server := none, client := ⟨[{d.tag}], []⟩ }} : TLX.Quic.Session.Dec)"

    def parse(payload, q):
        if payload[0] == 7:
            raise IndexError("frames")
        f = object.__new__(qf.StreamFrame)
        f.data, f.src_packet = payload, q
        return [f]
    HCF = "(fun st o => .ok () { st with epochClient := st.epochClient + 100 })"
    CKE = "(fun st kp _ => .ok () { st with epochServer := st.epochServer + (if kp = some 1 then 1 else 0) })"
    GFPN = "(fun st q => match q.pn with | some b => .ok b st | none => .raised .type st)"
    SLPN = "(fun st _ _ => .ok () { st with epochClient := st.epochClient + 1000 })"
    DEC = ("(fun d pl _ aad _ => if d.client.key = [9] then .error .value else match pl with | none => .error .type "
           "| some _ => .ok (d.client.key ++ aad))")
    PARSE = ("(fun pl q => if pl.head? = some 7 then .error .index else "
             ".ok [⟨.parsed (.stream 0 0 false false false 0 0 0 pl), q.ts, q.isServer, q.ptype⟩])")
    VIEW = ("(fun r => match r with | PyRt.Res.ok _ t => (t.out.map (fun o => match o.frame with "
            "| .parsed (.stream _ _ _ _ _ _ _ _ d) => d | .versionNeg => [86] | _ => []), t.epochServer, t.epochClient, "
            "t.serverCids.length, t.clientCids.length, t.decInitial.isSome, PyRt.Err.fuel) "
            "| PyRt.Res.raised e t => (t.out.map (fun _ => []), t.epochServer, t.epochClient, t.serverCids.length, t.clientCids.length, t.decInitial.isSome, e))")

    def session():
        me = types.SimpleNamespace()
        me.decryptors = {}
        for k_ in ("Initial", "Handshake", "Early"):
            if rng.random() < 0.7:
                me.decryptors[k_] = Dec(rng.choice([1, 2, 7, 9]))
        if rng.random() < 0.8:
            me.decryptors["Application"] = [Dec(rng.choice([3, 4, 7, 9])) for _ in range(rng.randint(1, 2))]
        me.epoch_server, me.epoch_client = rng.randint(0, 2), rng.randint(0, 2)
        me.server_cids, me.client_cids = set(), set()
        me.output_buffer = []
        me.check_key_epoch = lambda kp, srv: setattr(me, "epoch_server", me.epoch_server + (1 if kp == 1 else 0))
        me.get_full_packet_number = lambda q: bytes(q.packet_num)
        me.set_largest_packet_number = lambda q, pn: setattr(me, "epoch_client", me.epoch_client + 1000)
        me.handle_crypto_frame = lambda f: setattr(me, "epoch_client", me.epoch_client + 100)
        me.handle_frame = lambda f: qs.QuicSession.handle_frame(me, f)
        me.decrypt_packet = lambda q: qs.QuicSession.decrypt_packet(me, q)
        me.keys, me.tls_session, me.hash_fun, me.cipher, me.key_length, me.alpn = {"k": b"1"}, None, 1, 1, 1, b"h3"
        return me

    def lstate(me):
        d = me.decryptors
        g = lambda k_: "none" if k_ not in d else f"(some {ldec(d[k_])})"
        app = "none" if "Application" not in d else "(some [" + ", ".join(ldec(x) for x in d["Application"]) + "])"
        return (f"({{ tls := (), decInitial := {g('Initial')}, decHandshake := {g('Handshake')}, decEarly := {g('Early')}, decApp := {app}, "
                f"epochServer := {me.epoch_server}, epochClient := {me.epoch_client} }} : TLX.Quic.Session.St Unit)")

    def packet():
        short = rng.random() < 0.35
        q = object.__new__(qp.ShortQuicPacket if short else qp.LongQuicPacket)
        T = qp.QuicPacketType
        q.packet_type = rng.choice([T.RTT_1] * 4 + [T.INITIAL] if short else [T.INITIAL, T.INITIAL, T.HANDSHAKE, T.RTT_O, T.RETRY, T.VERSION_NEG, T.RTT_1])
        q.isserver, q.ts, q.key_phase = rng.random() < 0.5, rng.randint(0, 9), (rng.choice([0, 1]) if short else None)
        q.first_byte, q.dcid = rb(1, 1), rb(0, 3)
        opt = lambda v: None if rng.random() < 0.08 else v
        if short:
            pass                       # a ShortQuicPacket has none of the long-header attributes
        else:
            q.version, q.dcid_len, q.scid_len, q.scid = opt(rb(4, 4)), opt(rb(1, 1)), opt(rb(1, 1)), opt(rb(0, 2))
            q.token_len_bytes, q.token, q.packet_len_bytes = opt(rb(1, 1)), opt(rb(0, 2)), opt(rb(1, 2))
            q.supported_version = rb(4, 4)
        q.packet_num, q.payload = opt(rb(1, 2)), opt(rb(1, 3))
        g = lambda n_: getattr(q, n_, None)
        lean = (f"({{ htype := TLX.Quic.HType.{'short' if short else 'long'}, ptype := {pts[q.packet_type]}, isServer := {_bool(q.isserver)}, ts := {q.ts}, "
                f"firstByte := {_b(q.first_byte)}, version := {ob(g('version'))}, dcidLen := {ob(g('dcid_len'))}, dcid := {_b(q.dcid)}, scidLen := {ob(g('scid_len'))}, "
                f"scid := {ob(g('scid'))}, tokenLenBytes := {ob(g('token_len_bytes'))}, token := {ob(g('token'))}, lenBytes := {ob(g('packet_len_bytes'))}, "
                f"pn := {ob(q.packet_num)}, payload := {ob(q.payload)}, keyPhase := {'none' if q.key_phase is None else f'(some {q.key_phase})'} }} : TLX.Quic.Pkt)")
        return q, lean

    def view(me, err="fuel"):
        datas = ", ".join(_b(f.data) if isinstance(f, qf.StreamFrame) else ("[86]" if isinstance(f, qf.PseudoVersionNegotiationFrame) else "[]")
                          for f in me.output_buffer)
        n = lambda st: len([x for x in st if x is not None])
        return (f"([{datas}], {me.epoch_server}, {me.epoch_client}, {n(me.server_cids)}, {n(me.client_cids)}, "
                f"{_bool('Initial' in me.decryptors)}, PyRt.Err.{err})")
    saved = qs.parse_frames
    qs.parse_frames = parse
    try:
        for _ in range(4):
            me = session()
            q, lq = packet()
            before = lstate(me)
            k, v = call(qs.QuicSession.decrypt_packet, me, q)
            assert k == "ok"
            out.append((f"(fun p s => {VIEW} (QS.decrypt_packet (σ := Unit) {HCF} {CKE} {GFPN} {SLPN} {DEC} {PARSE} p s))", f"{lq} {before}", view(me)))
        for _ in range(3):
            me = session()
            qs_ = [packet() for _ in range(rng.randint(0, 3))]
            me.packet_buffer_quic = [a for a, _ in qs_]
            before = lstate(me)
            k, v = call(qs.QuicSession.handle_quic_packet, me)
            if k == "err":
                # the view of a raise does not show the frame data
                for f in me.output_buffer:
                    f.data = b""
                me.output_buffer = [f if isinstance(f, qf.StreamFrame) else types.SimpleNamespace() for f in me.output_buffer]
            lst = "[" + ", ".join(b_ for _, b_ in qs_) + "]"
            out.append((f"(fun ps s => {VIEW} (QS.handle_quic_packet (σ := Unit) {HCF} {CKE} {GFPN} {SLPN} {DEC} {PARSE} () ps s))", f"{lst} {before}",
                        view(me, "fuel" if k == "ok" else v)))
        # set_initial_decryptor with a toy dev_initial_keys (None, a full dict, a dict with an entry missing) and a toy QuicDecryptor
        saved2 = (qs.dev_initial_keys, qs.QuicDecryptor)
        try:
            for _ in range(3):
                me = types.SimpleNamespace(quic_version=None, can_decrypt=True, keys={}, decryptors={})
                names = ["server_initial_key", "server_initial_iv", "client_initial_key", "client_initial_iv"]
                d = rng.choice([None, {n_: rb(1, 2) for n_ in names}, {n_: rb(1, 2) for n_ in names[:rng.randint(0, 3)]}])
                qs.dev_initial_keys = lambda dcid, ver, ch: d
                qs.QuicDecryptor = lambda ks, cipher, early: ("dec", list(ks), early)
                k, v = call(qs.QuicSession.set_initial_decryptor, me, b"\x01", False)
                ld = "none" if d is None else "(some [" + ", ".join("(([" + ", ".join(str(ord(c)) for c in n_) + "] : List Nat), " + _b(x) + ")" for n_, x in d.items()) + "])"
                got = me.decryptors.get("Initial")
                exp_dec = "none" if got is None else f"(some ([{', '.join(_b(x) for x in got[1])}], {_bool(got[2])}))"
                out.append(("(fun d => (fun r => match r with | PyRt.Res.ok _ t => (t.canDecrypt, t.keysInitial, (t.decInitial.map (fun x => x.client.key)).getD [], (t.decInitial.map (fun x => x.server.isSome)).getD false, t.decInitial.isSome, PyRt.Err.fuel) "
                            "| PyRt.Res.raised e t => (t.canDecrypt, t.keysInitial, (t.decInitial.map (fun x => x.client.key)).getD [], (t.decInitial.map (fun x => x.server.isSome)).getD false, t.decInitial.isSome, e)) "
                            "(QS.set_initial_decryptor (σ := Unit) (fun _ _ _ => d) (fun ks alg early => .ok { alg := alg, server := if early then some ⟨[], []⟩ else none, client := ⟨ks.flatten, []⟩ }) "
                            "[1] false ({ tls := () } : TLX.Quic.Session.St Unit)))",
                            ld,
                            f"({_bool(me.can_decrypt)}, {_bool(len(me.keys) > 0)}, "
                            + (f"{_b(b'')}, false, false" if got is None else f"{_b(b''.join(got[1]))}, {_bool(got[2])}, true")
                            + f", PyRt.Err.{'fuel' if k == 'ok' else v})"))
        finally:
            qs.dev_initial_keys, qs.QuicDecryptor = saved2
    finally:
        qs.parse_frames = saved
    return out


def _sess_case(rng, ses, vers, call):
    """one call of one of the record handlers on a random session state → (lean name, arguments, expected)"""
    import types
    from tlexport.tlsrecord import TlsRecord
    MISSING = object()

    def rb(lo, hi):
        return bytes(rng.randrange(256) for _ in range(rng.randint(lo, hi)))

    def hs_msgs():
        out = b""
        for _ in range(rng.randint(0, 3)):
            body = rb(0, 5)
            out += bytes([rng.choice([20, 20, 4, 8])]) + len(body).to_bytes(3, "big") + body
        return out[:rng.randint(0, len(out))] if rng.random() < 0.3 else out

    def server_hello():
        exts = b""
        for _ in range(rng.randint(0, 3)):
            t = rng.choice([b"\x00\x2b", b"\x00\x2b", b"\x00\x17", b"\xff\x01"])
            v = rng.choice([b"\x03\x04", b"\x03\x03", b"", rb(0, 3)])
            exts += t + len(v).to_bytes(2, "big") + v
        sid = rb(0, 4)
        b = (b"\x02" + rb(3, 3) + rng.choice([b"\x03\x03", b"\x03\x01", b"\x03\x02", b"\x03\x00", b"\x02\x00"]) + rb(32, 32)
             + bytes([len(sid)]) + sid + rng.choice([b"\x13\x01", b"\x00\x2f", b"\xc0\x30", rb(2, 2)]) + bytes([rng.choice([0, 0, 1])])
             + (len(exts) + rng.choice([0, 0, 0, 2, -1]) * (1 if exts else 0)).to_bytes(2, "big") + exts)
        return b[:rng.randint(0, len(b))] if rng.random() < 0.25 else b
    func = rng.choice(["handle_alert", "handle_tls_client_hello", "handle_tls_server_hello", "handle_tls_server_hello",
                       "handle_handshake_finished", "handle_tls_handshake_record", "handle_tls_handshake_record",
                       "handle_decrypted_tls_13_handshake_record", "handle_tls_13_application_record", "handle_tls_13_application_record",
                       "handle_tls_application_record", "handle_tls_record", "handle_tls_record", "handle_tls_record"])
    srv = rng.random() < 0.5
    typ = rng.choice([0x16, 0x16, 0x17, 0x17, 0x15, 0x14, 0x18])
    if func in ("handle_tls_handshake_record", "handle_tls_server_hello", "handle_tls_client_hello", "handle_handshake_finished"):
        typ = 0x16
    if func in ("handle_tls_13_application_record", "handle_tls_application_record"):
        typ = 0x17
    if typ == 0x16:
        body = rng.choice([server_hello(), server_hello(), b"\x01" + rb(0, 45), b"\x0b" + rb(0, 6), b""])
        if func == "handle_tls_server_hello":
            body = server_hello()
    elif typ == 0x17:
        inner = rng.choice([hs_msgs() + b"\x16", rb(0, 6) + b"\x17", rb(0, 3) + b"\x15", b"", rb(0, 4)])
        body = inner + bytes(rng.choice([0, 0, 2]))
    else:
        body = rb(0, 3)
    raw = bytes([typ]) + rng.choice([b"\x03\x03", b"\x03\x01", b"\x03\x00", b"\x03\x02"]) + len(body).to_bytes(2, "big") + body
    record = TlsRecord(bytearray(raw), [], srv)
    other = TlsRecord(bytearray(b"\x17\x03\x03\x00\x01\x09"), [], False)
    me = object.__new__(ses.Session)
    me.can_decrypt = rng.random() < 0.7
    me.client_hello_seen = rng.random() < 0.7
    me.tls_version = rng.choice([None] + list(vers) + [ses.TlsVersion.TLS13] * 3)
    me.server_cipher_change, me.client_cipher_change = rng.random() < 0.4, rng.random() < 0.4
    me.decryptor = _ToyDec(rng.randrange(10)) if rng.random() < 0.8 else None
    if rng.random() < 0.8:
        me.client_random = bytearray(rb(32, 32))
    if rng.random() < 0.3:
        me.server_random, me.ciphersuite, me.compression_method, me.extensions = bytearray(rb(32, 32)), bytearray(rb(2, 2)), 0, {b"\x00\x17": bytearray()}
    me.application_traffic = [(b"old", other, False)] if rng.random() < 0.5 else []
    me.handshake_13_buffer = {k: v for k, v in ((False, rng.choice([b"", b"\x14\x00", b"\x08\x00\x00"])), (True, rng.choice([b"", b"\x14\x00\x00"])))
                              if rng.random() < 0.6}
    me.exp_meta = rng.random() < 0.5
    me.server_ip = me.client_ip = b"\x0a\x00\x00\x01"
    me.server_port = me.client_port = 1
    me.ipv6 = False
    me.generate_keys = types.MethodType(_toy_generate_keys, me)
    recs = {id(record): raw, id(other): bytes(other.raw)}

    def rec(r):
        return f"(⟨{_b(recs[id(r)])}, []⟩ : TLX.Session.Rec)"

    def ob(x):
        return "none" if x is None or x is MISSING else f"(some {_b(x)})"

    def state():
        g = lambda a: getattr(me, a, MISSING)
        ver = "none" if me.tls_version is None else f"(some {vers[me.tls_version]})"
        ex = g("extensions")
        exl = "none" if ex is MISSING else "(some [" + ", ".join(f"({_b(k)}, {_b(v)})" for k, v in ex.items()) + "])"
        cm = g("compression_method")
        tr = "[" + ", ".join(f"({ob(d)}, {rec(r)}, {_bool(s_)})" for d, r, s_ in me.application_traffic) + "]"
        hb = me.handshake_13_buffer
        return (f"{{ can_decrypt := {_bool(me.can_decrypt)}, client_hello_seen := {_bool(me.client_hello_seen)}, tls_version := {ver}, "
                f"server_cipher_change := {_bool(me.server_cipher_change)}, client_cipher_change := {_bool(me.client_cipher_change)}, "
                f"decryptor := {'none' if me.decryptor is None else '(some ' + str(me.decryptor.n) + ')'}, client_random := {ob(g('client_random'))}, "
                f"server_random := {ob(g('server_random'))}, ciphersuite := {ob(g('ciphersuite'))}, "
                f"compression_method := {'none' if cm is MISSING else '(some ' + str(cm) + ')'}, extensions := {exl}, "
                f"application_traffic := {tr}, handshake_13_buffer := ({_b(hb.get(False, b''))}, {_b(hb.get(True, b''))}) }}")
    before = state()
    if func == "handle_alert":
        lvl = rng.choice([0, 1, 2, 1, 255])
        pyargs, largs = (lvl,), str(lvl)
    elif func in ("handle_tls_client_hello", "handle_tls_server_hello"):
        pyargs, largs = (record,), rec(record)
    elif func == "handle_decrypted_tls_13_handshake_record":
        pt = hs_msgs()
        pyargs, largs = (pt, srv), f"{_b(pt)} {_bool(srv)}"
    else:
        pyargs, largs = (record, srv), f"{rec(record)} {_bool(srv)}"
    import logging
    logging.disable(logging.CRITICAL)
    try:
        k, v = call(getattr(ses.Session, func), me, *pyargs)
    finally:
        logging.disable(logging.NOTSET)
    exts = " ".join(TOY_EXT[e] for e in SESS_NEEDS[func])
    head = f"(δ := Nat) {exts}".rstrip()
    return ("Sess." + func, f"{head} {largs} {_bool(me.exp_meta)} {before}",
            (f".ok () {state()}" if k == "ok" else f".raised .{v} {state()}"))


def _frame(f):
    """a frame object of the real code as a `Gen.Py.FrameObj` term"""
    cls = type(f).__name__
    if cls in NO_ATTR_CLASSES:
        return f"Gen.Py.FrameObj.{cls}"
    attrs = dict(FRAME_CLASSES)[cls]

    def val(v, t):
        if t.startswith("Option "):
            return "none" if v is None else f"(some {val(v, t[7:])})"
        if t == "Bool":
            return _bool(v)
        if t == "Bytes":
            return _b(v)
        if t.startswith("List "):
            return "[" + ", ".join("(" + ", ".join(str(x) for x in e) + ")" for e in v) + "]"
        return f"({v} : {t})"
    fields = ", ".join(f"{a} := {val(getattr(f, a.rstrip('_'), None), t)}" for a, t in attrs)
    return f"(Gen.Py.FrameObj.{cls} {{ {fields} }})"


def _cases(rng, n):
    """(lean name, lean arguments, expected lean term) from running the REAL Python functions of the tree under test"""
    import importlib
    from types import SimpleNamespace as NS
    dis = importlib.import_module("tlexport.quic.quic_dissector")
    dec = importlib.import_module("tlexport.quic.quic_decode")
    qs = importlib.import_module("tlexport.quic.quic_session")
    qp = importlib.import_module("tlexport.quic.quic_packet")
    ses = importlib.import_module("tlexport.session")
    ob = importlib.import_module("tlexport.output_builder")
    qob = importlib.import_module("tlexport.quic.quic_output_builder")
    import io
    import contextlib
    out = []

    def rb(lo, hi):
        return bytes(rng.randrange(256) for _ in range(rng.randint(lo, hi)))

    def call(f, *a):
        try:
            with contextlib.redirect_stdout(io.StringIO()):
                return ("ok", f(*a))
        except Exception as e:
            if _exc(e) is None:
                raise
            return ("err", _exc(e))
    hts = {qp.QuicHeaderType.LONG: "TLX.Quic.HType.long", qp.QuicHeaderType.SHORT: "TLX.Quic.HType.short"}
    pts = {getattr(qp.QuicPacketType, k.split(".")[1]): v[0] for k, v in PTYPE.items()}
    vers = {getattr(ses.TlsVersion, k.split(".")[1]): v[0] for k, v in TLSVER.items()}
    for _ in range(n):
        d = rb(0, 3)
        k, v = call(dis.get_header_type, d)
        out.append(("get_header_type", _b(d), f".ok {hts[v]}" if k == "ok" else f".error .{v}"))
        k, v = call(dis.get_packet_type, d)
        out.append(("get_packet_type", _b(d), (f".ok (some {pts[v]})" if v is not None else ".ok none") if k == "ok" else f".error .{v}"))
        d = rb(0, 9)
        for name, f in (("get_variable_length_int_length", dec.get_variable_length_int_length),
                        ("decode_variable_length_int", dec.decode_variable_length_int)):
            k, v = call(f, d)
            out.append((name, _b(d), f".ok {v}" if k == "ok" else f".error .{v}"))
        # get_full_packet_number: any field length 0..5, table entries of any size below 2^63, both directions
        srv = rng.random() < 0.5
        pn = rb(0, 5)
        big = rng.choice([0, 1, 255, 2 ** 16, 2 ** 32 - 1, 2 ** 62 - 1, 2 ** 62 + 5]) + rng.randrange(0, 300)
        small = rng.choice([0, 0, 7, 300])
        tabs = {True: {"k": big if srv else small}, False: {"k": small if srv else big}}
        me = NS(packet_number_server=dict(tabs[True]), packet_number_client=dict(tabs[False]))
        old = qs.PACKET_TYPE_MAP
        qs.PACKET_TYPE_MAP = {"t": "k"}
        try:
            k, v = call(qs.QuicSession.get_full_packet_number, me, NS(isserver=srv, packet_type="t", packet_num=pn))
        finally:
            qs.PACKET_TYPE_MAP = old
        unchanged = me.packet_number_server == tabs[True] and me.packet_number_client == tabs[False]
        args = f"{_bool(srv)} {_b(pn)} ({tabs[True]['k']} : Int) ({tabs[False]['k']} : Int)"
        # (the translation of the repaired method has no state: a table write by the Python function is a mismatch)
        out.append(("get_full_packet_number", args,
                    (f".ok {_b(v)}" if k == "ok" else f".error .{v}") if unchanged else "(.error .key /- the Python function wrote a table -/)"))
        if hasattr(qs.QuicSession, "set_largest_packet_number"):
            num = v if (k == "ok" and rng.random() < 0.7) else rb(0, 9)
            me = NS(packet_number_server=dict(tabs[True]), packet_number_client=dict(tabs[False]))
            qs.PACKET_TYPE_MAP = {"t": "k"}
            try:
                call(qs.QuicSession.set_largest_packet_number, me, NS(isserver=srv, packet_type="t"), num)
            finally:
                qs.PACKET_TYPE_MAP = old
            out.append(("set_largest_packet_number", f"{_b(num)} {_bool(srv)} ({tabs[True]['k']} : Int) ({tabs[False]['k']} : Int)",
                        f"{{ pn_server := ({me.packet_number_server['k']} : Int), pn_client := ({me.packet_number_client['k']} : Int) }}"))
        # packet_isserver
        pool = [b"", b"\x01", b"\x01\x02", b"\x09"]
        sc, cc = [c for c in pool if rng.random() < 0.5], [c for c in pool if rng.random() < 0.5]
        dcid = rng.choice(pool)
        ips = [b"\x0a\x00\x00\x01", b"\x0a\x00\x00\x02"]
        pk = NS(ip_src=rng.choice(ips), sport=rng.choice([443, 5000]))
        me = NS(server_cids=set(sc), client_cids=set(cc), client_ip=rng.choice(ips), client_port=rng.choice([443, 5000]))
        k, v = call(qs.QuicSession.packet_isserver, me, pk, dcid)
        lst = lambda xs: "[" + ", ".join(_b(x) for x in xs) + "]"
        out.append(("packet_isserver", f"{_b(dcid)} {lst(sc)} {lst(cc)} {_b(pk.ip_src)} {pk.sport} {_b(me.client_ip)} {me.client_port}", _bool(v)))
        # matches_session_dgram / matches_session / set_client_and_server_ports
        me = NS(server_ip=rng.choice(ips), server_port=rng.choice([443, 5000]), client_ip=rng.choice(ips), client_port=rng.choice([443, 5000]))
        pk = NS(ip_src=rng.choice(ips), ip_dst=rng.choice(ips), sport=rng.choice([443, 5000]), dport=rng.choice([443, 5000]),
                ipv6_packet=rng.random() < 0.5, ethernet_src=b"\x02\x01", ethernet_dst=b"\x02\x02")
        sess = f"{_b(me.server_ip)} {me.server_port} {_b(me.client_ip)} {me.client_port}"
        k, v = call(qs.QuicSession.matches_session_dgram, me, pk.ip_src, pk.ip_dst, pk.sport, pk.dport)
        out.append(("matches_session_dgram", f"{_b(pk.ip_src)} {_b(pk.ip_dst)} {pk.sport} {pk.dport} {sess}", _bool(v)))
        k, v = call(ses.Session.matches_session, me, pk)
        out.append(("matches_session", f"{_b(pk.ip_src)} {_b(pk.ip_dst)} {pk.sport} {pk.dport} {sess}", _bool(v)))
        ports = rng.choice([[443, 44330], [5000], []])
        me = NS()
        call(ses.Session.set_client_and_server_ports, me, pk, ports)
        out.append(("set_client_and_server_ports",
                    f"[{', '.join(str(p) for p in ports)}] {_bool(pk.ipv6_packet)} {_b(pk.ip_src)} {_b(pk.ip_dst)} {pk.sport} {pk.dport} "
                    f"{_b(pk.ethernet_src)} {_b(pk.ethernet_dst)}",
                    f"{{ ipv6 := {_bool(me.ipv6)}, server_ip := {_b(me.server_ip)}, server_port := {me.server_port}, "
                    f"server_mac_addr := {_b(me.server_mac_addr)}, client_ip := {_b(me.client_ip)}, client_port := {me.client_port}, "
                    f"client_mac_addr := {_b(me.client_mac_addr)} }}"))
        # Session.handle_packet (a `Seg` stands for the packet object: only its identity and `seq` matter here)
        seen_s, seen_c = [rng.randrange(4) for _ in range(rng.randint(0, 3))], [rng.randrange(4) for _ in range(rng.randint(0, 3))]
        pk2 = NS(seq=rng.randrange(4), ip_src=rng.choice(ips), sport=rng.choice([443, 5000]))
        me = NS(server_ip=rng.choice(ips), server_port=rng.choice([443, 5000]), seen_packets_server=list(seen_s),
                seen_packets_client=list(seen_c), packet_buffer=[])
        call(ses.Session.handle_packet, me, pk2)
        seg = f"(⟨0, {pk2.seq}, []⟩ : TLX.Reassembly.Seg)"
        out.append(("session_handle_packet", f"{seg} {pk2.seq} {_b(pk2.ip_src)} {pk2.sport} {_b(me.server_ip)} {me.server_port} {seen_s} {seen_c} []",
                    f"{{ seen_packets_server := {me.seen_packets_server}, seen_packets_client := {me.seen_packets_client}, "
                    f"packet_buffer := [{seg if me.packet_buffer else ''}] }}"))
        # parse_frames: every class constructor through the dispatch; payloads that start with a known type byte, then noise
        qf = importlib.import_module("tlexport.quic.quic_frame")
        known = [b for key in qf.frame_type for b in key]
        pay = b"".join(bytes([rng.choice(known + [0x40, 0x21])]) + bytes(rng.choice([0, 0, 1, 2, 3, 0x40, 0x80, 0xc0, rng.randrange(256)])
                                                                           for _ in range(rng.randint(0, 6)))
                       for _ in range(rng.randint(0, 3)))
        k, v = call(qf.parse_frames, pay, None)
        out.append(("parse_frames", _b(pay), (".ok [" + ", ".join(_frame(f) for f in v) + "]") if k == "ok" else f".error .{v}"))
        # quic_dissector.py: extract_quic_packet with a toy header-protection mask (the same function on both sides)
        def toy(chacha):
            def f(key, sample):
                if len(key) < 1 or len(sample) < 16:
                    raise ValueError("toy mask")
                return bytes((x ^ key[0] ^ (0x55 if chacha else 0)) for x in sample[:5])
            return f
        old_masks = (dis.make_hp_mask, dis.make_chacha_hp_mask)
        dis.make_hp_mask, dis.make_chacha_hp_mask = toy(False), toy(True)
        try:
            def vint(n):
                return bytes([n]) if n < 64 else (0x4000 | n).to_bytes(2, "big")
            guessed = rb(0, 3)
            kind = rng.choice(["initial", "handshake", "rtt0", "retry", "vneg", "short", "short", "noise", "zeros"])
            if kind == "short":
                dg = bytes([0x40 | rng.randrange(64)]) + guessed + rb(0, 40)
            elif kind == "noise":
                dg = rb(0, 30)
            elif kind == "zeros":
                dg = bytes(rng.randint(1, 5))
            else:
                t = {"initial": 0, "rtt0": 1, "handshake": 2, "retry": 3, "vneg": rng.randrange(4)}[kind]
                dc, sc = rb(0, 3), rb(0, 3)
                dg = bytes([0xc0 | t << 4 | rng.randrange(16)]) + (b"\0\0\0\0" if kind == "vneg" else rng.choice([b"\0\0\0\1", b"\x6b\x33\x43\xcf"]))
                dg += bytes([len(dc)]) + dc + bytes([len(sc) if rng.random() < 0.9 else 0x40]) + sc
                if kind == "initial":
                    tok = rb(0, 3)
                    dg += vint(len(tok)) + tok
                if kind in ("initial", "handshake", "rtt0"):
                    body = rb(0, 40)
                    dg += vint(max(0, len(body) + rng.choice([0, 0, 0, -3, 5]))) + body
                    dg += rng.choice([b"", b"", bytes(3), rb(1, 25)])                  # coalesced remainder
                else:
                    dg += rb(0, 24)
            if rng.random() < 0.15:
                dg = dg[:rng.randint(0, len(dg))]
            names = ["server_initial_hp", "client_initial_hp", "server_handshake_hp", "client_handshake_hp", "client_early_hp",
                     "server_application_hp", "client_application_hp"]
            kd = {nm: rb(1, 3) for nm in names if rng.random() < 0.93}
            csu = rng.choice([None, b"\x13\x01", b"\x13\x03"])
            isv = rng.random() < 0.5
            pk_in = NS(tls_data=dg, timestamp=rng.randrange(1000))
            k, v = call(dis.extract_quic_packet, pk_in, isv, guessed, kd, csu)
        finally:
            dis.make_hp_mask, dis.make_chacha_hp_mask = old_masks

        def lstr(t):
            return "[" + ", ".join(str(ord(c)) for c in t) + "]"
        kdl = "(fun k => " + "".join(f"if k = {lstr(nm)} then some {_b(val)} else " for nm, val in kd.items()) + "none)"

        def pobj(o):
            long = type(o).__name__ == "LongQuicPacket"
            def ob(name):
                x = getattr(o, name, None)
                return "none" if x is None else f"(some {_b(x)})"
            def on(name):
                x = getattr(o, name, None)
                return "none" if x is None else f"(some {x})"
            fb = o.first_byte
            ptn = {v_: k_ for k_, v_ in PTYPE.items()}
            pt = PTYPE["QuicPacketType." + o.packet_type.name][0]
            return ("{ header := " + (HT + ".long" if long else HT + ".short") + f", packet_type := {pt}, isserver := {_bool(o.isserver)}, ts := {o.ts}, "
                    f"first_byte := {'Sum.inl ' + str(fb) if isinstance(fb, int) else 'Sum.inr ' + _b(fb)}, dcid := {_b(o.dcid)}, version := {ob('version')}, "
                    f"dcid_len := {ob('dcid_len')}, scid_len := {ob('scid_len')}, scid := {ob('scid')}, token_len := {on('token_len')}, "
                    f"token_len_bytes := {ob('token_len_bytes')}, token := {ob('token')}, packet_len := {ob('packet_len')}, "
                    f"packet_len_bytes := {ob('packet_len_bytes')}, packet_num := {ob('packet_num')}, payload := {ob('payload')}, "
                    f"key_phase := {on('key_phase')}, retry_token := {ob('retry_token')}, retry_integ_tag := {ob('retry_integ_tag')} }}")
        toyl = ("(fun c k s => if k.length < 1 ∨ s.length < 16 then .error .value else "
                ".ok ((s.take 5).map fun x => x ^^^ (k.headD 0) ^^^ (if c then 0x55 else 0)))")
        csl = "none" if csu is None else f"(some {_b(csu)})"
        pkts, pin = v
        out.append(("extract_quic_packet", f"{toyl} {_bool(isv)} {_b(guessed)} {kdl} {csl} {_b(dg)} {pk_in.timestamp}",
                    ".ok [" + ", ".join(pobj(o) for o in pkts) + f"] {{ tls_data := {_b(pin.tls_data)} }}"))
        # cipher_suite_parser.py: keys of the table and ids that are not
        csp = importlib.import_module("tlexport.cipher_suite_parser")
        sid = rng.choice(list(csp.cipher_suites)) if rng.random() < 0.85 else rb(0, 3)
        k, v = call(csp.split_cipher_suite, sid)

        def cname(c):
            return "[" + ", ".join(str(ord(ch)) for ch in ("None" if c is None else c.__name__)) + "]"

        def sval(x):
            if isinstance(x, tuple):
                return f"TLX.CipherSuite.Val.tup {cname(x[0])} {x[1]}"
            if isinstance(x, int):
                return f"TLX.CipherSuite.Val.int {x}"
            return f"TLX.CipherSuite.Val.cls {cname(x)}"
        out.append(("split_cipher_suite", _b(sid), ".ok none" if v is None else
                    ".ok (some [" + ", ".join("([" + ", ".join(str(ord(ch)) for ch in kk) + "], " + sval(vv) + ")" for kk, vv in v.items()) + "])"))
        # checksums.py
        cks = importlib.import_module("tlexport.checksums")
        arr = rb(0, 9) if rng.random() < 0.7 else bytes([0xff]) * rng.randint(0, 9)
        k, v = call(cks.ones_complement_checksum, bytearray(arr))
        out.append(("ones_complement_checksum", _b(arr), f".ok {_b(v)}" if k == "ok" else f".error .{v}"))

        class L4Obj:
            def __init__(self, raw, csum):
                self.raw, self.sum = raw, csum

            def __len__(self):
                return self.length

            def __bytes__(self):
                return self.raw
        for l4, off in (("udp", 6), ("tcp", 16)):
            v6 = rng.random() < 0.4
            alen = 16 if v6 else 4
            seg = bytearray(rb(off + 2, off + 8))
            src, dst, proto = rb(alen, alen), rb(alen, alen), rng.choice([6, 17, 17, 300])
            right = int.from_bytes(cks.ones_complement_checksum(bytearray(
                src + dst + (len(seg).to_bytes(4, "big") + b"\0\0\0" + bytes([proto % 256]) if v6 else b"\0" + bytes([proto % 256]) + len(seg).to_bytes(2, "big"))
                + bytes(seg[:off]) + b"\0\0" + bytes(seg[off + 2:]))), "big")
            csum = rng.choice([right, right, 0, 0xffff, rng.randrange(65536)])
            seg[off:off + 2] = csum.to_bytes(2, "big")
            obj = L4Obj(bytes(seg), csum)
            obj.length = len(seg) if rng.random() < 0.9 else 70000
            pk3 = NS(ipv6_packet=v6, ip_src=src, ip_dst=dst, ip=NS(p=proto), **{l4: obj})
            k, v = call(getattr(cks, "calculate_checksum_" + l4), pk3)
            out.append(("calculate_checksum_" + l4, f"{_bool(v6)} {_b(src)} {_b(dst)} {proto} {obj.length} {_b(bytes(seg))} {csum}",
                        f".ok {_bool(v)}" if k == "ok" else f".error .{v}"))
        # handle_alert / handle_tls_client_hello
        ver = rng.choice([None] + list(vers))
        me = NS(tls_version=ver, can_decrypt=rng.random() < 0.5, client_hello_seen=rng.random() < 0.5)
        lvl = rng.choice([0, 1, 2, 1, 255])
        args = f"{lvl} {'none' if ver is None else '(some ' + vers[ver] + ')'} {_bool(me.can_decrypt)} {_bool(me.client_hello_seen)}"
        call(ses.Session.handle_alert, me, lvl)
        out.append(("handle_alert", args, f"{{ can_decrypt := {_bool(me.can_decrypt)}, client_hello_seen := {_bool(me.client_hello_seen)} }}"))
        me = NS()
        binary = rb(0, 50)
        call(ses.Session.handle_tls_client_hello, me, NS(binary=binary))
        hb = me.handshake_13_buffer
        out.append(("handle_tls_client_hello", _b(binary),
                    f"{{ can_decrypt := {_bool(me.can_decrypt)}, server_cipher_change := {_bool(me.server_cipher_change)}, "
                    f"client_cipher_change := {_bool(me.client_cipher_change)}, "
                    f"handshake_13_buffer := ({_b(hb.get(False, b''))}, {_b(hb.get(True, b''))}), "
                    f"client_random := some {_b(me.client_random)}, client_hello_seen := {_bool(me.client_hello_seen)} }}"))
        for _ in range(4):
            out.append(_sess_case(rng, ses, vers, call))
        from tlexport.tlsrecord import TlsRecord
        rawr = rb(0, 9)
        me = NS()
        k, v = call(TlsRecord.__init__, me, rawr, [], False)
        out.append(("TlsRecord_init", _b(rawr), (f".ok {{ binary_ := {_b(me.binary)}, record_type := {me.record_type}, record_version := {_b(me.record_version)}, "
                                                 f"record_length := {_b(me.record_length)}, raw := {_b(me.raw)} }}") if k == "ok" else f".error .{v}"))
        # extract_*_buf, the framing part: a sorted contiguous buffer with the next expected sequence number known, so that the
        # part of the function before the fragment changes nothing and `base` is that number
        for side in ("server", "client"):
            stream = b"".join(bytes([rng.choice([0x16, 0x17])]) + b"\x03\x03" + len(bd).to_bytes(2, "big") + bd
                              for bd in (rb(0, 6) for _ in range(rng.randint(0, 3))))
            if rng.random() < 0.4:
                stream = stream[:rng.randint(0, len(stream))] if stream else stream
            base = rng.choice([0, 5, 2 ** 32 - 3, 2 ** 32 - 1, 1000])
            cuts = sorted(rng.randrange(1, len(stream)) for _ in range(rng.randint(0, 2))) if len(stream) > 1 else []
            pieces = [stream[a:b] for a, b in zip([0] + cuts, cuts + [len(stream)])] or [b"\x16"]
            pieces = [pc for pc in pieces if pc] or [b"\x16"]
            pkts, off = [], 0
            for j, pc in enumerate(pieces):
                pkts.append(NS(ident=j + 1, seq=(base + off) % 2 ** 32, tls_data=pc))
                off += len(pc)
            me = NS(**{f"{side}_counter": 0, f"{side}_next_seq": base, f"{side}_packet_buffer": list(pkts), f"{side}_tls_records": []})
            k, v = call(getattr(ses.Session, f"extract_{side}_buf"), me)
            sg = lambda q: f"(⟨{q.ident}, {q.seq}, {_b(q.tls_data)}⟩ : TLX.Reassembly.Seg)"
            segs = lambda qs: "[" + ", ".join(sg(q) for q in qs) + "]"
            recs = "[" + ", ".join(f"{{ binary := {_b(t_.raw)}, metadata := {segs(t_.metadata)} }}" for t_ in getattr(me, f"{side}_tls_records")) + "]"
            nxt = getattr(me, f"{side}_next_seq")
            out.append((f"extract_{side}_frame", f"{base} {segs(pkts)} [] (some {base})",
                        f".ok () {{ packet_buffer := {segs(getattr(me, side + '_packet_buffer'))}, tls_records := {recs}, next_seq := (some {nxt}) }}"
                        if k == "ok" else f".raised .{v} {{ packet_buffer := [], tls_records := [], next_seq := none }}"))
        out.extend(_ks_cases(rng, call))
        out.extend(_dec_cases(rng, call))
        out.extend(_qtls_cases(rng, call))
        out.extend(_qs_cases(rng, call))
        out.extend(_main_cases(rng, call))
        out.extend(_kl_cases(rng, call))
        out.extend(_qs3_cases(rng, call))
        out.extend(_d2_cases(rng, call))
        out.extend(_opts_cases(rng, call))
        out.extend(_tk_cases(rng, call))
        out.extend(_dsb_cases(rng, call))
        for _ in range(2):
            out.extend(_bld_cases(rng, call))
        # output builders
        pm = rng.choice([{}, {443: 8443}, {443: 8443, 5000: 1}])
        sp, keep = rng.choice([443, 5000, 80]), rng.random() < 0.5
        pml = "(fun k => " + "".join(f"if k = {a} then some {b} else " for a, b in pm.items()) + "none)"
        me = NS()
        k, v = call(ob.OutputBuilder.__init__, me, [], "s", "c", sp, 4000, "ms", "mc", pm, False, keep)
        out.append(("output_builder_init", f"{sp} 4000 {pml} {_bool(keep)}",
                    f".ok () {{ server_port_ := {me.server_port}, client_port_ := {me.client_port}, default_port := {me.default_port}, "
                    f"server_seq := {me.server_seq}, client_seq := {me.client_seq} }}"))
        me = NS()
        k, v = call(qob.QUICOutputbuilder.__init__, me, [], "s", "c", sp, 4000, "ms", "mc", pm, False, keep)
        out.append(("quic_output_builder_init", f"{sp} 4000 {pml} {_bool(keep)}",
                    f".ok () {{ server_port_ := {me.server_port}, client_port_ := {me.client_port}, default_port := {me.default_port} }}"))
    return out


# sources outside the subset: the translator must refuse each (never guess)
OUTSIDE = [
    ("def f(x):\n    while x > 0:\n        x -= 1\n    return x\n", [("x", "Int")], "Int"),
    ("def f(x):\n    return x / 2\n", [("x", "Int")], "Int"),
    ("def f(x, y):\n    return x > 0 and y[0] == 1\n", [("x", "Int"), ("y", "Bytes")], "Bool"),
    ("def f(x):\n    for i in range(x):\n        y = 1\n    return y\n", [("x", "Int")], "Int"),
    ("def f(x):\n    return z\n", [("x", "Int")], "Int"),
    ("def f(x, d):\n    return struct.unpack_from(\"H\" + str(x) + \"s\", d)[0]\n", [("x", "Int"), ("d", "Bytes")], "Int"),
    ("def f(x, d):\n    return struct.unpack_from(x, d)[0]\n", [("x", "Str"), ("d", "Bytes")], "Int"),
    ("def f(x):\n    some = x + 1\n    return some\n", [("x", "Int")], "Int"),
    ("def f(x):\n    return x if x else 0\n", [("x", "Int")], "Int"),
    ("def f(x):\n    return g(x)\n", [("x", "Int")], "Int"),
    ("def f(x):\n    return x.y\n", [("x", "Int")], "Int"),
    ("def f(x):\n    return x[::2]\n", [("x", "Bytes")], "Bytes"),
    ("def f(x):\n    for i in x:\n        pass\n    return 0\n", [("x", "Int")], "Int"),
    ("def f(x):\n    k = 255\n    for t in x:\n        k = t\n    return 0\n", [("x", "List Bytes")], "Int"),
    ("def f(x):\n    with x:\n        return 0\n", [("x", "Int")], "Int"),
    ("def f(x):\n    while x > 0:\n        x -= 1\n    else:\n        x = 5\n    return x\n", [("x", "Int")], "Int"),
    ("def f(x):\n    try:\n        return x[0]\n    except KeyError:\n        return 1\n    finally:\n        pass\n", [("x", "Bytes")], "Int"),
    ("def f(d, k):\n    return d[k] in \"ab\"\n", [("d", "Table Str; Nat"), ("k", "Str")], "Bool"),
    ("def f(x):\n    y = bytearray(x)\n    z = y\n    z.extend(x)\n    return y\n", [("x", "Bytes")], "Bytes"),
    ("def f(x):\n    return x == 'a'\n", [("x", "Int")], "Bool"),
    ("def f(x):\n    if x > 0:\n        return 1\n", [("x", "Int")], "Int"),
    ("def f(x):\n    try:\n        return 1\n    except BaseException:\n        return 2\n", [("x", "Int")], "Int"),
    ("def f(x):\n    return int.from_bytes(x, 'little')\n", [("x", "Bytes")], "Nat"),
    ("def f(x):\n    return [i for i in range(x)]\n", [("x", "Int")], "Int"),
    ("def f(x):\n    self.y = x\n", [("x", "Int")], "None"),
]


def selftest(n=60, seed=0):
    """The translator and `PyRt.lean` against CPython: every whole-function translation is evaluated by Lean on sampled
    inputs and compared with what the Python function itself does (result, exception, attribute writes).
    → {"cases": k, "mismatches": [...]}; needs `Translated.lean` generated from the same tree and built."""
    import random
    import subprocess
    import fw
    cases = _cases(random.Random(seed), n)
    path = os.path.join(fw.LEAN, ".audit", "tr_selftest.lean")
    os.makedirs(os.path.dirname(path), exist_ok=True)
    with open(path, "w") as fh:
        fh.write("".join(f"import TLX.Gen.Translated.{g}\n" for g in GROUPS)
                 + "open TLX TLX.PyRt TLX.Gen.Py\nset_option maxRecDepth 100000\n")
        for i, (name, args, exp) in enumerate(cases):
            fh.write(f"#eval IO.println s!\"TR {i} {{decide ({name} {args} = {exp})}}\"\n")
    rc, outp = fw.sh(["lake", "env", "lean", path], cwd=fw.LEAN)
    seen = {}
    for line in outp.splitlines():
        if line.startswith("TR "):
            _, i, v = line.split()
            seen[int(i)] = v
    bad = [{"case": i, "function": cases[i][0], "args": cases[i][1], "python": cases[i][2], "lean_agrees": seen.get(i)}
           for i in range(len(cases)) if seen.get(i) != "true"]
    for src, params, ret in OUTSIDE:
        try:
            text = py2lean.translate(src, dict(name="f", params=params, ret=ret))
            bad.append({"function": "translator", "source": src, "python": "outside the subset", "lean_agrees": "translated: " + text[:200]})
        except Untranslatable:
            pass
    return {"cases": len(cases), "functions": len({c[0] for c in cases}), "refused": len(OUTSIDE), "mismatches": bad,
            "log_tail": outp.splitlines()[-5:] if bad else []}
