"""C02 — QUIC v1 STREAM data is exported exactly, datagram by datagram.

proof:          lean/TLX/Props/C02.lean (datagram grouping, CRYPTO reassembly in any order, key-epoch tracking;
                packet-number decode and frame parsing are C16/C17)
correspondence: model components vs the real QUICOutputbuilder / QuicTlsSession / check_key_epoch (harness/c02_model.py)
oracle:         independent RFC 9000/9001 sender (harness/gen_quic.py) → real tool → strict reader; the non-empty UDP
                payloads per direction must be exactly the per-datagram STREAM data, with the datagram's timestamp
"""
import importlib

import fw
import gen_quic
import tool
import wire

THEOREMS = []


def exported(out, conn):
    pk = wire.read_output(out)
    got = []
    for us, p in pk:
        if p["proto"] != 17 or not p["payload"]:
            continue
        if (p["src"], p["sport"]) == (conn.cip, conn.cport) and p["dst"] == conn.sip:
            got.append((us, False, bytes(p["payload"])))
        elif (p["dst"], p["dport"]) == (conn.cip, conn.cport) and p["src"] == conn.sip:
            got.append((us, True, bytes(p["payload"])))
    return got


def one(job):
    import random
    import logging
    logging.disable(logging.CRITICAL)
    seed, feats = job
    rng = random.Random(seed)
    c, f = gen_quic.random_connection(rng, 0, features=feats)
    cap = wire.pcapng(c.items)
    kl = "\n".join(c.keylog_lines()) + "\n"
    r = tool.run(cap, kl)
    blob = None
    prob = None
    if r.crashed:
        prob = r.signature()
    else:
        try:
            got = exported(r.out, c)
            if got != c.expect:
                i = next((i for i, (a, b) in enumerate(zip(got, c.expect)) if a != b), min(len(got), len(c.expect)))
                prob = f"datagram-mismatch: got {len(got)} want {len(c.expect)} datagrams, first difference at #{i}"
                late = [e for k, e in enumerate(c.expect) if k not in c.early_expect]
                if f["zero_rtt"] and not f["early_suite_first"] and got == late:
                    # exactly the 0-RTT datagrams sent before the ServerHello are missing, everything else is exact
                    prob = "early-data-lost: the 0-RTT datagrams of a resumed suite that is not the first offered one are missing"
        except wire.FrameError as e:
            prob = f"bad-frame:{e}"
    if prob:
        blob = {"capture_hex": cap.hex(), "keylog": kl, "argv": [],
                "endpoint": {"cip": c.cip.hex(), "cport": c.cport, "sip": c.sip.hex(), "sport": c.sport},
                "expect": [(t, d, b.hex()) for t, d, b in c.expect]}
    nstream = len(c.expect)
    both = len({d for _, d, _ in c.expect}) == 2
    return prob, f, blob, nstream, both


def features_for(ctx, i):
    """exhaustive sub-spaces first: suites × offer orders, CID length pairs, then free random"""
    rng = ctx.rng
    suites = list(gen_quic.SUITES)
    if i < 12:
        return {"suite": suites[i % 4], "offer_order": ["suite-first", "shuffled", "default"][i // 4]}
    pairs = [(0, 8), (8, 0), (0, 0), (20, 20), (1, 3), (5, 8), (8, 8), (3, 1)]
    if i < 12 + len(pairs):
        a, b = pairs[i - 12]
        return {"scid_c_len": a, "scid_s_len": b}
    if i < 12 + len(pairs) + 6:
        j = i - 12 - len(pairs)
        return [{"retry": True}, {"zero_rtt": True}, {"ch_split": "desc"}, {"ch_split": "shuffle"}, {"key_updates": 3},
                {"new_cid": True}][j]
    if i in (12 + len(pairs) + 7, 12 + len(pairs) + 8):
        return [{"loopback": True, "scid_c_len": 8, "scid_s_len": 8, "same_cid": False},
                {"pn_half": True, "pn_big": False, "reorder": False}][i - (12 + len(pairs) + 7)]
    k0 = 12 + len(pairs) + 9
    if i < k0 + 4:
        # 0-RTT of a resumed session whose suite stands anywhere in the offer (RFC 8446 4.2.11), followed by 1-RTT traffic
        return {"zero_rtt": True, "early_suite_anywhere": True, "suite": suites[(i - k0) % 4],
                "offer_order": ["shuffled", "default"][(i - k0) % 2], "retry": False}
    if i == 12 + len(pairs) + 6:
        return {"long": True, "pn_big": False}        # several hundred 1-byte packet numbers in a row
    return {}


def explore(ctx, scale=1):
    n = ctx.n(90, 4000) * scale
    jobs = [(ctx.rng.getrandbits(48), features_for(ctx, i)) for i in range(n)]
    results = tool.pmap(one, jobs) if len(jobs) > 150 else tool.pmap(one, jobs, procs=8)
    o = ctx.oracle.setdefault("quic-export", {"runs": 0, "violations": 0})
    for (seed, feats), (prob, f, blob, nstream, both) in zip(jobs, results):
        o["runs"] += 1
        ctx.count(seed, nontrivial=(nstream >= 2 and both and not prob))
        ctx.hist("suite", f"{f['suite']:04X}")
        ctx.hist("offer_order", f["offer_order"])
        ctx.hist("cid_lens", f"{min(f['scid_c_len'], 1)}/{min(f['scid_s_len'], 1)} (0=empty)")
        for k in ("retry", "zero_rtt", "ch_split", "key_updates", "new_cid", "pn_big", "v6", "long"):
            ctx.hist(k, f[k])
        if prob:
            o["violations"] += 1
            tags = sorted(k for k, v in (("zero-cid", f["scid_c_len"] == 0 or f["scid_s_len"] == 0),
                                         ("early-suite-not-first", f["zero_rtt"] and not f["early_suite_first"]),
                                         ("chacha", f["suite"] == 0x1303), ("ch-split", bool(f["ch_split"])),
                                         ("retry", f["retry"]), ("0rtt", f["zero_rtt"]), ("key-update", f["key_updates"] > 0),
                                         ("new-cid", f["new_cid"])) if v)
            kind = prob.split(":")[0] if not prob.startswith("crash") else prob.split(" ")[0]
            sig = f"C02:{{{','.join(tags)}}}:{kind}"
            if kind == "early-data-lost":
                # the one recorded finding: ONLY the 0-RTT datagrams are missing and ONLY when the resumed suite is not the
                # first offered one; anything else about such a connection is reported under its own signature
                sig = "C02:{0rtt,early-suite-not-first}:early-data-lost"
            ctx.fail(sig, "exported UDP payloads differ from the per-datagram STREAM data sent",
                     {"seed": seed, "features": f, **blob}, expected="one non-empty datagram per input datagram with "
                     "stream data: (timestamp, direction, concatenated STREAM data)", actual=prob,
                     how="bin/check C02 --replay <this file>")
        else:
            ctx.sample({"features": f, "datagrams_with_stream_data": nstream, "result": "exported exactly"}, cap=3)


def run(ctx):
    ctx.rule = ("one QUIC v1 connection per capture from the independent sender: suite × ClientHello offer order × CID "
                "lengths 0..20 × Retry × 0-RTT × ClientHello split over CRYPTO frames/packets (ascending, descending, "
                "shuffled) × coalesced Initial/Handshake/1-RTT packets × frame mix (ACK/ECN, PADDING, PING, MAX_*, DATAGRAM, "
                "NEW_TOKEN, RETIRE_CONNECTION_ID, HANDSHAKE_DONE) × 0–3 STREAM frames per packet on several streams × "
                "packet-number lengths 1–4 with gaps and large values × NEW_CONNECTION_ID switch × 0–3 conformant key "
                "updates by either side × IPv4/IPv6. The first cases enumerate suite × offer order and CID-length pairs. "
                "non-trivial iff ≥ 2 datagrams with stream data, both directions, exported exactly.")
    ctx.assumptions = ["ground truth comes from harness/gen_quic.py (independent RFC sender); datagrams are told apart by "
                       "their capture timestamps as the property says"]
    import c02_model, c02_file_thms, c02_capstone3_thms, c02_capstone4_thms, c02_rfc_thms, c02_zr_thms, c02_all_thms, file_corr
    import translate                 # decision-logic functions re-translated from the source and proved equal to the model
    _tm, _tt = translate.wire(ctx, "C02")
    ctx.prove(c02_model.modules() + ["TLX.Props.C16", "TLX.Props.C17"] + c02_file_thms.MODULES + c02_capstone3_thms.MODULES + c02_capstone4_thms.MODULES + c02_rfc_thms.MODULES + c02_zr_thms.MODULES + c02_all_thms.MODULES + _tm)
    ctx.require_theorems(_tt)
    ctx.require_theorems(c02_model.theorems() + c02_file_thms.THEOREMS + c02_capstone3_thms.THEOREMS + c02_capstone4_thms.THEOREMS + c02_rfc_thms.THEOREMS + c02_zr_thms.THEOREMS + c02_all_thms.THEOREMS)   # C02File: C02 as ONE theorem about exportFile
    c02_model.run_model(ctx)          # ties every QUIC component model to the real code
    file_corr.correspond(ctx, ctx.n(20, 400))     # ties exportFile (capture FILE + key-log file → output FILE) byte for byte
    explore(ctx)
    return ctx.finish(search=lambda c: explore(c, scale=2))


def replay(ctx, obj):
    c = obj["case"]
    r = tool.run(bytes.fromhex(c["capture_hex"]), c["keylog"], c.get("argv", []))
    print("REPLAY tool:", r.signature())
    bad = r.crashed
    if not bad:
        class EP:
            pass
        ep = EP()
        e = c["endpoint"]
        ep.cip, ep.cport, ep.sip, ep.sport = bytes.fromhex(e["cip"]), e["cport"], bytes.fromhex(e["sip"]), e["sport"]
        try:
            got = exported(r.out, ep)
        except wire.FrameError as ex:
            print("REPLAY-FAIL", ex)
            got = None
        want = [(t, d, bytes.fromhex(b)) for t, d, b in c["expect"]]
        if got != want:
            print("REPLAY-FAIL got", None if got is None else len(got), "datagrams, want", len(want))
            bad = True
    print("REPLAY", "fails" if bad else "passes")
    return 1 if bad else 0
