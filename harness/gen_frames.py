"""Independent QUIC frame *encoder* (RFC 9000 §16, §19; RFC 9221 §4) and frame-sequence generators for C17.

Shares no code with tlexport and none with the Lean model. A frame is a dict:
  {"k": <kind>, <field>: (value, prefix) for varints | bytes | bool …}
where `prefix` ∈ 0..3 selects the varint width 2**prefix (non-minimal encodings allowed, RFC 9000 §16:
"values do not need to be encoded on the minimum number of bytes").

  encode(frame)       -> wire bytes
  expect(frame)       -> canonical rendering "<Class>:<length>:<attr>=<value>,…" a correct parser must produce
                         (attribute names of tlexport's frame classes; built from the *sender's* knowledge only)
  expect_sequence(fs) -> rendering of the whole sequence with consecutive PADDING frames merged into one run
"""
import itertools

VARINT_MAX = [(1 << 6) - 1, (1 << 14) - 1, (1 << 30) - 1, (1 << 62) - 1]


def enc_varint(v, p):
    """RFC 9000 §16: 2-bit length prefix `p`, value in the remaining 8*2**p - 2 bits, network byte order."""
    w = 1 << p
    if not (0 <= v <= VARINT_MAX[p]):
        raise ValueError(f"{v} does not fit a {w}-byte varint")
    return ((p << (8 * w - 2)) | v).to_bytes(w, "big")


def hx(b):
    return b.hex() if b else "-"


def vi(x):
    return enc_varint(x[0], x[1])


# kind -> (class name, type byte(s), ordered varint fields before any data)
KINDS = ["padding", "ping", "ack", "ack_ecn", "reset_stream", "stop_sending", "crypto", "new_token", "stream",
         "max_data", "max_stream_data", "max_streams_bidi", "max_streams_uni", "data_blocked",
         "stream_data_blocked", "streams_blocked_bidi", "streams_blocked_uni", "new_connection_id",
         "retire_connection_id", "path_challenge", "path_response", "connection_close", "connection_close_app",
         "handshake_done", "datagram", "datagram_len"]

# simple frames: type byte, class, [(attribute, field key)] all varints
SIMPLE = {
    "reset_stream": (0x04, "ResetStreamFrame", ["stream_id", "application_protocol_error_code", "final_size"], False),
    "stop_sending": (0x05, "StopSendingFrame", ["stream_id", "application_protocol_error_code"], False),
    "max_data": (0x10, "MaxDataFrame", ["maximum_data"], False),
    "max_stream_data": (0x11, "MaxStreamDataFrame", ["stream_id", "maximum_stream_data"], False),
    "max_streams_bidi": (0x12, "MaxStreamsFrame", ["maximum_streams"], True),
    "max_streams_uni": (0x13, "MaxStreamsFrame", ["maximum_streams"], True),
    "data_blocked": (0x14, "DataBlockedFrame", ["maximum_data"], False),
    "stream_data_blocked": (0x15, "StreamDataBlockedFrame", ["stream_id", "maximum_stream_data"], False),
    "streams_blocked_bidi": (0x16, "StreamsBlockedFrame", ["maximum_streams"], True),
    "streams_blocked_uni": (0x17, "StreamsBlockedFrame", ["maximum_streams"], True),
    "retire_connection_id": (0x19, "RetireConnectionIdFrame", ["sequence_number"], False),
}


def stream_type(f):
    return 0x08 | (0x04 if f["off"] else 0) | (0x02 if f["len"] else 0) | (0x01 if f["fin"] else 0)


def encode(f):
    k = f["k"]
    if k == "padding":
        return b"\x00"
    if k == "ping":
        return b"\x01"
    if k == "handshake_done":
        return b"\x1e"
    if k in SIMPLE:
        t, _, names, _ = SIMPLE[k]
        return bytes([t]) + b"".join(vi(f[n]) for n in names)
    if k in ("ack", "ack_ecn"):
        out = bytes([0x03 if k == "ack_ecn" else 0x02]) + vi(f["largest"]) + vi(f["delay"])
        out += enc_varint(len(f["ranges"]), f["count_p"]) + vi(f["first"])
        for gap, ln in f["ranges"]:
            out += vi(gap) + vi(ln)
        if k == "ack_ecn":
            out += vi(f["ect0"]) + vi(f["ect1"]) + vi(f["ce"])
        return out
    if k == "crypto":
        return b"\x06" + vi(f["offset"]) + enc_varint(len(f["data"]), f["len_p"]) + f["data"]
    if k == "new_token":
        return b"\x07" + enc_varint(len(f["data"]), f["len_p"]) + f["data"]
    if k == "stream":
        out = bytes([stream_type(f)]) + vi(f["sid"])
        if f["off"]:
            out += vi(f["offset"])
        if f["len"]:
            out += enc_varint(len(f["data"]), f["len_p"])
        return out + f["data"]
    if k == "new_connection_id":
        assert len(f["token"]) == 16 and len(f["cid"]) < 256
        return b"\x18" + vi(f["seq"]) + vi(f["retire"]) + bytes([len(f["cid"])]) + f["cid"] + f["token"]
    if k in ("path_challenge", "path_response"):
        assert len(f["data"]) == 8
        return bytes([0x1a if k == "path_challenge" else 0x1b]) + f["data"]
    if k == "connection_close":
        return b"\x1c" + vi(f["error"]) + vi(f["ftype"]) + enc_varint(len(f["reason"]), f["len_p"]) + f["reason"]
    if k == "connection_close_app":
        return b"\x1d" + vi(f["error"]) + enc_varint(len(f["reason"]), f["len_p"]) + f["reason"]
    if k == "datagram":
        return b"\x30" + f["data"]
    if k == "datagram_len":
        return b"\x31" + enc_varint(len(f["data"]), f["len_p"]) + f["data"]
    raise ValueError(k)


def greedy(f):
    """Frames without an explicit length extend to the end of the packet: only allowed in last position."""
    return (f["k"] == "stream" and not f["len"]) or f["k"] == "datagram"


def fields(f):
    """(class name, [(attribute, rendered value)]) a correct parser must report for frame f."""
    k = f["k"]
    b = lambda x: "1" if x else "0"
    if k == "padding":
        return "PaddingFrame", []
    if k == "ping":
        return "PingFrame", []
    if k == "handshake_done":
        return "HandshakeDoneFrame", []
    if k in SIMPLE:
        t, cls, names, typed = SIMPLE[k]
        return cls, ([("frame_type", str(t))] if typed else []) + [(n, str(f[n][0])) for n in names]
    if k in ("ack", "ack_ecn"):
        out = [("frame_type", "3" if k == "ack_ecn" else "2"), ("largest_acknowledged", str(f["largest"][0])),
               ("ack_delay", str(f["delay"][0])), ("range_count", str(len(f["ranges"]))),
               ("first_ack_range", str(f["first"][0])),
               ("ack_ranges", "/".join(f"{g[0]}-{l[0]}" for g, l in f["ranges"]) or "-")]
        if k == "ack_ecn":
            out += [("ect_0_count", str(f["ect0"][0])), ("ect_1_count", str(f["ect1"][0])),
                    ("ect_ce_count", str(f["ce"][0]))]
        return "AckFrame", out
    if k == "crypto":
        return "CryptoFrame", [("offset", str(f["offset"][0])), ("crypto_length", str(len(f["data"]))),
                               ("crypto", hx(f["data"]))]
    if k == "new_token":
        return "NewTokenFrame", [("token_length", str(len(f["data"]))), ("token", hx(f["data"]))]
    if k == "stream":
        sid = f["sid"][0]
        return "StreamFrame", [("frame_type", str(stream_type(f))), ("fin", b(f["fin"])), ("len", b(f["len"])),
                               ("off", b(f["off"])), ("stream_id", str(sid)),
                               ("server_initiated", b(sid & 1)), ("stream_unidirectional", b(sid & 2)),
                               ("offset", str(f["offset"][0] if f["off"] else 0)),
                               ("data_length", str(len(f["data"]))), ("stream_data", hx(f["data"]))]
    if k == "new_connection_id":
        return "NewConnectionIdFrame", [("sequence_number", str(f["seq"][0])), ("retire_prior_to", str(f["retire"][0])),
                                        ("connection_id_length", str(len(f["cid"]))), ("connection_id", hx(f["cid"])),
                                        ("stateless_reset_token", hx(f["token"]))]
    if k == "path_challenge":
        return "PathChallengeFrame", [("data", hx(f["data"]))]
    if k == "path_response":
        return "PathResponseFrame", [("data", hx(f["data"]))]
    if k == "connection_close":
        return "ConnectionCloseFrame", [("frame_type", "28"), ("error_code", str(f["error"][0])),
                                        ("close_frame_type", str(f["ftype"][0])),
                                        ("reason_phrase_length", str(len(f["reason"]))),
                                        ("reason_phrase", hx(f["reason"]))]
    if k == "connection_close_app":
        return "ConnectionCloseFrame", [("frame_type", "29"), ("error_code", str(f["error"][0])),
                                        ("reason_phrase_length", str(len(f["reason"]))),
                                        ("reason_phrase", hx(f["reason"]))]
    if k == "datagram":
        return "DatagramFrame", [("frame_type", "48"), ("len_bit", "0"), ("payload", hx(f["data"]))]
    if k == "datagram_len":
        return "DatagramFrame", [("frame_type", "49"), ("len_bit", "1"), ("payload", hx(f["data"]))]
    raise ValueError(k)


def render(cls, length, fl):
    return f"{cls}:{length}:" + ",".join(f"{a}={v}" for a, v in fl)


def expect(f, length=None):
    cls, fl = fields(f)
    return render(cls, len(encode(f)) if length is None else length, fl)


def expect_sequence(fs):
    """Canonical rendering of the frames a correct parser returns for encode(fs[0]) + encode(fs[1]) + …:
    consecutive PADDING frames are reported as one PaddingFrame covering the run."""
    out = []
    i = 0
    while i < len(fs):
        if fs[i]["k"] == "padding":
            j = i
            while j < len(fs) and fs[j]["k"] == "padding":
                j += 1
            out.append(render("PaddingFrame", j - i, []))
            i = j
        else:
            out.append(expect(fs[i]))
            i += 1
    return ("ok %d | " % len(out) + " ; ".join(out)) if out else "ok 0"


def encode_sequence(fs):
    return b"".join(encode(f) for f in fs)


def well_formed(fs):
    return all(not greedy(f) for f in fs[:-1])


# ---------------------------------------------------------------------------------------------- generators

def rand_value(rng, p):
    """A value that fits prefix p; often small, so that wide encodings are non-minimal."""
    r = rng.random()
    if r < 0.35:
        return rng.randrange(0, 64)
    if r < 0.5:
        return rng.choice([0, 1, 63, 64, 16383, 16384, (1 << 30) - 1, 1 << 30, (1 << 62) - 1, VARINT_MAX[p]]) \
            & VARINT_MAX[p] if rng.random() < 0.5 else VARINT_MAX[p]
    q = rng.randrange(0, p + 1)
    return rng.randrange(0, VARINT_MAX[q] + 1)


def rand_vi(rng, p=None):
    if p is None:
        p = rng.randrange(4)
    return (rand_value(rng, p), p)


def rand_bytes(rng, n):
    return bytes(rng.randrange(256) for _ in range(n))


def rand_len(rng, p, cap=200):
    """A data length that fits a varint of prefix p (1-byte varints hold ≤ 63)."""
    r = rng.random()
    hi = min(cap, VARINT_MAX[p])
    if r < 0.15:
        return 0
    if r < 0.3:
        return rng.choice([1, hi, min(hi, 63), min(hi, 64)])
    return rng.randrange(0, hi + 1)


def varint_fields(kind, nranges=0):
    """Names of the varint slots (value fields and length/count prefixes) of a frame kind."""
    if kind in SIMPLE:
        return list(SIMPLE[kind][2])
    return {
        "padding": [], "ping": [], "handshake_done": [], "path_challenge": [], "path_response": [], "datagram": [],
        "ack": ["largest", "delay", "count_p", "first"] + [f"r{i}{x}" for i in range(nranges) for x in "gl"],
        "ack_ecn": ["largest", "delay", "count_p", "first"] + [f"r{i}{x}" for i in range(nranges) for x in "gl"]
                   + ["ect0", "ect1", "ce"],
        "crypto": ["offset", "len_p"], "new_token": ["len_p"],
        "new_connection_id": ["seq", "retire"],
        "connection_close": ["error", "ftype", "len_p"], "connection_close_app": ["error", "len_p"],
        "datagram_len": ["len_p"],
    }[kind]


def stream_varint_fields(off, ln):
    return ["sid"] + (["offset"] if off else []) + (["len_p"] if ln else [])


def make_frame(rng, kind, widths=None, flags=None, nranges=None):
    """A random well-formed frame of `kind`; `widths` maps varint slot -> prefix (random where missing)."""
    widths = dict(widths or {})
    w = lambda name: widths[name] if name in widths else rng.randrange(4)
    if kind in ("padding", "ping", "handshake_done"):
        return {"k": kind}
    if kind in SIMPLE:
        return {"k": kind, **{n: rand_vi(rng, w(n)) for n in SIMPLE[kind][2]}}
    if kind in ("ack", "ack_ecn"):
        if nranges is None:
            nranges = rng.choice([0, 0, 1, 1, 2, 3, rng.randrange(0, 12)])
        f = {"k": kind, "largest": rand_vi(rng, w("largest")), "delay": rand_vi(rng, w("delay")),
             "count_p": w("count_p"), "first": rand_vi(rng, w("first")),
             "ranges": [(rand_vi(rng, w(f"r{i}g")), rand_vi(rng, w(f"r{i}l"))) for i in range(nranges)]}
        if kind == "ack_ecn":
            f.update(ect0=rand_vi(rng, w("ect0")), ect1=rand_vi(rng, w("ect1")), ce=rand_vi(rng, w("ce")))
        return f
    if kind == "crypto":
        p = w("len_p")
        return {"k": kind, "offset": rand_vi(rng, w("offset")), "len_p": p, "data": rand_bytes(rng, rand_len(rng, p))}
    if kind == "new_token":
        p = w("len_p")
        return {"k": kind, "len_p": p, "data": rand_bytes(rng, rand_len(rng, p))}
    if kind == "stream":
        fin, ln, off = flags if flags is not None else (rng.random() < 0.5, rng.random() < 0.5, rng.random() < 0.5)
        p = w("len_p")
        return {"k": kind, "fin": fin, "len": ln, "off": off, "sid": rand_vi(rng, w("sid")),
                "offset": rand_vi(rng, w("offset")), "len_p": p,
                "data": rand_bytes(rng, rand_len(rng, p if ln else 3))}
    if kind == "new_connection_id":
        n = rng.choice([0, 1, 4, 8, 16, 20, 20, rng.randrange(0, 21), rng.randrange(0, 256)])
        return {"k": kind, "seq": rand_vi(rng, w("seq")), "retire": rand_vi(rng, w("retire")),
                "cid": rand_bytes(rng, n), "token": rand_bytes(rng, 16)}
    if kind in ("path_challenge", "path_response"):
        return {"k": kind, "data": rand_bytes(rng, 8)}
    if kind == "connection_close":
        p = w("len_p")
        return {"k": kind, "error": rand_vi(rng, w("error")), "ftype": rand_vi(rng, w("ftype")), "len_p": p,
                "reason": rand_bytes(rng, rand_len(rng, p, 60))}
    if kind == "connection_close_app":
        p = w("len_p")
        return {"k": kind, "error": rand_vi(rng, w("error")), "len_p": p, "reason": rand_bytes(rng, rand_len(rng, p, 60))}
    if kind == "datagram":
        return {"k": kind, "data": rand_bytes(rng, rand_len(rng, 3))}
    if kind == "datagram_len":
        p = w("len_p")
        return {"k": kind, "len_p": p, "data": rand_bytes(rng, rand_len(rng, p))}
    raise ValueError(kind)


def all_width_combinations(rng, full=False):
    """Every frame kind × every combination of varint widths, once each. STREAM: × all 8 flag combinations.
    ACK (4 + 2·ranges [+ 3 ECN] varints): all 256 combinations of the four leading varints without ranges;
    all 64 combinations (count, gap, length) with one range; all 256 combinations of the widths of two
    ranges; ACK_ECN additionally all 64 combinations of the three ECN counts (`full`: all 16 384
    combinations of its seven fixed varints)."""
    for kind in KINDS:
        if kind == "stream":
            for fin, ln, off in itertools.product((False, True), repeat=3):
                names = stream_varint_fields(off, ln)
                for ws in itertools.product(range(4), repeat=len(names)):
                    yield make_frame(rng, kind, dict(zip(names, ws)), flags=(fin, ln, off)), (kind, fin, ln, off) + ws
        elif kind in ("ack", "ack_ecn"):
            plans = [(0, ["largest", "delay", "count_p", "first"]), (1, ["count_p", "r0g", "r0l"]),
                     (2, ["r0g", "r0l", "r1g", "r1l"])]
            if kind == "ack_ecn":
                plans.append((0, ["largest", "delay", "count_p", "first", "ect0", "ect1", "ce"] if full
                              else ["ect0", "ect1", "ce"]))
                plans.append((1, ["r0g", "r0l", "ect0"]))
            for nr, names in plans:
                for ws in itertools.product(range(4), repeat=len(names)):
                    yield make_frame(rng, kind, dict(zip(names, ws)), nranges=nr), (kind, nr, tuple(names)) + ws
        else:
            names = varint_fields(kind)
            for ws in itertools.product(range(4), repeat=len(names)):
                yield make_frame(rng, kind, dict(zip(names, ws))), (kind,) + ws


def random_sequence(rng, maxlen=8):
    """Frames in any order; a frame without explicit length may only come last."""
    n = rng.choice([1, 2, 2, 3, 3, 4, 5, rng.randrange(1, maxlen + 1)])
    fs = []
    for i in range(n):
        kind = rng.choice(KINDS)
        if rng.random() < 0.15:
            kind = "padding"
        f = make_frame(rng, kind)
        if greedy(f) and i != n - 1:
            # give it an explicit length instead
            f = make_frame(rng, "stream", flags=(f.get("fin", False), True, f.get("off", False))) \
                if kind == "stream" else make_frame(rng, "datagram_len")
        fs.append(f)
        if kind == "padding":
            fs += [{"k": "padding"}] * rng.choice([0, 0, 1, 2, 5, rng.randrange(0, 40)])
    return fs
