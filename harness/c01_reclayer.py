"""C01 — record-layer part: `tlexport.decryptor.Decryptor` against the Lean model `TLX.RecordLayer` and against an
independent toy-primitive RFC sender.

proof:          lean/TLX/Props/C01.lean (unprotect_protect_<class>, stream_exact_<class>, updateKeys lemmas)
correspondence: real `Decryptor` objects (constructed and called exactly as Session does: `Decryptor(...)`,
                `decrypt(TlsRecord, isserver)`, `update_keys(isserver)`) with the names AES, TripleDES, Camellia, IDEA,
                AESCCM, AESGCM, ChaCha20Poly1305, ChaCha20, ARC4, Cipher, CBC of the module namespace
                `tlexport.decryptor` replaced by the toy classes of harness/toy_crypto.py, versus `tlxdriver reclayer`
                (the Lean model over the Lean toy instance). Result (plaintext | None | exception kind) and the
                observable state (both sequence numbers, both last blocks, both RC4 keystream positions, current
                keys/IVs) are compared after EVERY operation.
                points: toy.twin (Python toy = Lean toy), toy.conformance (toy validation errors = cryptography's),
                        reclayer.valid, reclayer.malformed
oracle:         the property at record level, independent of the model: for every valid record of a history produced
                by `ToySender` (RFC protect direction, written here from RFC 6101/2246/4346/5246/7366/7905/8446 over
                the toy *encrypt* functions), the real `Decryptor.decrypt` returns exactly the sender's plaintext
                (TLS 1.3: the inner plaintext `content ‖ type ‖ zeros`; stripping is Session's job).
                A second oracle runs the same check with the REAL primitives (gen_tls.Script.protect → unpatched
                Decryptor) for every version × table suite class.

Entry points for harness/c01.py:
    ctx.prove([... ] + PROVE_MODULES); ctx.require_theorems(THEOREMS)     proof stage (this module does not call it)
    run_reclayer(ctx)                 correspondence + record-level oracles; adds to ctx.rule / ctx.assumptions
    search_reclayer(ctx)              larger run, for ctx.finish(search=…)
    replay_reclayer(ctx, obj)         replay files whose case has "reclayer" or "reclayer_real" set
Standalone: harness/c01rl_main.py.
"""
import os
import struct

import fw
import toy_crypto as T

PROVE_MODULES = ["TLX.Props.C01", "TLX.Crypto.Toy"]
THEOREMS = ["TLX.Props.C01." + t for t in (
    "unprotect_protect_stream", "unprotect_protect_cbcImplicit", "unprotect_protect_cbcExplicit",
    "unprotect_protect_aead12", "unprotect_protect_chacha12", "unprotect_protect_aead13", "unprotect_protect_chacha13",
    "unprotect_protect", "updateKeys_switch", "step_exact", "stream_exact", "stream_exact_after_switch",
    "init_rel_pre13", "init_rel_13", "init_rel_13_fallback", "failed_record_keeps_state",
    "tls13_returns_inner_plaintext", "stream_mac0_returns_empty", "chacha_before_tls12_raises", "classOf_spec")] + [
    "TLX.Cipher.Toy.open_seal", "TLX.Cipher.Toy.seal_len", "TLX.Cipher.Toy.dec_enc", "TLX.Cipher.Toy.enc_len",
    "TLX.Cipher.Toy.rc4_invol", "TLX.Cipher.Toy.rc4_len"]

VERSIONS = ["ssl30", "tls10", "tls11", "tls12", "tls13"]
VERBYTES = {"ssl30": b"\x03\x00", "tls10": b"\x03\x01", "tls11": b"\x03\x02", "tls12": b"\x03\x03",
            "tls13": b"\x03\x03", "undef": b"\x03\x03"}
ERR = {"IndexError": "index", "KeyError": "key", "AttributeError": "attr", "UnboundLocalError": "unbound",
       "OverflowError": "overflow", "ValueError": "value", "TypeError": "type", "InvalidTag": "invalidtag",
       "UnsupportedAlgorithm": "unsupported"}
ROUTINES = {"t13a": "decrypt_tls13_aead", "t13s": "decrypt_tls13_stream_cipher", "gs": "decrypt_generic_stream_cipher",
            "t12a": "decrypt_tls12_aead", "t12b": "decrypt_tls12_block_cipher", "t12c": "decrypt_tls12_chacha20",
            "lb": "decrypt_last_block_iv_cbc"}
BLK = T.BLK


def hx(b):
    if b is None:
        return "None"
    return bytes(b).hex() if len(b) else "-"


def unhx(s):
    if s == "None":
        return None
    return b"" if s == "-" else bytes.fromhex(s)


def kind(e):
    return "err:" + ERR.get(type(e).__name__, "other:" + type(e).__name__)


# ============================================================================= toy-primitive RFC sender (oracle)
class ToySender:
    """RFC record protection, PROTECT direction, over toy_crypto's encrypt functions. Shares no code with tlexport or
    with the Lean model. MAC bytes, padding bytes, explicit IVs/nonces are random (the receiver must not depend on
    them; TLExport never verifies a MAC)."""

    def __init__(self, cls, version, alg, maclen, taglen, etm, key, iv, rng, app_key=None, app_iv=None):
        self.cls, self.v, self.alg, self.maclen, self.taglen, self.etm, self.rng = cls, version, alg, maclen, taglen, etm, rng
        self.key, self.iv = dict(key), dict(iv)          # current write key / static IV per direction (0 client)
        self.app_key, self.app_iv = app_key, app_iv
        self.seq = {0: 0, 1: 0}
        self.last = dict(iv)                               # CBC residue (SSL 3.0 / TLS 1.0)
        self.off = {0: 0, 1: 0}                            # RC4 keystream position

    def switch(self, fs):
        """TLS 1.3: after this side's Finished the application traffic keys are used, sequence number 0."""
        self.key[fs], self.iv[fs], self.seq[fs] = self.app_key[fs], self.app_iv[fs], 0

    def protect(self, fs, typ, pt, pad13=0):
        ver, rng = VERBYTES[self.v], self.rng
        n = self.seq[fs]
        self.seq[fs] += 1
        seq8 = struct.pack(">Q", n)
        if self.cls in ("aead13", "chacha13"):
            inner = pt + bytes([typ]) + b"\0" * pad13
            hdr = b"\x17\x03\x03" + struct.pack(">H", len(inner) + self.taglen)
            nonce = bytes(a ^ b for a, b in zip(self.iv[fs], b"\0" * (len(self.iv[fs]) - 8) + seq8))
            return hdr + T.aead_seal(self.alg, self.key[fs], nonce, hdr, self.taglen, inner), inner
        hdr3 = bytes([typ]) + ver
        if self.cls == "aead12":
            aad = seq8 + hdr3 + struct.pack(">H", len(pt))
            explicit = rng.randbytes(8)
            body = explicit + T.aead_seal(self.alg, self.key[fs], self.iv[fs] + explicit, aad, self.taglen, pt)
        elif self.cls == "chacha12":
            aad = seq8 + hdr3 + struct.pack(">H", len(pt))
            nonce = bytes(a ^ b for a, b in zip(self.iv[fs], b"\0\0\0\0" + seq8))
            body = T.aead_seal(self.alg, self.key[fs], nonce, aad, 16, pt)
        elif self.cls == "stream":
            mac = rng.randbytes(self.maclen)
            body = T.rc4(self.key[fs], self.off[fs], pt + mac)
            self.off[fs] += len(body)
        else:
            bs = BLK[self.alg]
            mac = rng.randbytes(self.maclen)
            inner = pt if self.etm else pt + mac
            padn = (bs - (len(inner) + 1) % bs) % bs
            if self.v != "ssl30" and padn + 2 * bs < 256:
                padn += bs * rng.randrange(0, 3)
            pad = bytes([padn]) * (padn + 1) if self.v != "ssl30" else rng.randbytes(padn) + bytes([padn])
            implicit = self.cls == "cbc_implicit"
            iv = self.last[fs] if implicit else rng.randbytes(bs)
            ct = T.cbc_enc(self.alg, self.key[fs], iv, inner + pad)
            self.last[fs] = ct[-bs:]
            body = (b"" if implicit else iv) + ct + (mac if self.etm else b"")
        return hdr3 + struct.pack(">H", len(body)) + body, pt


# ============================================================================= configurations
def class_matrix():
    """Every (version × cipher class × algorithm × key length × MtE/EtM × tag length) that TLExport's table can
    produce, plus AES-192/Camellia-192/3DES-16 key lengths the primitives accept."""
    out = []
    for v in ("ssl30", "tls10", "tls11", "tls12"):
        for mac in (16, 20):
            out.append(dict(cls="stream", version=v, alg="arc4", klen=16, maclen=mac, taglen=16, blocklen=0, etm=0, ivlen=0))
        macs = {("aes", 16): (20, 32), ("aes", 32): (20, 32, 48), ("aes", 24): (20,), ("camellia", 16): (20, 32),
                ("camellia", 32): (20, 48), ("camellia", 24): (20,), ("tdes", 24): (20, 16), ("tdes", 16): (20,),
                ("idea", 16): (20, 16)}
        for (alg, klen), ms in macs.items():
            for etm in (0, 1):
                for mac in ms:
                    out.append(dict(cls="cbc_implicit" if v in ("ssl30", "tls10") else "cbc_explicit", version=v,
                                    alg=alg, klen=klen, maclen=mac, taglen=16, blocklen=8 * BLK[alg], etm=etm,
                                    ivlen=BLK[alg]))
    for alg, tag in (("aesgcm", 16), ("aesccm", 16), ("aesccm", 8)):
        for klen in (16, 32):
            out.append(dict(cls="aead12", version="tls12", alg=alg, klen=klen, maclen=32 if klen == 16 else 48,
                            taglen=tag, blocklen=128, etm=0, ivlen=4))
            out.append(dict(cls="aead13", version="tls13", alg=alg, klen=klen, maclen=32 if klen == 16 else 48,
                            taglen=tag, blocklen=128, etm=0, ivlen=12))
    out.append(dict(cls="chacha12", version="tls12", alg="chachapoly", klen=32, maclen=32, taglen=16, blocklen=0, etm=0, ivlen=12))
    out.append(dict(cls="chacha13", version="tls13", alg="chachapoly", klen=32, maclen=32, taglen=16, blocklen=0, etm=0, ivlen=12))
    # the decryptor sends AEAD suites through decrypt_tls12_aead for every version but 1.3
    out.append(dict(cls="aead12", version="tls11", alg="aesgcm", klen=16, maclen=32, taglen=16, blocklen=128, etm=0, ivlen=4))
    return out


def class_label(m):
    c = m["cls"]
    if c.startswith("cbc"):
        return f"{c}/{m['alg']}{m['klen'] * 8}/{'etm' if m['etm'] else 'mte'}"
    if c in ("aead12", "aead13"):
        return f"{c}/{m['alg']}{m['klen'] * 8}{'_8' if m['taglen'] == 8 else ''}"
    return c


def make_case(m, rng, hs_secrets=True):
    """cfg (what Decryptor gets) + sender for one matrix entry with random keys."""
    k = {i: rng.randbytes(m["klen"]) for i in (0, 1)}
    iv = {i: rng.randbytes(m["ivlen"]) for i in (0, 1)}
    cfg = dict(version=m["version"], alg=m["alg"], maclen=m["maclen"], taglen=m["taglen"], blocklen=m["blocklen"],
               etm=m["etm"])
    if m["version"] == "tls13":
        ak = {i: rng.randbytes(m["klen"]) for i in (0, 1)}
        aiv = {i: rng.randbytes(12) for i in (0, 1)}
        hk = [k[0], k[1]] if hs_secrets else [None, None]
        hiv = [iv[0], iv[1]] if hs_secrets else [None, None]
        cfg["keys"] = [hx(x) for x in (hk[0], hk[1], ak[0], ak[1], hiv[0], hiv[1], aiv[0], aiv[1])]
        snd = ToySender(m["cls"], m["version"], m["alg"], m["maclen"], m["taglen"], m["etm"], k, iv, rng, ak, aiv)
    else:
        cfg["keys"] = [hx(k[0]), hx(k[1]), hx(iv[0]), hx(iv[1])]
        snd = ToySender(m["cls"], m["version"], m["alg"], m["maclen"], m["taglen"], m["etm"], k, iv, rng)
    return cfg, snd


def pick_len(rng, bs, big_ok):
    c = [0, 1, bs - 1, bs, bs + 1, 255, 256]
    r = rng.random()
    if big_ok and r < 0.04:
        return 16384
    if r < 0.75:
        return rng.choice(c)
    return rng.randrange(0, 600)


def valid_history(m, rng, nrec, big_ok=True, hs_secrets=True, tiny=False):
    """→ case dict {cfg, ops, truth}: ops in both directions in random order; truth[i] = expected plaintext (hex) of
    op i when the receiver has the keys, else None."""
    cfg, snd = make_case(m, rng, hs_secrets)
    bs = BLK.get(m["alg"], 16)
    ops, truth = [], []
    is13 = m["version"] == "tls13"
    switch_at = {fs: (rng.randrange(0, min(nrec, 10) if tiny else nrec) if is13 else None) for fs in (0, 1)}
    epoch_app = {0: False, 1: False}
    for i in range(nrec):
        for fs in (0, 1):
            if is13 and switch_at[fs] == i:
                snd.switch(fs)
                epoch_app[fs] = True
                ops.append(["upd", fs])
                truth.append(None)
        fs = rng.randrange(2) if rng.random() < 0.8 else (ops[-1][1] if ops and ops[-1][0] == "dec" else 0)
        pt = rng.randbytes(rng.randrange(0, 4) if tiny else pick_len(rng, bs, big_ok))
        if is13:
            typ = rng.choice([23, 23, 23, 22, 21])
            pad13 = rng.choice([0, 0, 0, 1, 7, 100]) if len(pt) < 16000 else 0
            raw, expect = snd.protect(fs, typ, pt, pad13)
        else:
            typ = rng.choice([23, 23, 23, 22])
            raw, expect = snd.protect(fs, typ, pt)
        ops.append(["dec", fs, raw[0], hx(raw[1:3]), hx(raw[5:])])
        truth.append(hx(expect) if (not is13 or hs_secrets or epoch_app[fs]) else None)
    return dict(cfg=cfg, ops=ops, truth=truth, label=f"{m['version']}/{class_label(m)}")


PLANT = [255, 256, 65535, 65536, 2 ** 24 - 1, 2 ** 32 - 1, 2 ** 32, 2 ** 40 + 255, 2 ** 56 - 1, 2 ** 63, 2 ** 64 - 6]


def planted_history(m, rng, nrec):
    """AEAD classes: both sides start from the state after n₀ records in each direction (sequence numbers planted at
    byte / word boundaries up to 2^64 − 6, as reached only by very long histories), then a valid history follows."""
    cfg, snd = make_case(m, rng, True)
    ops, truth = [], []
    if m["version"] == "tls13":
        for fs in (0, 1):
            snd.switch(fs)
            ops.append(["upd", fs])
            truth.append(None)
    for fs in (0, 1):
        n0 = rng.choice(PLANT)
        snd.seq[fs] = n0
        ops.append(["setseq", fs, n0])
        truth.append(None)
    for _ in range(nrec):
        fs = rng.randrange(2)
        pt = rng.randbytes(rng.randrange(0, 40))
        if snd.seq[fs] >= 2 ** 64:
            continue
        raw, expect = snd.protect(fs, 23, pt, rng.choice([0, 3])) if m["version"] == "tls13" else snd.protect(fs, 23, pt)
        ops.append(["dec", fs, raw[0], hx(raw[1:3]), hx(raw[5:])])
        truth.append(hx(expect))
    return dict(cfg=cfg, ops=ops, truth=truth, label=f"{m['version']}/{class_label(m)}/planted")


# ============================================================================= malformed stream
ALGS = list(T.ALG_ID)


def malformed_history(m, rng, nrec):
    """A valid history damaged: truncated / extended / bit-flipped bodies, wrong direction, empty body, bodies shorter
    than IV / explicit nonce / tag, raw records shorter than a header, direct routine calls on a configuration that
    `decrypt` would not send there, update_keys on any version, planted sequence numbers at the 2^64 edge; and
    damaged construction: wrong-length or None keys and IVs, any algorithm with any version, mac_length 0,
    tag_length None/odd, block_length 0/4/64/128/136."""
    case = valid_history(m, rng, nrec, big_ok=False, hs_secrets=rng.random() < 0.7)
    cfg, ops = case["cfg"], case["ops"]
    r = rng.random()
    if r < 0.45:
        what = rng.choice(["klen", "ivlen", "alg", "version", "maclen", "taglen", "blocklen", "nonekey", "etm"])
        if what == "klen":
            i = rng.randrange(len(cfg["keys"]) // 2)
            cfg["keys"][i] = hx(rng.randbytes(rng.choice([0, 1, 5, 8, 15, 16, 17, 24, 31, 32, 33, 64])))
        elif what == "ivlen":
            i = len(cfg["keys"]) // 2 + rng.randrange(len(cfg["keys"]) // 2)
            cfg["keys"][i] = hx(rng.randbytes(rng.choice([0, 3, 4, 7, 8, 11, 12, 13, 16, 17])))
        elif what == "alg":
            cfg["alg"] = rng.choice(ALGS)
        elif what == "version":
            cfg["version"] = rng.choice(VERSIONS + ["undef"])
            if (cfg["version"] == "tls13") != (len(cfg["keys"]) == 8):
                ks = [unhx(x) for x in cfg["keys"]]
                cfg["keys"] = [hx(x) for x in ((ks[0], ks[1], ks[0], ks[1], ks[2], ks[3], ks[2], ks[3])
                                               if len(ks) == 4 else (ks[0], ks[1], ks[4], ks[5]))]
        elif what == "maclen":
            cfg["maclen"] = rng.choice([0, 0, 1, 16, 20, 32, 48, 300])
        elif what == "taglen":
            cfg["taglen"] = rng.choice([None, 0, 4, 5, 8, 12, 16, 17])
        elif what == "blocklen":
            cfg["blocklen"] = rng.choice([0, 4, 7, 8, 64, 128, 136, 256])
        elif what == "nonekey":
            i = rng.randrange(len(cfg["keys"]))
            cfg["keys"][i] = "None"
        else:
            cfg["etm"] = 1 - cfg["etm"]
    new_ops = []
    for op in ops:
        r = rng.random()
        if op[0] != "dec" or r < 0.45:
            new_ops.append(op)
            continue
        _, fs, typ, ver, body = op
        body = unhx(body)
        k = rng.choice(["trunc", "flip", "dir", "empty", "short", "extend", "raw", "rt", "upd", "seq", "type", "dup"])
        if k == "trunc" and body:
            body = body[:rng.randrange(len(body))]
        elif k == "flip" and body:
            i = rng.randrange(len(body))
            body = body[:i] + bytes([body[i] ^ (1 << rng.randrange(8))]) + body[i + 1:]
        elif k == "dir":
            fs = 1 - fs
        elif k == "empty":
            body = b""
        elif k == "short":
            body = body[:rng.choice([1, 3, 7, 8, 9, 15, 16, 17, 23, 24, 31])]
        elif k == "extend":
            body = body + rng.randbytes(rng.choice([1, 8, 16]))
        elif k == "raw":
            raw = bytes([typ]) + unhx(ver) + struct.pack(">H", len(body)) + body
            new_ops.append(["decraw", fs, hx(rng.choice([raw[:rng.randrange(0, 6)], raw, raw[:3] + b"\xff\xff" + raw[5:],
                                                         rng.randbytes(rng.randrange(0, 40))]))])
            continue
        elif k == "rt":
            raw = bytes([typ]) + unhx(ver) + struct.pack(">H", len(body)) + body
            new_ops.append(["rt", rng.choice(list(ROUTINES)), fs, hx(raw)])
            continue
        elif k == "upd":
            new_ops.append(["upd", rng.randrange(2)])
        elif k == "seq":
            new_ops.append(["setseq", fs, rng.choice([2 ** 64 - 1, 2 ** 64, 2 ** 64 + 5, 255, 256, 257, 2 ** 32, 2 ** 32 + 7, rng.randrange(2 ** 64)])])
        elif k == "type":
            typ = rng.randrange(256)
        elif k == "dup":
            new_ops.append(["dec", fs, typ, ver, hx(body)])
        new_ops.append(["dec", fs, typ, ver, hx(body)])
    return dict(cfg=cfg, ops=new_ops, truth=None, label="malformed/" + case["label"])


# ============================================================================= executing a case on the real code
def py_state(d):
    def rc(name):
        c = getattr(d, name, None)
        return "None" if c is None else str(c.pos)
    g = lambda n: hx(getattr(d, n, None))  # noqa: E731
    return (f"cseq={d.client_seq} sseq={d.server_seq} clast={g('last_block_client')} slast={g('last_block_server')} "
            f"crc4={rc('client_cipher')} src4={rc('server_cipher')} ckey={g('client_key')} skey={g('server_key')} "
            f"civ={g('client_iv')} siv={g('server_iv')}")


def build_decryptor(D, cfg):
    from tlexport.tlsversion import TlsVersion
    ver = {"ssl30": TlsVersion.SSL30, "tls10": TlsVersion.TLS10, "tls11": TlsVersion.TLS11, "tls12": TlsVersion.TLS12,
           "tls13": TlsVersion.TLS13, "undef": TlsVersion.UNDEFINED}[cfg["version"]]
    ks = [unhx(x) for x in cfg["keys"]]
    if cfg["version"] == "tls13":
        names = ["client_handshake_traffic_secret", "server_handshake_traffic_secret",
                 "client_application_traffic_secret_0", "server_application_traffic_secret_0",
                 "client_handshake_iv", "server_handshake_iv", "client_application_iv", "server_application_iv"]
        keys = dict(zip(names, ks))
    else:
        keys = {"client_write_key": ks[0], "server_write_key": ks[1], "client_write_IV": ks[2], "server_write_IV": ks[3],
                "client_write_MAC_secret": b"", "server_write_MAC_secret": b""}
    bulk = None if cfg["alg"] == "none" else getattr(D, type_name(cfg["alg"]))
    ext = {bytes.fromhex("0016"): b""} if cfg["etm"] else {}
    return D.Decryptor(bulk, None, None, keys, ver, len(ks[0]) if ks[0] is not None else 0, cfg["maclen"],
                       cfg["taglen"], cfg["blocklen"], ext, 0)


def type_name(alg):
    return {"aes": "AES", "tdes": "TripleDES", "camellia": "Camellia", "idea": "IDEA", "aesccm": "AESCCM",
            "aesgcm": "AESGCM", "chacha20": "ChaCha20", "chachapoly": "ChaCha20Poly1305", "arc4": "ARC4"}[alg]


def new_line(cfg):
    tl = "None" if cfg["taglen"] is None else cfg["taglen"]
    return f"new {cfg['version']} {cfg['alg']} {cfg['maclen']} {tl} {cfg['blocklen']} {cfg['etm']} " + " ".join(cfg["keys"])


def op_line(op):
    return " ".join(str(x) for x in op)


def run_impl(D, case):
    """→ list of reply strings, two per op (result, state) after the `new` reply, as the driver produces them."""
    from tlexport.tlsrecord import TlsRecord
    out = []
    try:
        d = build_decryptor(D, case["cfg"])
        out.append("ok")
    except Exception as e:  # noqa
        out.append(kind(e))
        d = None
    for op in case["ops"]:
        if d is None:
            out += ["err:nodec", "err:nodec"]
            continue
        try:
            if op[0] in ("dec", "decraw", "rt"):
                if op[0] == "dec":
                    body = unhx(op[4])
                    raw = bytes([op[2]]) + unhx(op[3]) + struct.pack(">H", len(body)) + body
                else:
                    raw = unhx(op[-1])
                rec = TlsRecord(raw, [], bool(op[1] if op[0] != "rt" else op[2]))
                if op[0] == "rt":
                    res = getattr(d, ROUTINES[op[1]])(rec, bool(op[2]))
                else:
                    res = d.decrypt(rec, bool(op[1]))
                out.append("none" if res is None else "ok " + hx(res))
            elif op[0] == "upd":
                d.update_keys(bool(op[1]))
                out.append("ok")
            elif op[0] == "setseq":
                if op[1]:
                    d.server_seq = op[2]
                else:
                    d.client_seq = op[2]
                out.append("ok")
        except Exception as e:  # noqa
            out.append(kind(e))
        out.append(py_state(d))
    return out


def case_lines(case):
    lines = [new_line(case["cfg"])]
    for op in case["ops"]:
        lines += [op_line(op), "state"]
    return lines


def run_cases(ctx, cases, point, oracle=True):
    """Drive every case through the real Decryptor (toy primitives patched in) and through the Lean model; compare after
    every operation; check the sender's ground truth against the real code's results."""
    p = ctx.point(point)
    lines, impl = [], []
    with T.patched() as D, fw.quiet():
        for case in cases:
            lines += case_lines(case)
            impl.append(run_impl(D, case))
    replies = ctx.driver("reclayer", lines, timeout=1800)
    pos = 0
    orc = ctx.oracle.setdefault("reclayer.toy-sender", {"runs": 0, "records": 0, "violations": 0})
    for case, ri in zip(cases, impl):
        n = len(ri)
        rm = replies[pos:pos + n]
        pos += n
        p["cases"] += 1
        label = case["label"]
        ok_dirs = {0: 0, 1: 0}
        for j, (a, b) in enumerate(zip(ri, rm)):
            if j >= 1 and j % 2 == 1:
                op = case["ops"][(j - 1) // 2]
                # distribution: (version | class | operation | outcome kind)
                if point.endswith("valid"):
                    vc = label.split("/")[0] + "|" + "/".join(label.split("/")[1:3])
                else:
                    vc = "mal|" + case["cfg"]["version"] + "/" + case["cfg"]["alg"]
                ctx.hist(point + ".outcome", f"{vc}|{op[0]}|{a.split()[0]}")
                if a.startswith("ok") and op[0] == "dec":
                    ok_dirs[op[1]] += 1
            if a != b:
                ctx.disagree(point, {"label": label, "cfg": case["cfg"], "ops": case["ops"][:(j + 1) // 2 + 1],
                                     "at_reply": j, "what": "new" if j == 0 else ("result" if j % 2 else "state")}, a, b)
                break
        ctx.count((label, tuple(map(tuple, case["ops"]))),
                  nontrivial=(max(ok_dirs.values()) >= 2 and min(ok_dirs.values()) >= 1) if point.endswith("valid")
                  else any(x.startswith("err:") or x == "none" for x in ri[1::2]))
        if oracle and case.get("truth"):
            orc["runs"] += 1
            for i, (op, want) in enumerate(zip(case["ops"], case["truth"])):
                if want is None:
                    continue
                orc["records"] += 1
                got = ri[1 + 2 * i]
                if got != "ok " + want:
                    orc["violations"] += 1
                    cls = label.split("/")[1]
                    ctx.fail("C01:{reclayer:" + cls + "}:plaintext-mismatch",
                             "Decryptor.decrypt does not return the plaintext the sender protected "
                             f"({label}, record {i} of the history, direction {'server' if op[1] else 'client'})",
                             {"reclayer": True, "label": label, "cfg": case["cfg"], "ops": case["ops"][:i + 1],
                              "truth": case["truth"][:i + 1], "toy_primitives": True},
                             expected=f"ok {want[:160]}{'…' if len(want) > 160 else ''} ({0 if want == '-' else len(want) // 2} bytes)",
                             actual=f"{got[:160]}{'…' if len(got) > 160 else ''} ({len(got)} chars)",
                             how="PYTHONPATH=$TLX_REPO:harness python harness/c01rl_main.py --replay <this file>")
                    break
    if cases:
        c = cases[0]
        ctx.sample({"reclayer": c["label"], "new": new_line(c["cfg"])[:160], "ops": [op_line(o)[:80] for o in c["ops"][:3]],
                    "impl": impl[0][:5], "model": replies[:5]})


# ============================================================================= toy twin and conformance
def toy_twin(ctx, n):
    """The Python toy functions equal the Lean toy functions (the two halves of the correspondence use the same
    primitives)."""
    rng, p = ctx.rng, ctx.point("toy.twin")
    lines, exp = [], []

    def res(f):
        try:
            return "ok " + hx(f())
        except Exception as e:  # noqa
            return kind(e)
    for _ in range(n):
        a = rng.choice(ALGS)
        k = rng.randbytes(rng.choice([0, 5, 8, 16, 16, 24, 32, 32, 64, 7]))
        nn = rng.randbytes(rng.choice([0, 4, 7, 8, 12, 12, 13, 16, 129]))
        ad = rng.randbytes(rng.randrange(0, 20))
        tl = rng.choice([16, 16, 8, 4, 5, 0, 17])
        d = rng.randbytes(rng.choice([0, 1, 7, 8, 15, 16, 17, 32, 300, 1000]))
        iv = rng.randbytes(rng.choice([0, 4, 8, 16, 16, 8]))
        off = rng.choice([0, 1, 255, 65536, 10 ** 7])
        ct = T.aead_seal(a, k, nn, ad, tl, d)
        if rng.random() < 0.3 and ct:
            i = rng.randrange(len(ct))
            ct = ct[:i] + bytes([ct[i] ^ 1]) + ct[i + 1:]
        lines.append(f"p.seal {a} {hx(k)} {hx(nn)} {hx(ad)} {tl} {hx(d)}")
        exp.append("ok " + hx(T.aead_seal(a, k, nn, ad, tl, d)))
        lines.append(f"p.open {a} {hx(k)} {hx(nn)} {hx(ad)} {tl} {hx(ct)}")
        exp.append(res(lambda: T.aead_open(a, k, nn, ad, tl, ct)))
        lines.append(f"p.cbcenc {a} {hx(k)} {hx(iv)} {hx(d)}")
        exp.append("ok " + hx(T.cbc_enc(a, k, iv, d)))
        lines.append(f"p.cbcdec {a} {hx(k)} {hx(iv)} {hx(d)}")
        exp.append(res(lambda: T.cbc_dec(a, k, iv, d)))
        lines.append(f"p.rc4 {hx(k)} {off} {hx(d)}")
        exp.append("ok " + hx(T.rc4(k, off, d)))
        lines.append(f"p.rc4init {hx(k)}")
        exp.append(res(lambda: (T.rc4_init(k), b"x")[1]).replace("ok 78", "ok"))
    out = ctx.driver("reclayer", lines)
    for l, e, o in zip(lines, exp, out):
        p["cases"] += 1
        if e != o:
            ctx.disagree("toy.twin", {"line": l[:300]}, e, o)


def toy_conformance(ctx):
    """The toy classes raise the same exception KINDS as cryptography's on the same call shapes (key / nonce / IV / tag
    length / alignment / wrong algorithm interface), and round-trip where the real ones do."""
    import warnings
    with warnings.catch_warnings():
        warnings.simplefilter("ignore")
        from cryptography.hazmat.primitives.ciphers import Cipher
        from cryptography.hazmat.primitives.ciphers.algorithms import AES, TripleDES, Camellia, IDEA, ChaCha20, ARC4
        from cryptography.hazmat.primitives.ciphers.aead import AESCCM, AESGCM, ChaCha20Poly1305
        from cryptography.hazmat.primitives.ciphers.modes import CBC
    real = dict(AES=AES, TripleDES=TripleDES, Camellia=Camellia, IDEA=IDEA, ChaCha20=ChaCha20, ARC4=ARC4, AESCCM=AESCCM,
                AESGCM=AESGCM, ChaCha20Poly1305=ChaCha20Poly1305, Cipher=Cipher, CBC=CBC)
    p = ctx.point("toy.conformance")

    def k(f, ns):
        try:
            f(ns)
            return "ok"
        except Exception as e:  # noqa
            return kind(e)
    shapes = []
    keylens = (0, 1, 5, 7, 8, 10, 15, 16, 17, 20, 24, 31, 32, 33, 64)
    for name in ("AES", "TripleDES", "Camellia", "IDEA", "ARC4", "AESGCM", "ChaCha20Poly1305"):
        for kl in keylens:
            shapes.append((f"{name}(key{kl})", lambda ns, name=name, kl=kl: ns[name](bytes(kl))))
        shapes.append((f"{name}(None)", lambda ns, name=name: ns[name](None)))
    for kl in keylens:
        for tl in (None, 0, 3, 4, 5, 6, 8, 10, 12, 14, 15, 16, 17):
            shapes.append((f"AESCCM(key{kl},{tl})", lambda ns, kl=kl, tl=tl: ns["AESCCM"](bytes(kl), tl)))
    shapes.append(("ChaCha20(key32)", lambda ns: ns["ChaCha20"](bytes(32))))
    for name, kl in (("AES", 16), ("AES", 64), ("TripleDES", 24), ("Camellia", 32), ("IDEA", 16), ("ARC4", 16),
                     ("AESGCM", 16), ("ChaCha20Poly1305", 32)):
        for ivl in (0, 4, 8, 12, 15, 16, 17):
            shapes.append((f"Cipher({name}(key{kl}),CBC(iv{ivl}))",
                           lambda ns, name=name, kl=kl, ivl=ivl: ns["Cipher"](ns[name](bytes(kl)), ns["CBC"](bytes(ivl)))))
    for name, kl, bs in (("AES", 16, 16), ("TripleDES", 24, 8), ("Camellia", 16, 16), ("IDEA", 16, 8)):
        for dl in (0, 1, 7, 8, 9, 15, 16, 17, 24, 32, 33):
            def f(ns, name=name, kl=kl, bs=bs, dl=dl):
                dd = ns["Cipher"](ns[name](bytes(kl)), ns["CBC"](bytes(bs))).decryptor()
                assert len(dd.update(bytes(dl)) + dd.finalize()) == dl
            shapes.append((f"{name}-CBC.decrypt(len{dl})", f))
    shapes.append(("ARC4 stream", lambda ns: ns["Cipher"](ns["ARC4"](bytes(16)), mode=None).decryptor().update(b"abc")))
    shapes.append(("AES mode None", lambda ns: ns["Cipher"](ns["AES"](bytes(16)), mode=None).decryptor()))
    for name, kl, args in (("AESGCM", 16, ()), ("AESCCM", 16, (16,)), ("AESCCM", 32, (8,)), ("ChaCha20Poly1305", 32, ())):
        for nl in (0, 6, 7, 8, 11, 12, 13, 14, 16, 128, 129):
            for dl in (0, 1, 7, 8, 15, 16, 17, 40):
                shapes.append((f"{name}{args}.decrypt(nonce{nl},garbage{dl})",
                               lambda ns, name=name, kl=kl, args=args, nl=nl, dl=dl:
                               ns[name](bytes(kl), *args).decrypt(bytearray(nl), bytes(range(dl)), b"aad")))
        for nl in (12,):
            def g(ns, name=name, kl=kl, args=args, nl=nl):
                c = ns[name](bytes(kl), *args)
                assert c.decrypt(bytearray(nl), c.encrypt(bytes(nl), b"hello", b"aad"), b"aad") == b"hello"
            shapes.append((f"{name}{args} roundtrip", g))

            def g2(ns, name=name, kl=kl, args=args, nl=nl):
                c = ns[name](bytes(kl), *args)
                c.decrypt(bytes(nl), c.encrypt(bytes(nl), b"hello", b"aad"), b"aaD")
            shapes.append((f"{name}{args} wrong aad", g2))
    for label, f in shapes:
        a, b = k(f, real), k(f, T.TOY)
        p["cases"] += 1
        if a != b:
            ctx.disagree("toy.conformance", {"shape": label}, a, b)


# ============================================================================= oracle with the REAL primitives
def real_build(version, code, etm, keys_hex):
    """The unpatched real Decryptor, built the way Session.generate_keys builds it from `split_cipher_suite`."""
    import tlexport.decryptor as D
    from tlexport import cipher_suite_parser
    from tlexport.tlsversion import TlsVersion
    TV = {"ssl3": TlsVersion.SSL30, "tls10": TlsVersion.TLS10, "tls11": TlsVersion.TLS11, "tls12": TlsVersion.TLS12,
          "tls13": TlsVersion.TLS13}
    cs = cipher_suite_parser.split_cipher_suite(code.to_bytes(2, "big"))
    algo = cs["CryptoAlgo"][0]
    block_size = 128 if algo in (D.AES, D.AESCCM, D.AESGCM, D.Camellia) else 64 if algo in (D.TripleDES, D.IDEA) else 0
    keys = {k: bytes.fromhex(x) for k, x in keys_hex.items()}
    ext = {bytes.fromhex("0016"): b""} if etm else {}
    with fw.quiet():
        return D.Decryptor(algo, cs["Mode"][0], cs["MAC"], keys, TV[version], cs["KeyLength"], cs["MAC"].digest_size,
                           cs["TagLength"], block_size, ext, 0)


def real_check(case):
    """Replays a real-primitive history: → (index of the first record not decrypted to the sender's plaintext, got)
    or (None, None)."""
    from tlexport.tlsrecord import TlsRecord
    dec = real_build(case["version"], case["code"], case["etm"], case["keys"])
    for i, op in enumerate(case["history"]):
        if op[0] == "upd":
            with fw.quiet():
                dec.update_keys(bool(op[1]))
            continue
        _, fs, raw, want = op
        try:
            with fw.quiet():
                got = dec.decrypt(TlsRecord(bytes.fromhex(raw), [], bool(fs)), bool(fs))
            res = "none" if got is None else "ok " + hx(got)
        except Exception as e:  # noqa
            res = kind(e)
        if res != "ok " + want:
            return i, res
    return None, None


def real_primitive_oracle(ctx, n_per):
    """gen_tls.Script.protect (RFC sender over the real `cryptography` primitives) → the unpatched real Decryptor.
    One suite per (version × algorithm × key length × mode × tag × MAC × MtE/EtM); every table suite × valid version
    in the thorough tier."""
    import gen_tls
    import spec_suites
    from tlexport import cipher_suite_parser
    rng = ctx.rng
    orc = ctx.oracle.setdefault("reclayer.real-primitives", {"runs": 0, "records": 0, "violations": 0})
    seen, combos = set(), []
    table = set(cipher_suite_parser.cipher_suites)
    for code in sorted(spec_suites.R):
        d = spec_suites.info(spec_suites.R[code])
        if code.to_bytes(2, "big") not in table or d is None:
            continue
        for v in spec_suites.valid_versions(code):
            for etm in ((False, True) if d["mode"] == "CBC" and v != "ssl3" else (False,)):
                key = (v, d["algo"], d["klen"], d["mode"], d["tag"], d["mac"], etm)
                if ctx.thorough() or key not in seen:
                    seen.add(key)
                    combos.append((v, code, etm))
    for (v, code, etm) in combos:
        sc = gen_tls.Script(v, code, [], rng, etm=etm)
        d = sc.d
        if v == "tls13":
            keys = {"client_handshake_traffic_secret": sc.k13["chs"][0], "server_handshake_traffic_secret": sc.k13["shs"][0],
                    "client_application_traffic_secret_0": sc.k13["cap"][0], "server_application_traffic_secret_0": sc.k13["sap"][0],
                    "client_handshake_iv": sc.k13["chs"][1], "server_handshake_iv": sc.k13["shs"][1],
                    "client_application_iv": sc.k13["cap"][1], "server_application_iv": sc.k13["sap"][1]}
        else:
            keys = {"client_write_key": sc.key[0], "server_write_key": sc.key[1], "client_write_IV": sc.iv[0],
                    "server_write_IV": sc.iv[1], "client_write_MAC_secret": b"", "server_write_MAC_secret": b""}
        bs = d["block"] or 16
        hist = []
        for i in range(n_per):
            fs = rng.randrange(2)
            if v == "tls13" and i == n_per // 2:
                for side in (0, 1):
                    sc.epoch[side], sc.seq[side] = "ap", 0
                    hist.append(["upd", side])
            pt = rng.randbytes(pick_len(rng, bs, i == 1))
            pad13 = rng.choice([0, 0, 5]) if v == "tls13" else 0
            raw = sc.protect(fs, 23, pt, pad13) if v == "tls13" else sc.protect(fs, 23, pt)
            hist.append(["dec", fs, raw.hex(), hx(pt + b"\x17" + b"\0" * pad13 if v == "tls13" else pt)])
        case = {"reclayer_real": True, "version": v, "code": code, "etm": bool(sc.etm), "history": hist,
                "keys": {k: x.hex() for k, x in keys.items()}, "suite": spec_suites.R[code]}
        bad, got = real_check(case)
        orc["runs"] += 1
        orc["records"] += sum(1 for o in hist if o[0] == "dec")
        label = (f"{v}|{d['algo']}{d['klen'] * 8}-{d['mode'] or 'stream'}{'_8' if d['tag'] == 8 else ''}"
                 f"{'/etm' if sc.etm else ''}")
        ctx.hist("reclayer.real.outcome", label + ("|ok" if bad is None else "|MISMATCH"))
        ctx.count(("real", v, code, etm), nontrivial=True)
        if bad is not None:
            orc["violations"] += 1
            case["history"] = hist[:bad + 1]
            want = hist[bad][3]
            ctx.fail("C01:{reclayer-real:" + (d["mode"] or "stream") + "}:plaintext-mismatch",
                     f"real primitives: item {bad} of a {v} / {spec_suites.R[code]}{' (EtM)' if sc.etm else ''} record history "
                     "is not decrypted to the sender's plaintext", case,
                     expected=f"ok {want[:160]} ({len(want) // 2} bytes)", actual=f"{got[:160]}",
                     how="PYTHONPATH=$TLX_REPO:harness python harness/c01rl_main.py --replay <this file>")


# ============================================================================= entry points
def explore(ctx, scale=1):
    rng = ctx.rng
    mat = class_matrix()
    toy_twin(ctx, ctx.n(300, 8000))
    toy_conformance(ctx)
    valid, mal = [], []
    reps = ctx.n(1, 30) * scale
    for _ in range(reps):
        for m in mat:
            valid.append(valid_history(m, rng, rng.randrange(5, 14), big_ok=True,
                                       hs_secrets=(rng.random() < 0.7)))
    # long histories of tiny records: sequence numbers beyond one byte, many keystream / residue links
    if ctx.thorough():
        longs = mat
    else:  # one per class at least
        by = {}
        for m in mat:
            by.setdefault(m["cls"], []).append(m)
        longs = [rng.choice(v) for v in by.values()] + [rng.choice(by["aead13"]), rng.choice(by["aead12"])]
    for m in longs:
        valid.append(valid_history(m, rng, 300 if not m["cls"].endswith(("12", "13")) else 700, big_ok=False, tiny=True))
    for _ in range(ctx.n(1, 6)):
        for m in mat:
            if m["cls"] in ("aead12", "chacha12", "aead13", "chacha13"):
                valid.append(planted_history(m, rng, 8))
    nmal = ctx.n(250, 20000) * scale
    for _ in range(nmal):
        mal.append(malformed_history(rng.choice(mat), rng, rng.randrange(2, 8)))
    run_cases(ctx, valid, "reclayer.valid")
    run_cases(ctx, mal, "reclayer.malformed", oracle=False)
    real_primitive_oracle(ctx, ctx.n(6, 10))


RULE = ("record-layer: for every (version × cipher class × algorithm × key length × MtE/EtM × tag length) of the class "
        "matrix a history of 5–13 records in random direction order from an independent toy-primitive RFC sender, lengths "
        "from {0,1,block−1,block,block+1,255,256,16384} ∪ random < 600 (plus histories of 300–700 tiny records, so that "
        "sequence numbers exceed one byte; and for the AEAD classes histories continuing from sequence numbers planted on "
        "both sides at 255, 256, 65535, …, 2^63, 2^64−6), TLS 1.3 with random zero padding, a "
        "handshake→application key switch per direction and (30 %) without handshake secrets; non-trivial iff ≥ 2 records "
        "in one direction and ≥ 1 in the other decrypt. Malformed stream: the same histories with truncated / extended / "
        "bit-flipped / empty / too-short bodies, wrong direction, arbitrary raw records, direct routine calls, "
        "update_keys anywhere, sequence numbers planted at 2^64, and damaged construction (key/IV lengths, None keys, "
        "any algorithm × version, mac_length 0, odd tag/block lengths); non-trivial iff some operation raises or "
        "returns None. Compared after every operation: result and (seq, last block, RC4 position, key, IV) per direction.")


def run_reclayer(ctx):
    """Correspondence + record-level oracles. The caller has run ctx.prove([... 'TLX.Props.C01' ...])."""
    ctx.rule = (ctx.rule + " || " if ctx.rule else "") + RULE
    if not hasattr(ctx, "assumptions"):
        ctx.assumptions = []
    ctx.assumptions += [
        "record layer: cipher primitives are replaced by the toy instance (lean/TLX/Crypto/Toy.lean = harness/toy_crypto.py, "
        "compared on every run; its validation errors compared with cryptography's on every run) in the namespace of "
        "tlexport.decryptor; a second oracle uses the real primitives",
        "record layer: compression_method = 0 (compression is not claimed by C01)",
        "record layer: `planted` histories and the malformed stream set client_seq / server_seq by attribute assignment "
        "(states otherwise reached only after up to 2^64 records)",
    ]
    explore(ctx)


def search_reclayer(ctx):
    explore(ctx, scale=3)


def replay_reclayer(ctx, obj):
    """Re-run the failing input of a replay file written by this module; exit status 1 iff it still fails."""
    case = obj["case"]
    if case.get("reclayer_real"):
        bad, got = real_check(case)
        if bad is not None:
            print("REPLAY-FAIL item", bad, "expected ok", case["history"][bad][3][:160], "actual", got[:160])
        print("REPLAY", "fails" if bad is not None else "passes")
        return 1 if bad is not None else 0
    c = dict(cfg=case["cfg"], ops=case["ops"], truth=case.get("truth"), label=case.get("label", "replay/replay/replay"))
    run_cases(ctx, [c], "reclayer.valid")
    for f in ctx.failures:
        print("REPLAY-FAIL", f["what"], "expected", f["expected"], "actual", f["actual"])
    for d in ctx.disagreements:
        print("REPLAY-DISAGREE", d["point"], "impl", d["impl"][:120], "model", d["model"][:120])
    print("REPLAY", "fails" if ctx.failures else "passes")
    return 1 if ctx.failures else 0
