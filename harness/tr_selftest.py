"""Self-test of the translator work package.
 (a) regenerate `lean/TLX/Gen/Translated/<Group>.lean` from the tree under test, prove `TLX.Props.Translated.<Group>`, audit, require the
     `_eq_model` theorems; run the translator-vs-CPython selftest;
 (b) MUTATION TEST in a scratch worktree of /repo: single-line mutations of the translated Python functions — each must
     make the proof stage fail (the regenerated definition no longer equals the model) IN ITS OWN GROUP ONLY (every
     other group's module still builds: a check of another property is not disturbed) — and behaviour-preserving
     rewrites, for which the outcome is reported (still proved / Untranslatable / proof no longer checks).
run: cd /root/wt/tr && PYTHONPATH=/repo:harness /venv/bin/python -W ignore harness/tr_selftest.py [--no-mutations] [--groups=A,B]
     (`--groups`: only the mutations / rewrites that concern one of these groups; `--no-cpython`: skip the CPython comparison)"""
import json
import os
import re
import subprocess
import sys
import time

import fw
import translate

SCRATCH = "/tmp/trrepo"

# (file, old text (must occur exactly once), new text, what)
MUTATIONS = [
    ("tlexport/quic/quic_dissector.py", "datagram_data[0] >> 7 & 1 == 1", "datagram_data[0] >> 6 & 1 == 1", "get_header_type: wrong bit"),
    ("tlexport/quic/quic_dissector.py", "int('00110000', 2)", "int('00100000', 2)", "get_packet_type: wrong mask"),
    ("tlexport/quic/quic_decode.py", "v = v & 0x3f", "v = v & 0x7f", "decode_variable_length_int: prefix bit kept"),
    ("tlexport/quic/quic_decode.py", "for i in range(1, length):", "for i in range(1, length - 1):", "decode_variable_length_int: one byte short"),
    ("tlexport/quic/quic_decode.py", "    length = 1 << prefix\n\n    return length", "    length = 2 << prefix\n\n    return length", "get_variable_length_int_length: doubled"),
    ("tlexport/quic/quic_session.py", "pkn_hwindow = pkn_window // 2", "pkn_hwindow = pkn_window // 4", "get_full_packet_number: quarter window"),
    ("tlexport/quic/quic_session.py", "if candidate_pkn <= expected_pkn - pkn_hwindow and", "if candidate_pkn < expected_pkn - pkn_hwindow and", "get_full_packet_number: <= became <"),
    ("tlexport/quic/quic_session.py", "candidate_pkn < (1 << 62) - pkn_window", "candidate_pkn < (1 << 61) - pkn_window", "get_full_packet_number: bound 2^61"),
    ("tlexport/quic/quic_session.py", "expected_pkn = largest_pkn + 1", "expected_pkn = largest_pkn", "get_full_packet_number: expected = largest"),
    ("tlexport/quic/quic_session.py", "candidate_pkn = (expected_pkn & ~pkn_mask) | truncated_pkn", "candidate_pkn = (expected_pkn & ~pkn_window) | truncated_pkn", "get_full_packet_number: mask is the window"),
    ("tlexport/quic/quic_session.py", "return int.to_bytes(out_pkn, 8, \"big\", signed=False)", "return int.to_bytes(out_pkn, 4, \"big\", signed=False)", "get_full_packet_number: 4-byte result"),
    ("tlexport/quic/quic_session.py", "            if out_pkn > self.packet_number_server[PACKET_TYPE_MAP[quic_packet.packet_type]]:\n", "            self.packet_number_server[PACKET_TYPE_MAP[quic_packet.packet_type]] = out_pkn\n            if out_pkn > self.packet_number_server[PACKET_TYPE_MAP[quic_packet.packet_type]]:\n", "set_largest_packet_number: store before compare"),
    ("tlexport/quic/quic_session.py", "            if out_pkn > self.packet_number_client[PACKET_TYPE_MAP[quic_packet.packet_type]]:\n", "            if out_pkn < self.packet_number_client[PACKET_TYPE_MAP[quic_packet.packet_type]]:\n", "set_largest_packet_number: keeps the smallest"),
    ("tlexport/quic/quic_session.py", "            if out_pkn > self.packet_number_server[PACKET_TYPE_MAP[quic_packet.packet_type]]:\n                self.packet_number_server[PACKET_TYPE_MAP[quic_packet.packet_type]] = out_pkn\n", "            if out_pkn > self.packet_number_server[PACKET_TYPE_MAP[quic_packet.packet_type]]:\n                self.packet_number_client[PACKET_TYPE_MAP[quic_packet.packet_type]] = out_pkn\n", "set_largest_packet_number: wrong direction's table"),
    ("tlexport/quic/quic_session.py", "        out_pkn = int.from_bytes(packet_number, \"big\", signed=False)\n        if quic_packet.isserver:", "        out_pkn = int.from_bytes(packet_number, \"big\", signed=False)\n        if not quic_packet.isserver:", "set_largest_packet_number: directions swapped"),
    ("tlexport/quic/quic_session.py", "        out_pkn = int.from_bytes(packet_number, \"big\", signed=False)\n        if quic_packet.isserver:", "        out_pkn = int.from_bytes(packet_number[-4:], \"big\", signed=False)\n        if quic_packet.isserver:", "set_largest_packet_number: only the low 4 bytes"),
    ("tlexport/quic/quic_session.py", "        return int.to_bytes(out_pkn, 8, \"big\", signed=False)\n", "        if out_pkn > largest_pkn and quic_packet.isserver:\n            self.packet_number_server[PACKET_TYPE_MAP[quic_packet.packet_type]] = out_pkn\n        return int.to_bytes(out_pkn, 8, \"big\", signed=False)\n", "get_full_packet_number: writes the table before authentication again"),
    ("tlexport/quic/quic_session.py", "                self.epoch_server += 1", "                self.epoch_server += 2", "check_key_epoch: epoch advances by 2"),
    ("tlexport/quic/quic_session.py", "self.epoch_client == len(self.decryptors[\"Application\"]) or self.epoch_server == len(", "self.epoch_client == len(self.decryptors[\"Application\"]) and self.epoch_server == len(", "check_key_epoch: or became and"),
    ("tlexport/quic/quic_session.py", "if len(dcid) > 0 and dcid in self.server_cids and dcid not in self.client_cids:", "if len(dcid) > 0 and dcid in self.server_cids:", "packet_isserver: shared CID decides again"),
    ("tlexport/quic/quic_session.py", "        elif (ip_src == self.client_ip and sport == self.client_port\n", "        elif (ip_src == self.client_ip and sport == self.server_port\n", "matches_session_dgram: wrong port"),
    ("tlexport/session.py", "if alert_level == 0x1 and self.tls_version != TlsVersion.TLS13:", "if alert_level == 0x2 and self.tls_version != TlsVersion.TLS13:", "handle_alert: fatal alerts ignored"),
    ("tlexport/session.py", "        self.client_random = record.binary[6:38]", "        self.client_random = record.binary[6:37]", "handle_tls_client_hello: 31-byte random"),
    ("tlexport/session.py", "                elif int.from_bytes(record.binary[4:6], 'big') == 0x0303:", "                elif int.from_bytes(record.binary[4:6], 'big') == 0x0304:", "server hello: 0x0304 instead of 0x0303"),
    ("tlexport/session.py", "        if self.client_hello_seen:\n            self.can_decrypt = True", "        if self.client_hello_seen:\n            self.can_decrypt = False", "server hello: latch clears"),
    ("tlexport/session.py", "        if packet.sport in server_ports:", "        if packet.dport in server_ports:", "set_client_and_server_ports: roles by destination port"),
    ("tlexport/session.py", "        elif (packet.ip_src == self.client_ip and packet.sport == self.client_port\n", "        elif (packet.ip_src == self.client_ip and packet.dport == self.client_port\n", "matches_session: wrong port"),
    ("tlexport/session.py", "            if sequence in self.seen_packets_server:\n                return", "            if sequence in self.seen_packets_client:\n                return", "Session.handle_packet: duplicate test against the other direction"),
    ("tlexport/session.py", "            self.seen_packets_client.append(sequence)\n", "            self.seen_packets_client.append(sequence + 1)\n", "Session.handle_packet: wrong sequence number remembered"),
    ("tlexport/session.py", "        self.server_packet_buffer.sort(key=lambda x: (x.seq - base) % 2 ** 32)", "        self.server_packet_buffer.sort(key=lambda x: (x.seq - base) % 2 ** 31)", "extract_server_buf: sort key mod 2^31"),
    ("tlexport/session.py", "            base = min(self.client_packet_buffer, key=lambda x: (x.seq - first + 2 ** 31) % 2 ** 32).seq", "            base = min(self.client_packet_buffer, key=lambda x: (x.seq - first) % 2 ** 32).seq", "extract_client_buf: unsigned presync distance"),
    ("tlexport/session.py", "            self.server_next_seq = (base + total_packet_len) % 2 ** 32", "            self.server_next_seq = (base + total_packet_len)", "extract_server_buf: next_seq does not wrap"),
    ("tlexport/session.py", "            if (self.client_packet_buffer[i].seq + len(self.client_packet_buffer[i].tls_data)) % 2 ** 32 != \\\n", "            if (self.client_packet_buffer[i].seq + len(self.client_packet_buffer[i].tls_data)) != \\\n", "extract_client_buf: contiguity without wrap"),
    ("tlexport/quic/quic_session.py", "    QuicPacketType.RTT_O: (QuicPacketType.RTT_1, QuicPacketType.RTT_O),", "    QuicPacketType.RTT_O: (QuicPacketType.RTT_O,),", "PACKET_TYPE_MAP: 0-RTT in a space of its own"),
    ("tlexport/quic/quic_session.py", "        self.packet_number_client = {(QuicPacketType.INITIAL,): 0, (QuicPacketType.HANDSHAKE,): 0,", "        self.packet_number_client = {(QuicPacketType.INITIAL,): 0, (QuicPacketType.HANDSHAKE,): 1,", "set_packet_number_spaces: a space starts at 1"),
    ("tlexport/quic/quic_frame.py", "            if payload[0] in k:\n                key = k\n", "            if payload[0] in k and key == 0xff:\n                key = k\n", "parse_frames: first matching key wins"),
    ("tlexport/quic/quic_frame.py", "        payload = payload[frame_length:]", "        payload = payload[frame_length + 1:]", "parse_frames: skips a byte after each frame"),
    ("tlexport/quic/quic_frame.py", "    (0x1c, 0x1d): ConnectionCloseFrame,", "    (0x1c,): ConnectionCloseFrame,", "frame_type: 0x1d no longer a CONNECTION_CLOSE"),
    ("tlexport/quic/quic_frame.py", "            if byte != 0:\n                self.length = i\n", "            if byte != 0:\n                self.length = i + 1\n", "PaddingFrame: swallows the next frame's type byte"),
    ("tlexport/quic/quic_frame.py", "        self.length += self.crypto_length\n", "        self.length += self.crypto_length + 1\n", "CryptoFrame: one byte too long"),
    ("tlexport/quic/quic_frame.py", "        self.crypto = payload[index: self.length]", "        self.crypto = payload[index + 1: self.length]", "CryptoFrame: data starts one byte late"),
    ("tlexport/quic/quic_frame.py", "        self.off = bool((self.frame_type >> 2) & 1)", "        self.off = bool((self.frame_type >> 1) & 1)", "StreamFrame: OFF bit read from the LEN bit"),
    ("tlexport/quic/quic_frame.py", "            self.data_length = len(payload) - index\n", "            self.data_length = len(payload)\n", "StreamFrame: data_length without LEN counts the header"),
    ("tlexport/quic/quic_frame.py", "        for i in range(0, self.range_count):", "        for i in range(0, self.range_count + 1):", "AckFrame: one range too many"),
    ("tlexport/quic/quic_frame.py", "        if self.frame_type == 0x03:\n", "        if self.frame_type == 0x02:\n", "AckFrame: ECN counts on the wrong type"),
    ("tlexport/quic/quic_frame.py", "        self.stateless_reset_token = payload[self.length: self.length + 16]\n        self.length += 16", "        self.stateless_reset_token = payload[self.length: self.length + 16]\n        self.length += 8", "NewConnectionIdFrame: 8-byte token accounted"),
    ("tlexport/quic/quic_frame.py", "        if self.frame_type == 0x1c:\n", "        if self.frame_type == 0x1d:\n", "ConnectionCloseFrame: frame type field on the application variant"),
    ("tlexport/quic/quic_frame.py", "        self.len_bit = (payload[0] & 1) == 1", "        self.len_bit = (payload[0] & 1) == 0", "DatagramFrame: LEN bit inverted"),
    ("tlexport/quic/quic_frame.py", "class PingFrame(Frame):\n    frame_type = 0x01\n    length = 1", "class PingFrame(Frame):\n    frame_type = 0x01\n    length = 2", "PingFrame: class attribute length 2"),
    ("tlexport/quic/quic_frame.py", "        self.data = payload[1 + self.length: 1 + self.length + self.frame_length]\n\n        self.length = self.length + self.frame_length", "        self.data = payload[1 + self.length: 1 + self.length + self.frame_length]\n\n        self.length = self.length + self.frame_length + 1", "GenericFrame: one byte too long"),
    ("tlexport/checksums.py", "    while checksum > 0xFFFF:", "    while checksum > 0x10000:", "ones_complement_checksum: fold stops at 0x10000"),
    ("tlexport/checksums.py", "        checksum = first + last\n", "        checksum = last\n", "ones_complement_checksum: carry dropped"),
    ("tlexport/checksums.py", "    if len(checksum_arr) % 2 != 0:\n        checksum_arr.extend(b'\\x00')", "    if len(checksum_arr) % 2 != 0:\n        checksum_arr.extend(b'\\xff')", "ones_complement_checksum: padded with 0xff"),
    ("tlexport/checksums.py", "        out_arr[i] = ~out_arr[i] + 256", "        out_arr[i] = ~out_arr[i] + 255", "ones_complement_checksum: complement off by one"),
    ("tlexport/checksums.py", "    udp_data[6:8] = bytearray(b\"\\x00\\x00\")", "    udp_data[4:6] = bytearray(b\"\\x00\\x00\")", "calculate_checksum_udp: wrong field zeroed"),
    ("tlexport/checksums.py", "    if calculated_checksum == b'\\x00\\x00':\n        calculated_checksum = bytearray(b'\\xff\\xff')", "    if calculated_checksum == b'\\x00\\x00':\n        calculated_checksum = bytearray(b'\\x00\\x00')", "calculate_checksum_udp: RFC 768 zero rule lost"),
    ("tlexport/checksums.py", "    if calculated_checksum == b'\\x00\\x00' and packet_checksum == b'\\xff\\xff':\n        return True", "    if calculated_checksum == b'\\x00\\x00' and packet_checksum == b'\\xff\\xff':\n        return False", "calculate_checksum_tcp: the two zeros no longer match"),
    ("tlexport/checksums.py", "    tcp_data[16:18] = bytearray(b'\\x00\\x00')", "    tcp_data[16:18] = bytearray(b'\\x00')", "calculate_checksum_tcp: field replaced by one byte"),
    ("tlexport/cipher_suite_parser.py", "            if part == \"TagLength\":", "            if part == \"KeyLength\":", "split_cipher_suite: default tag length under the wrong part"),
    ("tlexport/cipher_suite_parser.py", "        elif \"CCM\" in suite_string:", "        elif \"CCM_8\" in suite_string:", "split_cipher_suite: only CCM_8 suites become AESCCM"),
    ("tlexport/cipher_suite_parser.py", "        \"AES_256\": 32,", "        \"AES_256\": 24,", "cipher_suite_parts: AES_256 key length 24"),
    ("tlexport/quic/quic_dissector.py", "        result += (bytes([byte1 ^ byte2]))", "        result += (bytes([byte1 | byte2]))", "byte_xor: or instead of xor"),
    ("tlexport/quic/quic_dissector.py", "        first_packet_byte = byte_xor(bytes([first_packet_byte]), byte_and(bytes([mask[0]]), bytes.fromhex(\"0f\")))", "        first_packet_byte = byte_xor(bytes([first_packet_byte]), byte_and(bytes([mask[0]]), bytes.fromhex(\"1f\")))", "remove_header_protection: long header unmasks five bits"),
    ("tlexport/quic/quic_dissector.py", "    packet_number_field = byte_xor(datagram_data[pn_offset:pn_offset + pn_len], mask[1: pn_len + 1])", "    packet_number_field = byte_xor(datagram_data[pn_offset:pn_offset + pn_len], mask[0: pn_len])", "remove_header_protection: packet number unmasked with mask[0:]"),
    ("tlexport/quic/quic_dissector.py", "                pn_offset = 7 + len(dcid) + len(scid)", "                pn_offset = 6 + len(dcid) + len(scid)", "extract_quic_packet: packet number offset one byte early"),
    ("tlexport/quic/quic_dissector.py", "                        pn_offset += packet_len_len + token_len_len + token_len\n", "                        pn_offset += packet_len_len + token_len_len\n", "extract_quic_packet: Initial token not skipped"),
    ("tlexport/quic/quic_dissector.py", "                        sample_offset = pn_offset + 4\n\n                        sample = datagram_data[sample_offset: sample_offset + 16]\n\n                        if isserver:\n                            hp_key = keys['server_initial_hp']", "                        sample_offset = pn_offset + 3\n\n                        sample = datagram_data[sample_offset: sample_offset + 16]\n\n                        if isserver:\n                            hp_key = keys['server_initial_hp']", "extract_quic_packet: Initial sample taken one byte early"),
    ("tlexport/quic/quic_dissector.py", "                                hp_key = keys[\"client_early_hp\"]", "                                hp_key = keys[\"client_handshake_hp\"]", "extract_quic_packet: 0-RTT unprotected with the handshake key"),
    ("tlexport/quic/quic_dissector.py", "                        retry_token = header_parts[-1][:-16]", "                        retry_token = header_parts[-1][:-15]", "extract_quic_packet: Retry tag split at 15"),
    ("tlexport/quic/quic_dissector.py", "                key_phase = decrypted_header[0][0] >> 2 & 1", "                key_phase = decrypted_header[0][0] >> 3 & 1", "extract_quic_packet: key phase from the wrong bit"),
    ("tlexport/quic/quic_dissector.py", "                total_packet_len = 1 + len(guessed_dcid) + decrypted_header[-1] + len(payload)", "                total_packet_len = len(guessed_dcid) + decrypted_header[-1] + len(payload)", "extract_quic_packet: short packet length one short"),
    ("tlexport/quic/quic_dissector.py", "        if int.from_bytes(datagram_data, \"big\") == 0:    # If we have a zero-padding at the end", "        if int.from_bytes(datagram_data[:4], \"big\") == 0:    # If we have a zero-padding at the end", "extract_quic_packet: four zero bytes count as padding"),
    ("tlexport/quic/quic_dissector.py", "                if version == b\"\\x00\\x00\\x00\\x00\":\n                    packet_type = QuicPacketType.VERSION_NEG", "                if version == b\"\\x00\\x00\\x00\\x01\":\n                    packet_type = QuicPacketType.VERSION_NEG", "extract_quic_packet: version 1 taken for Version Negotiation"),
    ("tlexport/main.py", "if ((int(packet.tls_data[0]) & 0x40) >> 6) == 1 or args.greasy:", "if ((int(packet.tls_data[0]) & 0x80) >> 7) == 1 or args.greasy:", "run: fixed bit is bit 7"),
    ("tlexport/main.py", "                if len(cid) > 0 and cid == packet_payload[1:1 + len(cid)]:", "                if cid == packet_payload[1:1 + len(cid)]:", "handle_quic_packet: empty CID matches"),
    ("tlexport/main.py", "                    candidates = session.server_cids\n", "                    candidates = session.client_cids\n", "handle_quic_packet: sender-side CIDs"),
    ("tlexport/main.py", "        if len(packet_payload) < 6:", "        if len(packet_payload) < 5:", "handle_quic_packet: 5-byte long header read"),
    ("tlexport/output_builder.py", "        self.default_port = 8080", "        self.default_port = 8081", "OutputBuilder: fallback port"),
    ("tlexport/quic/quic_output_builder.py", "        if keep_original_ports is False:", "        if keep_original_ports is True:", "QUICOutputbuilder: flag inverted"),
    # group QuicSess2: quic_session.py packet path
    ("tlexport/quic/quic_session.py", '            self.set_largest_packet_number(quic_packet, packet_number)\n\n            frames = parse_frames(payload, quic_packet)\n', '            frames = parse_frames(payload, quic_packet)\n            self.set_largest_packet_number(quic_packet, packet_number)\n', 'decrypt_packet: largest packet number stored only after parse_frames'),
    ("tlexport/quic/quic_session.py", '            packet_number = self.get_full_packet_number(quic_packet)\n', '            packet_number = self.get_full_packet_number(quic_packet)\n            self.set_largest_packet_number(quic_packet, packet_number)\n', 'decrypt_packet: largest packet number stored before the AEAD check'),
    ("tlexport/quic/quic_session.py", '                    decryptor = self.decryptors["Application"][self.epoch_server]', '                    decryptor = self.decryptors["Application"][self.epoch_client]', 'decrypt_packet: server packets use the client epoch'),
    ("tlexport/quic/quic_session.py", '                        decryptor = self.decryptors["Handshake"]', '                        decryptor = self.decryptors["Initial"]', 'decrypt_packet: Handshake packets use the Initial decryptor'),
    ("tlexport/quic/quic_session.py", ' + quic_packet.token_len_bytes + quic_packet.token + ', ' + quic_packet.token_len_bytes + ', 'decrypt_packet: token missing from the Initial associated data'),
    ("tlexport/quic/quic_session.py", 'associated_data = quic_packet.first_byte + quic_packet.dcid + quic_packet.packet_num', 'associated_data = quic_packet.first_byte + quic_packet.packet_num + quic_packet.dcid', 'decrypt_packet: short-header associated data in the wrong order'),
    ("tlexport/quic/quic_session.py", '                if quic_packet.packet_type == QuicPacketType.RTT_1:\n                    self.check_key_epoch', '                if quic_packet.packet_type == QuicPacketType.RTT_O:\n                    self.check_key_epoch', 'decrypt_packet: key epoch never checked for 1-RTT'),
    ("tlexport/quic/quic_session.py", '        except Exception as e:\n            print(e)', '        except KeyError as e:\n            print(e)', 'decrypt_packet: only KeyError swallowed'),
    ("tlexport/quic/quic_session.py", '                if isserver:\n                    self.server_cids.add(frame.connection_id)', '                if not isserver:\n                    self.server_cids.add(frame.connection_id)', 'handle_frame: NEW_CONNECTION_ID credited to the wrong side'),
    ("tlexport/quic/quic_session.py", '            case StreamFrame():\n                self.output_buffer.append(frame)', '            case StreamFrame():\n                pass', 'handle_frame: STREAM frames not exported'),
    ("tlexport/quic/quic_session.py", '            if quic_packet.packet_type not in [QuicPacketType.RETRY, QuicPacketType.VERSION_NEG]:', '            if quic_packet.packet_type not in [QuicPacketType.RETRY]:', 'QuicSession.handle_quic_packet: Version Negotiation packets sent to decrypt_packet'),
    ("tlexport/quic/quic_session.py", '                    self.server_cids.add(quic_packet.scid)\n                    self.client_cids.add(quic_packet.dcid)', '                    self.client_cids.add(quic_packet.scid)\n                    self.server_cids.add(quic_packet.dcid)', 'QuicSession.handle_quic_packet: CIDs of a server Initial swapped'),
    ("tlexport/quic/quic_session.py", '                self.decryptors = {}\n                self.keys: dict[str, bytes] = {}\n\n                self.hash_fun = None', '                self.keys: dict[str, bytes] = {}\n\n                self.hash_fun = None', 'QuicSession.handle_quic_packet: decryptors kept across a Retry'),
    ("tlexport/quic/quic_session.py", '            if self.tls_session.client_random is not None and self.tls_session.ciphersuite is not None:', '            if self.tls_session.client_random is not None or self.tls_session.ciphersuite is not None:', 'handle_crypto_frame: key derivation with one of client random / suite missing'),
    ("tlexport/quic/quic_session.py", '            self.set_initial_decryptor(dcid, False)', '            self.set_initial_decryptor(dcid, True)', 'QuicSession.handle_packet: Initial keys derived for ChaCha20'),
    ("tlexport/quic/quic_session.py", '        if self.quic_version == QuicVersion.UNKNOWN:\n            self.quic_version = quic_version', '        if self.quic_version != QuicVersion.UNKNOWN:\n            self.quic_version = quic_version', 'QuicSession.handle_packet: version latch inverted'),
    # group Main2: main.py
    ("tlexport/main.py", '        if session.matches_session(packet):\n            session.handle_packet(packet)\n            return\n', '        if session.matches_session(packet):\n            session.handle_packet(packet)\n', 'main.handle_packet: every matching session gets the packet'),
    ("tlexport/main.py", '    if packet.dport in server_ports or packet.sport in server_ports:\n        sessions.append(', '    if packet.dport in server_ports and packet.sport in server_ports:\n        sessions.append(', 'main.handle_packet: new session only when both ports are server ports'),
    ("tlexport/main.py", '        sessions.append(Session(packet, server_ports, keylog, portmap, keep_original_ports, exp_meta))', '        sessions.insert(0, Session(packet, server_ports, keylog, portmap, keep_original_ports, exp_meta))', 'main.handle_packet: new session put first'),
    ("tlexport/main.py", '    for session in sessions:\n        all_decrypted_sessions.extend(session.decrypt())\n    for quic_session in quic_sessions:\n        all_decrypted_sessions.extend(quic_session.build_output(metadata))', '    for quic_session in quic_sessions:\n        all_decrypted_sessions.extend(quic_session.build_output(metadata))\n    for session in sessions:\n        all_decrypted_sessions.extend(session.decrypt())', 'main.collect: QUIC sessions exported before the TLS sessions'),
    ("tlexport/main.py", '        all_decrypted_sessions.extend(quic_session.build_output(metadata))', '        all_decrypted_sessions.extend(quic_session.build_output(False))', 'main.collect: metadata flag not passed on'),
    ("tlexport/main.py", '        if ts == -1:\n            keylog.extend(', '        if ts == 0:\n            keylog.extend(', 'main.run_dsb: secrets block recognised by ts == 0'),
    ("tlexport/main.py", '    if args.sslkeylog is not None:\n', '    if args.sslkeylog is None:\n', 'main.run_keylog_file: key-log file read when absent'),
    ("tlexport/main.py", '            if len(dcid) > 0 and (dcid in session.client_cids or dcid in session.server_cids):\n                session.handle_packet(packet, dcid, quic_version)\n                return\n', '            if len(dcid) > 0 and (dcid in session.client_cids or dcid in session.server_cids):\n                session.handle_packet(packet, dcid, quic_version)\n', 'main.quic_loop: long-header CID match does not end the loop'),
    ("tlexport/main.py", '                    session.handle_packet(packet, cid, quic_version)\n                    return\n', '                    session.handle_packet(packet, dcid, quic_version)\n                    return\n', 'main.quic_loop: short-header match hands on the empty DCID'),
    ("tlexport/main.py", '        if session.matches_session_dgram(packet.ip_src, packet.ip_dst, packet.sport, packet.dport):\n            session.handle_packet(packet, dcid, quic_version)\n            return\n', '        if session.matches_session_dgram(packet.ip_src, packet.ip_dst, packet.sport, packet.dport):\n            session.handle_packet(packet, dcid, quic_version)\n            continue\n', 'main.quic_loop: 4-tuple match goes on to the next session'),
    ("tlexport/main.py", '        quic_sessions.append(new_session)\n        new_session.handle_packet(packet, dcid, quic_version)', '        quic_sessions.append(new_session)', 'main.quic_loop: first packet of a new session not processed'),
    ("tlexport/main.py", '                    candidates = session.server_cids\n                else:\n                    candidates = session.client_cids', '                    candidates = session.client_cids\n                else:\n                    candidates = session.server_cids', 'main.quic_loop: sender-side CIDs as candidates (fragment)'),
    # group Dsb: dpkt_dsb.py DecryptionSecretBlock.unpack
    ("tlexport/dpkt_dsb.py", '        self.pkt_data = buf[po:po + self.secrets_length]', '        self.pkt_data = buf[po:po + dpng._align32b(self.secrets_length)]', 'DecryptionSecretBlock: padding returned with the secrets'),
    ("tlexport/dpkt_dsb.py", '        po = self.__hdr_len__ - 4  # offset of pkt_data', '        po = self.__hdr_len__  # offset of pkt_data', 'DecryptionSecretBlock: data offset 4 bytes late'),
    ("tlexport/dpkt_dsb.py", '        dpkt.Packet.unpack(self, buf)\n        if self.len > len(buf):\n            raise dpkt.NeedData\n\n        # packet data\n        po = self.__hdr_len__ - 4  # offset of pkt_data', '        dpkt.Packet.unpack(self, buf)\n        if self.len >= len(buf):\n            raise dpkt.NeedData\n\n        # packet data\n        po = self.__hdr_len__ - 4  # offset of pkt_data', 'DecryptionSecretBlock: a block that fills the buffer exactly is refused'),
    ("tlexport/dpkt_dsb.py", '        opts_offset = po + dpng._align32b(self.secrets_length)\n        self._do_unpack_options(buf, opts_offset)', '        opts_offset = po + self.secrets_length\n        self._do_unpack_options(buf, opts_offset)', 'DecryptionSecretBlock: options read from the padding'),
    # group TlsKeys: session.py key selection
    ("tlexport/session.py", '            if secret.client_random.lower() == self.client_random.hex().lower():', '            if secret.client_random == self.client_random.hex().lower():', 'find_session_secrets: upper-case client randoms of the key log no longer match'),
    ("tlexport/session.py", '                    is_handshake_secret += 2\n                secrets.append(secret)', '                    is_handshake_secret += 2\n                    secrets.append(secret)', 'find_session_secrets: only the server handshake secret is kept'),
    ("tlexport/session.py", '                secrets.append(secret)\n\n        if is_handshake_secret < 2', '                secrets.insert(0, secret)\n\n        if is_handshake_secret < 2', 'find_session_secrets: reverse key-log order'),
    ("tlexport/session.py", 'secret_list = [secret for secret in secret_list if secret.label in ("CLIENT_RANDOM", "RSA")]', 'secret_list = [secret for secret in secret_list if secret.label in ("CLIENT_RANDOM",)]', 'generate_keys select: RSA lines dropped'),
    ("tlexport/session.py", '        if tls_version != TlsVersion.TLS13:\n            # up to TLS 1.2', '        if tls_version == TlsVersion.TLS12:\n            # up to TLS 1.2', 'generate_keys select: the master-secret filter for TLS 1.2 only'),
    ("tlexport/session.py", '                          f"Client Port: {self.client_port}")\n            self.can_decrypt = False\n            return\n\n        try:', '                          f"Client Port: {self.client_port}")\n            return\n\n        try:', 'generate_keys select: can_decrypt stays set without secrets'),
    ("tlexport/session.py", '        elif algo in [TripleDES, IDEA]:\n            block_size = 64', '        elif algo in [TripleDES]:\n            block_size = 64', 'generate_keys block_size: IDEA without a block size'),
    ("tlexport/session.py", '        if algo in [AES, AESCCM, AESGCM, Camellia]:\n            block_size = 128', '        if algo in [AES, AESCCM, AESGCM, Camellia]:\n            block_size = 16', 'generate_keys block_size: bytes instead of bits'),
    ("tlexport/session.py", '                                   self.tls_version, cipher_suite["KeyLength"], cipher_suite["MAC"].digest_size,', '                                   self.tls_version, cipher_suite["MAC"].digest_size, cipher_suite["KeyLength"],', 'generate_keys install: key length and MAC length swapped'),
    ("tlexport/session.py", '                                   cipher_suite["TagLength"], block_size, self.extensions, self.compression_method)', '                                   cipher_suite["TagLength"], block_size // 8, self.extensions, self.compression_method)', 'generate_keys install: block length in bytes'),
    # group Opts: main.py options
    ("tlexport/main.py", '        i = i.replace(",", "") # if somebody is using a "," as seperator\n', '', 'get_port_map: commas kept'),
    ("tlexport/main.py", '        output_port = int(split[1])', '        output_port = int(split[-1])', 'get_port_map: output port is the last field'),
    ("tlexport/main.py", '        port_map[server_port] = output_port', '        port_map[output_port] = server_port', 'get_port_map: map inverted'),
    ("tlexport/main.py", '        split = i.split(":")\n        server_port = int(split[0])\n        output_port = int(split[1])', '        split = i.split(":")\n        output_port = int(split[1])\n        server_port = int(split[0])', 'get_port_map: output port converted first (IndexError before ValueError)'),
    ("tlexport/main.py", '            setattr(namespace, self.dest, ["443:8080"])', '            setattr(namespace, self.dest, ["443:8443"])', 'MapPortsAction: another value for a bare -m'),
    ("tlexport/main.py", "        keep_original_ports = False  # If -m is used, we don't keep original ports", "        keep_original_ports = bool(values)  # If -m is used, we don't keep original ports", 'MapPortsAction: a bare -m keeps the original ports'),
    ("tlexport/main.py", 'server_ports = [443, 44330]', 'server_ports = [443]', 'server_ports: built-in list without 44330'),
    ("tlexport/main.py", '    server_ports.extend([int(x) for x in args.serverports])', '    server_ports.extend([int(x) for x in args.serverports[1:]])', 'server_ports: first -p value dropped'),
    # group Keylog: keylog_reader.py
    ("tlexport/keylog_reader.py", '        self.client_random = split[1]\n        self.value = split[2]', '        self.client_random = split[2]\n        self.value = split[1]', 'Key: client random and value swapped'),
    ("tlexport/keylog_reader.py", '        split = key_line.split(" ")', '        split = key_line.split("\\t")', 'Key: line split at tabs'),
    ("tlexport/keylog_reader.py", '    key_str = key_str.replace("\\r", "")\n', '', 'get_keys_from_string: carriage returns kept'),
    ("tlexport/keylog_reader.py", '        if key is not None:\n            keys.append(key)', '        if key is not None:\n            keys.insert(0, key)', 'get_keys_from_string: keys in reverse order'),
    ("tlexport/keylog_reader.py", '    if res is not None:\n        return Key(line)', '    if res is None:\n        return Key(line)', 'get_key_from_line: the lines that do NOT match'),
    ("tlexport/quic/quic_session.py", '            keys["server_initial_key"],\n            keys["server_initial_iv"],\n            keys["client_initial_key"],', '            keys["client_initial_key"],\n            keys["server_initial_iv"],\n            keys["server_initial_key"],', 'set_initial_decryptor: server and client keys swapped'),
    ("tlexport/quic/quic_session.py", '        dec = QuicDecryptor(dec_keys, AESGCM, early=False)', '        dec = QuicDecryptor(dec_keys, AESGCM, early=True)', 'set_initial_decryptor: Initial decryptor built as an early-data decryptor'),
    ("tlexport/quic/quic_session.py", '        if keys is None:\n            self.can_decrypt = False\n            return\n\n        dec_keys', '        if keys is None:\n            return\n\n        dec_keys', 'set_initial_decryptor: can_decrypt kept when no keys'),
    ("tlexport/main.py", '    for buf, ts in all_decrypted_sessions:\n        writer.writepkt(bytes(buf), ts)', '    for buf, ts in reversed(all_decrypted_sessions):\n        writer.writepkt(bytes(buf), ts)', 'main.write_all: frames written in reverse order'),
    # group QuicSess3: quic_session.py set_tls_decryptors
    ("tlexport/quic/quic_session.py", '                self.hash_fun = SHA384\n                self.cipher = AESGCM\n                self.key_length = 32', '                self.hash_fun = SHA384\n                self.cipher = AESGCM\n                self.key_length = 16', 'set_tls_decryptors: 16-byte keys for TLS_AES_256_GCM_SHA384'),
    ("tlexport/quic/quic_session.py", '                self.cipher = ChaCha20Poly1305', '                self.cipher = AESGCM', 'set_tls_decryptors: AES-GCM for the ChaCha20 suite'),
    ("tlexport/quic/quic_session.py", '            if bytes.fromhex(key.client_random) == client_random:', '            if bytes.fromhex(key.client_random) != client_random:', 'set_tls_decryptors: the key-log entries of the OTHER connections'),
    ("tlexport/quic/quic_session.py", '                [keys["server_handshake_key"], keys["server_handshake_iv"], keys["client_handshake_key"],\n                 keys["client_handshake_iv"]]', '                [keys["client_handshake_key"], keys["client_handshake_iv"], keys["server_handshake_key"],\n                 keys["server_handshake_iv"]]', 'set_tls_decryptors: handshake keys of the two directions swapped'),
    ("tlexport/quic/quic_session.py", '                 keys["client_application_iv"], keys["server_application_sec"], keys["client_application_sec"]]', '                 keys["client_application_iv"], keys["client_application_sec"], keys["server_application_sec"]]', 'set_tls_decryptors: application secrets swapped'),
    ("tlexport/quic/quic_session.py", '        except:\n            self.can_decrypt = False\n            logging.error("Missing Key Material")\n            return\n\n        try:\n            self.decryptors["Application"]', '        except:\n            logging.error("Missing Key Material")\n            return\n\n        try:\n            self.decryptors["Application"]', 'set_tls_decryptors: can_decrypt kept without handshake keys'),
    ("tlexport/quic/quic_session.py", '            self.early_traffic_keys = True\n', '            pass\n', 'set_tls_decryptors: early_traffic_keys never set'),
    ("tlexport/quic/quic_session.py", '        self.keys.update(keys)\n        try:', '        try:', 'set_tls_decryptors: derived keys not kept for header protection'),
    ("tlexport/quic/quic_session.py", '                self.can_decrypt = False\n                return\n', '                self.can_decrypt = False\n', 'set_tls_decryptors: unknown suite goes on to derive keys'),
    ("tlexport/quic/quic_session.py", '                [keys["client_early_key"],\n                 keys["client_early_iv"]], self.cipher, early=True)', '                [keys["client_early_key"],\n                 keys["client_early_iv"]], self.cipher, early=False)', 'set_tls_decryptors: early decryptor built with early=False'),
    # group Decrypt2: decryptor.py constructor
    ("tlexport/decryptor.py", '            if keys["client_handshake_traffic_secret"] is None or keys[\n                    "client_handshake_iv"] is None:', '            if keys["client_handshake_traffic_secret"] is None and keys[\n                    "client_handshake_iv"] is None:', 'parse_keys: client fallback only when secret AND iv are missing'),
    ("tlexport/decryptor.py", '                self.server_handshake_key = keys["server_application_traffic_secret_0"]', '                self.server_handshake_key = keys["client_application_traffic_secret_0"]', "parse_keys: server fallback takes the client's application secret"),
    ("tlexport/decryptor.py", '            self.server_key = self.server_handshake_key\n', '            self.server_key = self.server_application_key\n', 'parse_keys: server starts with the application key'),
    ("tlexport/decryptor.py", '            self.client_key = keys["client_write_key"]', '            self.client_key = keys["server_write_key"]', 'parse_keys: client key is the server write key'),
    ("tlexport/decryptor.py", '        if self.tls_version in [TlsVersion.TLS10, TlsVersion.SSL30]:', '        if self.tls_version in [TlsVersion.TLS10, TlsVersion.TLS11, TlsVersion.SSL30]:', 'Decryptor.__init__: last-block IV chaining for TLS 1.1'),
    ("tlexport/decryptor.py", '            self.tag_length = 16\n', '            self.tag_length = 8\n', 'Decryptor.__init__: default tag length 8'),
    ("tlexport/decryptor.py", '        if bytes.fromhex("0016") in extensions.keys():', '        if bytes.fromhex("0017") in extensions.keys():', 'Decryptor.__init__: encrypt-then-mac read from extension 0x0017'),
    ("tlexport/decryptor.py", '        if self.cipher_type == EncryptionType.Stream_Cipher and not self.bulk_alg == ChaCha20Poly1305:', '        if self.cipher_type == EncryptionType.Stream_Cipher:', 'Decryptor.__init__: stream context for ChaCha20-Poly1305'),
    ("tlexport/decryptor.py", '        self.client_seq = 0\n        self.server_seq = 0\n\n        if self.tls_version in', '        self.client_seq = 1\n        self.server_seq = 0\n\n        if self.tls_version in', 'Decryptor.__init__: client sequence starts at 1'),
    ("tlexport/decryptor.py", '            self.last_block_server = self.server_iv\n            self.last_block_client = self.client_iv', '            self.last_block_server = self.client_iv\n            self.last_block_client = self.server_iv', 'Decryptor.__init__: last blocks crossed'),
    # group QuicTls: quic_tls_parser.py
    ("tlexport/quic/quic_tls_parser.py", "            if p_type == 0x2ab2:", "            if p_type == 0x2ab3:", "get_quic_transport_parameters: grease_quic_bit under the wrong id"),
    ("tlexport/quic/quic_tls_parser.py", "            extension_body = extension_body[index + parameter_length:]", "            extension_body = extension_body[index + parameter_length + 1:]", "get_quic_transport_parameters: a byte skipped after each parameter"),
    ("tlexport/quic/quic_tls_parser.py", "            if len(record) < 4 + extension_length:\n                break", "            if len(record) < 2 + extension_length:\n                break", "get_extensions: incomplete extension collected"),
    ("tlexport/quic/quic_tls_parser.py", "                    if e_length != 2:\n                        continue", "                    if e_length != 3:\n                        continue", "get_extensions: supported_versions of 3 bytes"),
    ("tlexport/quic/quic_tls_parser.py", "                    self.alpn = e_body[3:3 + alpn_length]", "                    self.alpn = e_body[2:3 + alpn_length]", "get_extensions: ALPN includes its length byte"),
    ("tlexport/quic/quic_tls_parser.py", "        if len(record[2:]) != int.from_bytes(record[:2], 'big', signed=False):\n            return", "        if len(record[2:]) < int.from_bytes(record[:2], 'big', signed=False):\n            return", "get_extensions: trailing bytes accepted"),
    ("tlexport/quic/quic_tls_parser.py", "        self.client_random = record[2:34]", "        self.client_random = record[2:33]", "handle_client_hello: 31-byte client random"),
    ("tlexport/quic/quic_tls_parser.py", "        self.ciphersuite = _ciphersuites[0:2]  # For early data", "        self.ciphersuite = _ciphersuites[2:4]  # For early data", "handle_client_hello: second offered suite taken"),
    ("tlexport/quic/quic_tls_parser.py", "        index += 1 + compression_methods_length", "        index += compression_methods_length", "handle_client_hello: compression length byte not skipped"),
    ("tlexport/quic/quic_tls_parser.py", "        record = record[39 + session_id_length:]", "        record = record[38 + session_id_length:]", "handle_server_hello: cipher suite read one byte early"),
    ("tlexport/quic/quic_tls_parser.py", "        self.get_extensions(record[4:])", "        self.get_extensions(record[3:])", "handle_encrypted_extensions: message header not stripped"),
    ("tlexport/quic/quic_tls_parser.py", "            case 8:\n                self.handle_encrypted_extensions(record)", "            case 11:\n                self.handle_encrypted_extensions(record)", "handle_record: EncryptedExtensions under the Certificate type"),
    # group Decrypt: decryptor.py
    ("tlexport/decryptor.py", "    b_padded = bytes(diff) + b", "    b_padded = b + bytes(diff)", "Dec.byte_xor: zero padding at the wrong end"),
    ("tlexport/decryptor.py", "        xor_out.append(a[i] ^ b_padded[i])", "        xor_out.append(a[i] | b_padded[i])", "Dec.byte_xor: or instead of xor"),
    ("tlexport/decryptor.py", "        if self.bulk_alg in [AESCCM, AESGCM]:", "        if self.bulk_alg in [AESGCM]:", "get_cipher_type: AESCCM not an AEAD"),
    ("tlexport/decryptor.py", "            self.server_seq = 0", "            self.server_seq = 1", "update_keys: sequence number restarts at 1"),
    ("tlexport/decryptor.py", "            self.client_iv = self.client_application_iv", "            self.client_iv = self.client_handshake_iv", "update_keys: client keeps the handshake IV"),
    ("tlexport/decryptor.py", "        associated_data = int.to_bytes(record.record_type, 1, 'big') + record.record_version + record.record_length", "        associated_data = int.to_bytes(record.record_type, 1, 'big') + record.record_version", "decrypt_tls13_aead: record length missing from the associated data", 0),
    ("tlexport/decryptor.py", "        nonce = byte_xor(iv, int(seq).to_bytes(8, 'big'))", "        nonce = byte_xor(iv, int(seq).to_bytes(4, 'big'))", "decrypt_tls13_stream_cipher: 4-byte sequence number in the nonce", 1),
    ("tlexport/decryptor.py", "        ciphertext_len = len(ciphertext) - 8 - self.tag_length", "        ciphertext_len = len(ciphertext) - 8", "decrypt_tls12_aead: tag counted into the plaintext length"),
    ("tlexport/decryptor.py", "        nonce = iv + record.binary[:8]", "        nonce = record.binary[:8] + iv", "decrypt_tls12_aead: explicit nonce before the salt"),
    ("tlexport/decryptor.py", "        ciphertext = record.binary[8:]", "        ciphertext = record.binary[7:]", "decrypt_tls12_aead: ciphertext starts inside the explicit nonce"),
    ("tlexport/decryptor.py", "                len(record.binary) - 16).to_bytes(2, 'big')", "                len(record.binary) - 15).to_bytes(2, 'big')", "decrypt_tls12_chacha20: plaintext length off by one in the associated data"),
    ("tlexport/decryptor.py", "            self.server_seq += 1", "            self.server_seq += 2", "decrypt_tls12_aead: server sequence number advances by 2", 2),
    ("tlexport/decryptor.py", "        elif self.tls_version == TlsVersion.TLS12 and self.bulk_alg == ChaCha20Poly1305:", "        elif self.tls_version == TlsVersion.TLS11 and self.bulk_alg == ChaCha20Poly1305:", "Decryptor.decrypt: ChaCha20 routine chosen for TLS 1.1"),
    ("tlexport/decryptor.py", "        elif self.cipher_type == EncryptionType.AEAD:\n            return self.decrypt_tls12_aead(record, isserver)", "        elif self.cipher_type == EncryptionType.Unknown:\n            return self.decrypt_tls12_aead(record, isserver)", "Decryptor.decrypt: AEAD records not dispatched"),
    ("tlexport/decryptor.py", "            logging.info(f\"decrypting as Server: Key: 0x{key.hex()}, \"", "            logging.info(f\"decrypting as Server: Key: 0x{key}, \"", "decrypt_tls13_aead: the log line no longer fails on a missing key", 0),
    # group Builders: the output builders
    ("tlexport/quic/quic_output_builder.py", "            if frame.frame_type in [0x08, 0x09, 0x0a, 0x0b, 0x0c, 0x0d, 0x0e, 0x0f]:", "            if frame.frame_type in [0x08, 0x09, 0x0a, 0x0b, 0x0c, 0x0d, 0x0e]:", "QUICOutputbuilder.build: STREAM type 0x0f not exported"),
    ("tlexport/quic/quic_output_builder.py", "                if frame.frame_type == 0x06:\n                    data = frame.crypto", "                if frame.frame_type == 0x07:\n                    data = frame.crypto", "QUICOutputbuilder.build: CRYPTO meta-data under the wrong type"),
    ("tlexport/quic/quic_output_builder.py", "            if frame.src_packet.ts == ts and frame.src_packet.isserver == isserver:", "            if frame.src_packet.ts == ts:", "QUICOutputbuilder.build: frames of both directions in one datagram"),
    ("tlexport/quic/quic_output_builder.py", "                self.out.append((packet, ts))\n\n                ts = frame.src_packet.ts", "                self.out.append((packet, frame.src_packet.ts))\n\n                ts = frame.src_packet.ts", "QUICOutputbuilder.build: closed datagram stamped with the next one's time"),
    ("tlexport/quic/quic_output_builder.py", "                packets = bytearray()\n                packets.extend(data)", "                packets = bytearray()", "QUICOutputbuilder.build: first frame of a new datagram lost"),
    ("tlexport/quic/quic_output_builder.py", "        if ts is None:\n            # no frame carried data that is exported\n            return self.out", "        if not ts:\n            # no frame carried data that is exported\n            return self.out", "QUICOutputbuilder.build: capture time 0 taken for no data"),
    ("tlexport/output_builder.py", "        if last_len < record_len:", "        if last_len <= record_len:", "build_server_packet: an empty last part", 0),
    ("tlexport/output_builder.py", "            parts.append(decrypted[i * part_len: i * part_len + part_len])", "            parts.append(decrypted[i * part_len: i * part_len + part_len + 1])", "build_client_packet: parts overlap by one byte", 1),
    ("tlexport/output_builder.py", "                self.server_seq += len(parts[i])", "                self.server_seq += len(parts[i]) + 1", "build_server_packet: sequence number off by one per part", 0),
    ("tlexport/output_builder.py", "                    dport=self.server_port, sport=self.client_port, flags='A', seq=self.client_seq, ack=self.server_seq)", "                    dport=self.server_port, sport=self.client_port, flags='A', seq=self.client_seq, ack=self.client_seq)", "build_server_packet: ACK acknowledges the wrong number", 0),
    ("tlexport/output_builder.py", "            self.out.append((packet_ack, ts[i]))", "            self.out.append((packet_ack, ts[0]))", "build_client_packet: ACKs all at the first carrier's time", 1),
    ("tlexport/output_builder.py", "                dport=self.client_port, sport=self.server_port, flags='SA', seq=0, ack=1)", "                dport=self.client_port, sport=self.server_port, flags='SA', seq=0, ack=0)", "build_ack_handshake: SYN-ACK does not acknowledge the SYN", 0),
    ("tlexport/output_builder.py", "                self.ts_zero = record[1].metadata[0].timestamp", "                self.ts_zero = record[1].metadata[-1].timestamp", "OutputBuilder.build: handshake at the last carrier's time"),
    ("tlexport/output_builder.py", "            if record[2]:\n                self.build_server_packet(decrypted, ts)", "            if not record[2]:\n                self.build_server_packet(decrypted, ts)", "OutputBuilder.build: directions swapped"),
    ("tlexport/output_builder.py", "                decrypted = b'123345'", "                decrypted = b'12345'", "OutputBuilder.build: other placeholder"),
    # group KeySched: key_derivator.py, quic_key_generation.py
    ("tlexport/key_derivator.py", "    seed = label + server_random + client_random\n\n    a0 = seed\n    secret_block", "    seed = label + client_random + server_random\n\n    a0 = seed\n    secret_block", "prf_tls_12: randoms swapped in the seed"),
    ("tlexport/key_derivator.py", "    return secret_block[:length]", "    return secret_block[:length - 1]", "prf_tls_12: one byte short", 1),
    ("tlexport/key_derivator.py", "    s1 = secret[:l_s1]", "    s1 = secret[:l_s1 - 1]", "prf_tls_10_11: first half one byte short"),
    ("tlexport/key_derivator.py", "        h1 = hmac.HMAC(s2, hashes.SHA1())", "        h1 = hmac.HMAC(s2, hashes.MD5())", "prf_tls_10_11: A(i) of the SHA-1 half computed with MD5"),
    ("tlexport/key_derivator.py", "            sha1.update(bytes(counter * sec_bits[counter - 1], 'utf-8') + secret + client_random + server_random)", "            sha1.update(bytes(counter * sec_bits[counter - 1], 'utf-8') + secret + server_random + client_random)", "prf_ssl_30: master-secret randoms in key-block order"),
    ("tlexport/key_derivator.py", "        md5.update(secret + a)", "        md5.update(a + secret)", "prf_ssl_30: MD5 input order"),
    ("tlexport/key_derivator.py", "    master_secret = (p1 + p2)[:48]", "    master_secret = (p1 + p2)[:32]", "gen_master_secret_tls_12: 32-byte master secret"),
    ("tlexport/key_derivator.py", "    h.update(a2 + seed)\n    p2 = h.finalize()", "    h.update(a1 + seed)\n    p2 = h.finalize()", "gen_master_secret_tls_12: second block from A(1)"),
    ("tlexport/key_derivator.py", "    if cipher_algo == ChaCha20Poly1305:\n        iv_length = 12", "    if cipher_algo == ChaCha20Poly1305:\n        iv_length = 8", "dev_tls_12_keys: ChaCha20 IV of 8 bytes"),
    ("tlexport/key_derivator.py", "        \"server_write_key\": key_block[mac_length * 2 + key_length: mac_length * 2 + key_length * 2],", "        \"server_write_key\": key_block[mac_length * 2: mac_length * 2 + key_length],", "dev_tls_10_11_keys: server key = client key", 0),
    ("tlexport/key_derivator.py", "    if use_aead:\n        mac_length = 0\n\n    key_block = prf_ssl_30(", "    if use_aead:\n        mac_length = 1\n\n    key_block = prf_ssl_30(", "dev_ssl_30_keys: AEAD flag leaves a 1-byte MAC key"),
    ("tlexport/key_derivator.py", "    iv_label_len = b'\\x08'", "    iv_label_len = b'\\x09'", "dev_tls_13_keys: wrong label length in the IV info"),
    ("tlexport/key_derivator.py", "    key_label = b'tls13 key'", "    key_label = b'tls13 kex'", "dev_tls_13_keys: wrong key label"),
    ("tlexport/quic/quic_key_generation.py", "    lable_len = len(label) + 6", "    lable_len = len(label) + 5", "make_info: label length without the prefix's last byte"),
    ("tlexport/quic/quic_key_generation.py", "0dede3def700a6db819381be6e269dcbf9bd2ed9", "0dede3def700a6db819381be6e269dcbf9bd2ed8", "dev_initial_keys: v2 salt off by one bit"),
    ("tlexport/quic/quic_key_generation.py", "    client_initial = HKDFExpand(hash_fun, 32, info=make_info(b\"client in\", 32)).derive(initial_secret)", "    client_initial = HKDFExpand(hash_fun, 32, info=make_info(b\"server in\", 32)).derive(initial_secret)", "dev_initial_keys: client secret from the server label"),
    ("tlexport/quic/quic_key_generation.py", "    server_n = decryptor_n.keys[4]", "    server_n = decryptor_n.keys[5]", "key_update: server secret taken from the client's"),
    ("tlexport/quic/quic_key_generation.py", "        hp_info = make_info(b\"quic hp\", key_length)", "        hp_info = make_info(b\"quic hq\", key_length)", "dev_quic_keys: wrong header-protection label"),
    ("tlexport/quic/quic_key_generation.py", "        \"client_application_sec\": client_application_secret,", "        \"client_application_sec\": server_application_secret,", "dev_quic_keys: client secret entry holds the server's"),
    # group Reasm2: the framing part of extract_*_buf (the two functions are copies: the n-th occurrence of the text)
    ("tlexport/session.py", "            packet_ranges.append((total_packet_len, total_packet_len + packet_len, i))", "            packet_ranges.append((total_packet_len, total_packet_len + packet_len + 1, i))", "extract_server_frame: packet ranges one byte too long", 0),
    ("tlexport/session.py", "            if total_packet_len - index < 5:", "            if total_packet_len - index < 4:", "extract_client_frame: four trailing bytes taken for a record header", 1),
    ("tlexport/session.py", "                    if index < packet_range[1] and index + record_len > packet_range[0]:", "                    if index <= packet_range[1] and index + record_len > packet_range[0]:", "extract_server_frame: a packet that ends where the record starts counted as a carrier", 0),
    ("tlexport/session.py", "                binary = packet_data[index:index + record_len]", "                binary = packet_data[index:index + record_len - 1]", "extract_client_frame: record one byte short", 1),
    ("tlexport/session.py", "            record_len = int.from_bytes(record_len, 'big') + 5", "            record_len = int.from_bytes(record_len, 'big') + 4", "extract_server_frame: need_data scan with 4-byte record headers", 0),
    ("tlexport/session.py", "            self.client_packet_buffer.clear()", "            pass", "extract_client_frame: buffer kept after delivery"),
    # group TlsSess2: the record handlers of session.py, whole
    ("tlexport/session.py", "        if self.server_cipher_change and isserver and self.can_decrypt:", "        if self.server_cipher_change and isserver:", "handle_handshake_finished: decrypts although the session cannot decrypt"),
    ("tlexport/session.py", "        if self.exp_meta and _plaintext != b\"\":", "        if _plaintext != b\"\":", "handle_handshake_finished: exports without the meta-data flag"),
    ("tlexport/session.py", "        if self.server_cipher_change or self.client_cipher_change:", "        if self.server_cipher_change and self.client_cipher_change:", "handle_tls_handshake_record: encrypted handshake only after both ChangeCipherSpecs"),
    ("tlexport/session.py", "                    logging.warning(f\"Could not handle ServerHello, session cannot be decrypted\")\n                    self.can_decrypt = False", "                    logging.warning(f\"Could not handle ServerHello, session cannot be decrypted\")\n                    pass", "handle_tls_handshake_record: a failed ServerHello leaves can_decrypt set"),
    ("tlexport/session.py", "        index += session_id_length + 1", "        index += session_id_length", "handle_tls_server_hello: session id length byte not skipped"),
    ("tlexport/session.py", "            extensions_index += extension_length + 4", "            extensions_index += extension_length + 2", "handle_tls_server_hello: extension header taken as 2 bytes"),
    ("tlexport/session.py", "        if self.extensions.get(bytes.fromhex(\"002b\")) == bytearray.fromhex(\"0304\"):", "        if self.extensions.get(bytes.fromhex(\"002b\")) == bytearray.fromhex(\"0303\"):", "handle_tls_server_hello: supported_versions 0x0303 taken for TLS 1.3"),
    ("tlexport/session.py", "        self.compression_method = record.binary[index + 2]", "        self.compression_method = record.binary[index + 3]", "handle_tls_server_hello: compression method read one byte late"),
    ("tlexport/session.py", "            if len(buffer) < length + 4:", "            if len(buffer) < length:", "handle_decrypted_tls_13_handshake_record: incomplete message consumed"),
    ("tlexport/session.py", "            if handshake_type == 20:", "            if handshake_type == 24:", "handle_decrypted_tls_13_handshake_record: keys updated on KeyUpdate instead of Finished"),
    ("tlexport/session.py", "            self.handshake_13_buffer[isserver] = buffer\n            if handshake_type == 20:\n                self.decryptor.update_keys(isserver)\n", "            if handshake_type == 20:\n                self.decryptor.update_keys(isserver)\n            self.handshake_13_buffer[isserver] = buffer\n", "handle_decrypted_tls_13_handshake_record: buffer stored after update_keys (a raise loses the consumed message)"),
    ("tlexport/session.py", "            plaintext = plaintext.rstrip(b'\\x00')", "            plaintext = plaintext.rstrip(b'\\x01')", "handle_tls_13_application_record: padding not stripped"),
    ("tlexport/session.py", "            if subrecord_type == b'\\x17':", "            if subrecord_type == b'\\x18':", "handle_tls_13_application_record: application data under the wrong content type"),
    ("tlexport/session.py", "        self.application_traffic.append((plaintext, record, isserver))", "        self.application_traffic.append((plaintext, record, not isserver))", "handle_tls_application_record: direction inverted"),
    ("tlexport/session.py", "                if isserver:\n                    self.server_cipher_change = True\n                else:\n                    self.client_cipher_change = True", "                if isserver:\n                    self.client_cipher_change = True\n                else:\n                    self.server_cipher_change = True", "handle_tls_record: ChangeCipherSpec recorded for the other direction"),
    ("tlexport/session.py", "                if self.can_decrypt and self.decryptor is not None:", "                if self.decryptor is not None:", "handle_tls_record: application data decrypted although can_decrypt is off"),
    ("tlexport/session.py", "                        case TlsVersion.TLS12 | TlsVersion.TLS11 | TlsVersion.TLS10 | TlsVersion.SSL30:", "                        case TlsVersion.TLS12 | TlsVersion.TLS11 | TlsVersion.TLS10:", "handle_tls_record: SSL 3.0 application data not handled"),
    ("tlexport/session.py", "                if len(record.binary) > 0:\n                    self.handle_alert(record.binary[0])", "                if len(record.binary) > 1:\n                    self.handle_alert(record.binary[0])", "handle_tls_record: one-byte alerts ignored"),
    ("tlexport/session.py", "                    self.handle_tls_record(record, True)", "                    self.handle_tls_record(record, False)", "get_tls_records: server records handled as the client's"),
    ("tlexport/tlsrecord.py", "        self.binary = binary[5:]", "        self.binary = binary[4:]", "TlsRecord: body starts inside the header"),
]

# behaviour-preserving rewrites: (file, [(old, new)…], what)
REWRITES = [
    ("tlexport/decryptor.py", [('        self.get_cipher_type()\n        self.parse_keys(keys)\n', '        self.parse_keys(keys)\n        self.get_cipher_type()\n')], 'Decryptor.__init__: parse_keys before get_cipher_type'),
    ("tlexport/quic/quic_session.py", [('            case b"\\x13\\x01":\n                self.hash_fun = SHA256\n                self.cipher = AESGCM\n                self.key_length = 16\n\n            # TLS_AES_256_GCM_SHA384\n            case b"\\x13\\x02":\n                self.hash_fun = SHA384\n                self.cipher = AESGCM\n                self.key_length = 32\n', '            case b"\\x13\\x02":\n                self.hash_fun = SHA384\n                self.cipher = AESGCM\n                self.key_length = 32\n\n            case b"\\x13\\x01":\n                self.hash_fun = SHA256\n                self.cipher = AESGCM\n                self.key_length = 16\n')], 'set_tls_decryptors: the first two cases in the other order'),
    ("tlexport/dpkt_dsb.py", [('        dpkt.Packet.unpack(self, buf)\n        if self.len > len(buf):\n            raise dpkt.NeedData\n\n        # packet data', '        dpkt.Packet.unpack(self, buf)\n        if len(buf) < self.len:\n            raise dpkt.NeedData\n\n        # packet data')], 'DecryptionSecretBlock: `len(buf) < self.len`'),
    ("tlexport/dpkt_dsb.py", [('        opts_offset = po + dpng._align32b(self.secrets_length)\n        self._do_unpack_options(buf, opts_offset)', '        self._do_unpack_options(buf, po + dpng._align32b(self.secrets_length))')], 'DecryptionSecretBlock: options offset inline'),
    ("tlexport/session.py", [('            if secret.client_random.lower() == self.client_random.hex().lower():', '            if self.client_random.hex().lower() == secret.client_random.lower():')], 'find_session_secrets: comparison operands swapped'),
    ("tlexport/session.py", [('        if len(secret_list) == 0:\n            logging.error(f"Missing Secrets', '        if 0 == len(secret_list):\n            logging.error(f"Missing Secrets')], 'generate_keys select: `0 == len(...)`'),
    ("tlexport/main.py", [('        i = i.replace(",", "") # if somebody is using a "," as seperator\n        split = i.split(":")', '        split = i.replace(",", "").split(":")')], 'get_port_map: comma removal and split in one expression'),
    ("tlexport/main.py", [('        if values:\n            setattr(namespace, self.dest, values)', '        if len(values) != 0:\n            setattr(namespace, self.dest, values)')], 'MapPortsAction: `len(values) != 0` for `values`'),
    ("tlexport/keylog_reader.py", [('    for line in lines:\n        key = get_key_from_line(line)\n        if key is not None:\n            keys.append(key)', '    for line in lines:\n        key = get_key_from_line(line)\n        if key is None:\n            continue\n        keys.append(key)')], 'get_keys_from_string: `continue` on a line that is no key'),
    ("tlexport/main.py", [('    if packet.dport in server_ports or packet.sport in server_ports:\n        sessions.append(', '    if packet.sport in server_ports or packet.dport in server_ports:\n        sessions.append(')], 'main.handle_packet: port tests swapped'),
    ("tlexport/quic/quic_session.py", [('                if isserver:\n                    self.server_cids.add(frame.connection_id)\n                else:\n                    self.client_cids.add(frame.connection_id)', '                if not isserver:\n                    self.client_cids.add(frame.connection_id)\n                else:\n                    self.server_cids.add(frame.connection_id)')], 'handle_frame: NEW_CONNECTION_ID branches swapped under `not`'),
    ("tlexport/quic/quic_session.py", [('                    case QuicPacketType.HANDSHAKE | QuicPacketType.RTT_O:', '                    case QuicPacketType.RTT_O | QuicPacketType.HANDSHAKE:')], 'decrypt_packet: `HANDSHAKE | RTT_O` written `RTT_O | HANDSHAKE`'),
    ("tlexport/quic/quic_dissector.py", [("                pn_offset = 1 + len(guessed_dcid)\n                sample_offset = pn_offset + 4\n                sample = datagram_data[sample_offset:sample_offset + 16]\n",
                                          "                pn_offset = len(guessed_dcid) + 1\n                sample = datagram_data[pn_offset + 4:pn_offset + 4 + 16]\n")],
     "extract_quic_packet: short-header sample offset inlined"),
    ("tlexport/cipher_suite_parser.py", [("        if not added_part:", "        if added_part == 0:")], "split_cipher_suite: `not added_part` written `added_part == 0`"),
    ("tlexport/checksums.py", [("        first = checksum >> 16\n        last = checksum & 0xFFFF\n        checksum = first + last",
                                "        checksum = (checksum & 0xFFFF) + (checksum >> 16)")], "ones_complement_checksum: fold in one line, operands swapped"),
    ("tlexport/quic/quic_frame.py", [("        index = self.length\n\n        self.length += self.crypto_length\n        self.crypto = payload[index: self.length]",
                                      "        index = self.length\n        end = index + self.crypto_length\n        self.crypto = payload[index: end]\n        self.length = end")],
     "CryptoFrame: the end of the data computed first"),
    ("tlexport/quic/quic_frame.py", [("    while len(payload) != 0:", "    while not len(payload) == 0:")], "parse_frames: loop test spelled with `not … ==`"),
    ("tlexport/quic/quic_session.py", [("            if out_pkn > self.packet_number_client[PACKET_TYPE_MAP[quic_packet.packet_type]]:\n", "            if out_pkn >= self.packet_number_client[PACKET_TYPE_MAP[quic_packet.packet_type]]:\n")],
     "set_largest_packet_number: `>=` for `>` (storing an equal number changes nothing)"),
    ("tlexport/quic/quic_session.py", [(r"\blargest_pkn\b", "largest", "re")], "get_full_packet_number: local renamed"),
    ("tlexport/session.py", [("        self.server_cipher_change = False\n        self.client_cipher_change = False\n        self.handshake_13_buffer = {}\n",
                              "        self.client_cipher_change = False\n        self.server_cipher_change = False\n        self.handshake_13_buffer = {}\n")],
     "handle_tls_client_hello: two independent statements swapped"),
    ("tlexport/quic/quic_session.py", [("if candidate_pkn <= expected_pkn - pkn_hwindow and", "if not candidate_pkn > expected_pkn - pkn_hwindow and")],
     "get_full_packet_number: `a <= b` written `not a > b`"),
    ("tlexport/quic/quic_session.py", [("if len(dcid) > 0 and dcid in self.server_cids and dcid not in self.client_cids:",
                                        "if 0 < len(dcid) and dcid in self.server_cids and dcid not in self.client_cids:")],
     "packet_isserver: `len(dcid) > 0` written `0 < len(dcid)`"),
    ("tlexport/session.py", [("        if alert_level == 0x1 and self.tls_version != TlsVersion.TLS13:\n            return\n        self.can_decrypt = False\n        self.client_hello_seen = False\n",
                              "        if not (alert_level == 0x1 and self.tls_version != TlsVersion.TLS13):\n            self.can_decrypt = False\n            self.client_hello_seen = False\n")],
     "handle_alert: early return turned into a guarded block"),
    ("tlexport/key_derivator.py", [("        secret_block = secret_block + h.finalize()", "        secret_block += h.finalize()")], "prf_tls_12: `x = x + y` written `x += y`"),
    ("tlexport/key_derivator.py", [("    if use_aead:\n        mac_length = 0\n\n    key_block = prf_tls_12(", "    if use_aead != 0:\n        mac_length = 0\n\n    key_block = prf_tls_12(")], "dev_tls_12_keys: truthiness written `!= 0`"),
    ("tlexport/key_derivator.py", [("    h = hmac.HMAC(pm_secret, mac())\n    h.update(a1)\n    a2 = h.finalize()\n\n    h = hmac.HMAC(pm_secret, mac())\n    h.update(a1 + seed)\n    p1 = h.finalize()\n", "    h = hmac.HMAC(pm_secret, mac())\n    h.update(a1 + seed)\n    p1 = h.finalize()\n\n    h = hmac.HMAC(pm_secret, mac())\n    h.update(a1)\n    a2 = h.finalize()\n")], "gen_master_secret_tls_12: two independent blocks swapped"),
    ("tlexport/quic/quic_output_builder.py", [("            if frame.src_packet.ts == ts and frame.src_packet.isserver == isserver:", "            if frame.src_packet.isserver == isserver and frame.src_packet.ts == ts:")], "QUICOutputbuilder.build: operands of `and` swapped"),
    ("tlexport/output_builder.py", [("        record_len = len(decrypted)\n        packet_count = len(ts)\n", "        packet_count = len(ts)\n        record_len = len(decrypted)\n", 0)], "build_server_packet: two independent statements swapped"),
    ("tlexport/decryptor.py", [("    for i in range(len(a)):", "    for i in range(0, len(a)):")], "Dec.byte_xor: explicit range start"),
    ("tlexport/decryptor.py", [("            self.server_key = self.server_application_key\n            self.server_iv = self.server_application_iv\n", "            self.server_iv = self.server_application_iv\n            self.server_key = self.server_application_key\n")], "update_keys: two independent statements swapped"),
    ("tlexport/quic/quic_tls_parser.py", [("        if len(record) < 6:\n            return\n", "        if 6 > len(record):\n            return\n")], "handle_encrypted_extensions: comparison turned around"),
    ("tlexport/session.py", [("                metadata = []\n                record_len = packet_data[index + 3: index + 5]", "                record_len = packet_data[index + 3: index + 5]\n                metadata = []", 0)],
     "extract_server_frame: two independent statements swapped"),
    ("tlexport/session.py", [("        if self.server_cipher_change and isserver and self.can_decrypt:", "        if isserver and self.server_cipher_change and self.can_decrypt:")], "handle_handshake_finished: operands of `and` reordered"),
    ("tlexport/session.py", [("                if len(record.binary) > 0:\n                    self.handle_alert(record.binary[0])", "                if len(record.binary) != 0:\n                    self.handle_alert(record.binary[0])")], "handle_tls_record: `len(\u2026) > 0` written `len(\u2026) != 0`"),
    ("tlexport/session.py", [("            length = int.from_bytes(buffer[1:4], 'big')", "            length = int.from_bytes(buffer[1:4], byteorder='big')")], "handle_decrypted_tls_13_handshake_record: byteorder given by keyword"),
]


def group_of(what):
    """the group(s) whose theorems a mutation/rewrite labelled `what` concerns"""
    fn = what.split(":")[0]
    if fn == "get_cipher_type":
        return ["Decrypt", "Decrypt2"]          # translated in both (over two different state records)
    table = {"get_header_type": ["QuicDissect", "QuicDissect2"], "get_packet_type": ["QuicDissect", "QuicDissect2"],
             "decode_variable_length_int": ["Varint", "Frames", "QuicDissect2"],
             "get_variable_length_int_length": ["Varint", "Frames", "QuicDissect2"],
             "byte_xor": ["QuicDissect2"], "remove_header_protection": ["QuicDissect2"], "extract_quic_packet": ["QuicDissect2"], "get_full_packet_number": ["Pn"], "set_largest_packet_number": ["Pn"], "check_key_epoch": ["QuicSess"],
             "packet_isserver": ["QuicSess"], "matches_session_dgram": ["QuicSess"], "handle_alert": ["TlsSess", "TlsSess2"],
             "handle_tls_client_hello": ["TlsSess", "TlsSess2"], "server hello": ["TlsSess", "TlsSess2"],
             **{f: ["TlsSess2"] for f in ("handle_handshake_finished", "handle_tls_handshake_record", "handle_tls_server_hello",
                                          "handle_decrypted_tls_13_handshake_record", "handle_tls_13_application_record",
                                          "handle_tls_application_record", "handle_tls_record", "get_tls_records", "TlsRecord")}, "set_client_and_server_ports": ["Ports"],
             "matches_session": ["Demux"], "run": ["Demux"], "OutputBuilder": ["Ports"], "QUICOutputbuilder": ["Ports"],
             "Session.handle_packet": ["Reasm"], "extract_server_buf": ["Reasm"], "extract_client_buf": ["Reasm"],
             "PACKET_TYPE_MAP": ["Pn"], "set_packet_number_spaces": ["Pn"]}
    if fn in ("split_cipher_suite", "cipher_suite_parts", "cipher_suites"):
        return ["Suites"]
    if fn in ("ones_complement_checksum", "calculate_checksum_udp", "calculate_checksum_tcp"):
        return ["Checksum"]
    if fn in ("parse_frames", "frame_type") or fn.endswith("Frame"):
        return ["Frames"]
    if fn in ("prf_tls_12", "prf_tls_10_11", "prf_ssl_30", "gen_master_secret_tls_12", "dev_tls_12_keys", "dev_tls_10_11_keys", "dev_ssl_30_keys",
              "dev_tls_13_keys", "make_info", "dev_initial_keys", "key_update", "dev_quic_keys"):
        return ["KeySched"]
    if fn in ("QUICOutputbuilder.build", "build_server_packet", "build_client_packet", "build_ack_handshake", "OutputBuilder.build"):
        return ["Builders"]
    if fn in ("Dec.byte_xor", "get_cipher_type", "update_keys", "decrypt_tls13_aead", "decrypt_tls13_stream_cipher", "decrypt_tls12_aead",
              "decrypt_tls12_chacha20", "Decryptor.decrypt"):
        return ["Decrypt"]
    if fn == "set_tls_decryptors":
        return ["QuicSess3"]
    if fn in ("parse_keys", "Decryptor.__init__"):
        return ["Decrypt2"]

    if fn == "DecryptionSecretBlock":
        return ["Dsb"]
    if fn in ("find_session_secrets", "generate_keys select", "generate_keys block_size", "generate_keys install"):
        return ["TlsKeys"]
    if fn in ("get_port_map", "MapPortsAction", "server_ports"):
        return ["Opts"]
    if fn in ("Key", "get_key_from_line", "get_keys_from_string"):
        return ["Keylog"]
    if fn.startswith("main."):
        return ["Demux", "Main2"] if "(fragment)" in what else ["Main2"]
    if fn in ("decrypt_packet", "handle_frame", "QuicSession.handle_quic_packet", "handle_crypto_frame", "QuicSession.handle_packet", "set_initial_decryptor"):
        return ["QuicSess2"]
    if fn in ("get_quic_transport_parameters", "get_extensions", "handle_client_hello", "handle_server_hello", "handle_encrypted_extensions", "handle_record"):
        return ["QuicTls"]
    if fn in ("extract_server_frame", "extract_client_frame"):
        return ["Reasm2"]
    if fn in ("extract_server_buf", "extract_client_buf") and "next_seq" in what:
        return ["Reasm", "Reasm2"]
    if fn == "handle_quic_packet":
        # (the session loop is translated twice: its tests as fragments in Demux, the loop as a whole in Main2)
        return ["QuicDissect"] if "long header read" in what else ["Demux", "Main2"]
    return table[fn]


def theorem_of_line(path):
    names, cur = {}, None
    for ln, line in enumerate(open(path).read().splitlines(), 1):
        m = re.match(r"\s*theorem\s+(\S+)", line)
        if m:
            cur = m.group(1)
        elif re.match(r"\s*example\b", line):
            cur = (cur or "?").replace(" (example)", "") + " (example)"
        elif re.match(r"(/--|def |/-!)", line):
            cur = None
        names[ln] = cur
    return names


def build_props(root):
    """regenerate from `root`, build every group's theorem module in one lake run →
    (overall 'proved' | 'untranslatable' | 'proof-fails', details, set of groups that do not build)"""
    failed, det, st = set(), [], "proved"
    try:
        translate.regen(root)
    except translate.TranslatorProblem as e:
        st, det = "untranslatable", [p["error"] for p in e.problems]
        failed |= {p["group"] for p in e.problems}
    rc, out = fw.lake(["build"] + translate.MODULES)
    if rc != 0:
        st = "proof-fails" if st == "proved" else st
        for m in re.finditer(r"^- TLX\.(?:Props|Lemmas|Gen)\.Translated\.(\w+)\s*$", out, re.M):
            failed.add(m.group(1))
        for m in re.finditer(r"error: TLX/(Props|Lemmas|Gen)/Translated/(\w+)\.lean:(\d+):", out):
            kind, g, ln = m.group(1), m.group(2), int(m.group(3))
            failed.add(g)
            t = (theorem_of_line(os.path.join(fw.LEAN, "TLX", "Props", "Translated", g + ".lean")).get(ln)
                 if kind == "Props" else f"{kind}/Translated/{g}.lean:{ln}")
            if t and t not in det:
                det.append(t)
        if not failed:
            det = [l for l in out.splitlines() if "error" in l][:3]
            failed.add("?")
    for g, deps in translate.GROUP_DEPS.items():
        if failed & set(deps):
            failed.add(g)                                     # its dependency does not build: neither does it
    return st, det, failed


def edit(root, file, pairs):
    path = os.path.join(root, file)
    text = open(path).read()
    for p in pairs:
        old, new = p[0], p[1]
        if len(p) == 3 and isinstance(p[2], int):
            # the text occurs several times (extract_server_buf / extract_client_buf are copies): the p[2]-th occurrence
            parts = text.split(old)
            assert len(parts) > p[2] + 1, (file, old, len(parts) - 1)
            text2 = old.join(parts[:p[2] + 1]) + new + old.join(parts[p[2] + 1:])
        elif len(p) == 3:
            text2 = re.sub(old, new, text)
            assert text2 != text, (file, old)
        else:
            assert text.count(old) == 1, (file, old, text.count(old))
            text2 = text.replace(old, new)
        text = text2
    compile(text, path, "exec")
    open(path, "w").write(text)


def mutation_test(only=None):
    """`only`: a set of groups — run just the mutations / rewrites that concern one of them (`--groups=A,B`)"""
    muts = [m for m in MUTATIONS if only is None or set(group_of(m[3])) & only]
    rews = [r for r in REWRITES if only is None or set(group_of(r[2])) & only]
    # the scratch copy is a worktree of the commit the tree under test (`TLX_REPO`, default /repo) stands at
    base = os.path.realpath(fw.REPO)
    head = subprocess.run(["git", "-C", base, "rev-parse", "HEAD"], check=True, capture_output=True, text=True).stdout.strip()
    print(f"  base tree: {base} at {head[:7]}")
    subprocess.run(["git", "-C", "/repo", "worktree", "remove", "--force", SCRATCH], capture_output=True)
    subprocess.run(["git", "-C", "/repo", "worktree", "add", "--detach", SCRATCH, head], check=True, capture_output=True)
    rows, ok = [], True
    try:
        st, det, failed = build_props(SCRATCH)
        print(f"  unmodified copy: {st}")
        ok &= st == "proved"
        for file, old, new, what, *nth in muts:
            t0 = time.time()
            edit(SCRATCH, file, [(old, new, *nth)])
            st, det, failed = build_props(SCRATCH)
            subprocess.run(["git", "-C", SCRATCH, "checkout", "--", file], check=True)
            caught = st != "proved"
            expected = set(group_of(what))
            for g, deps in translate.GROUP_DEPS.items():          # … and the groups that call into it
                if expected & set(deps):
                    expected.add(g)
            scoped = failed == expected                        # exactly these fail, all others build
            ok &= caught and scoped
            rows.append({"kind": "mutation", "what": what, "outcome": st, "where": det[:4], "failed_groups": sorted(failed), "scoped": scoped})
            print(f"  MUTATION {'caught' if caught else 'MISSED'} [{st}] groups failing: {sorted(failed)} "
                  f"{'(only its own)' if scoped else 'SCOPE VIOLATED, expected ' + str(sorted(expected))} {what}: "
                  f"{'; '.join(str(d)[:120] for d in det[:3])}  ({time.time() - t0:.1f} s)")
        for file, pairs, what in rews:
            t0 = time.time()
            edit(SCRATCH, file, pairs)
            st, det, failed = build_props(SCRATCH)
            subprocess.run(["git", "-C", SCRATCH, "checkout", "--", file], check=True)
            rows.append({"kind": "rewrite", "what": what, "outcome": st, "where": det[:4], "failed_groups": sorted(failed)})
            note = "still proved" if st == "proved" else ("loud: outside the subset" if st == "untranslatable" else "FALSE ALARM of the proof stage (harmless rewrite, proof script too rigid)")
            print(f"  REWRITE {note} [{st}] {what}: {'; '.join(str(d)[:120] for d in det[:3])}  ({time.time() - t0:.1f} s)")
    finally:
        subprocess.run(["git", "-C", "/repo", "worktree", "remove", "--force", SCRATCH], capture_output=True)
        st, det, failed = build_props(base)                  # leave the generated files as the unmodified tree gives them
        print(f"  restored from {base}: {st}")
        ok &= st == "proved"
    return ok, rows


def expect_broken(groups):
    """`--expect-broken=Pn`: regenerate from the tree under test and assert that exactly these groups do not build"""
    st, det, failed = build_props(fw.REPO)
    print(f"repo under test: {fw.REPO}\noutcome: {st}; groups that do not build: {sorted(failed)}; expected: {sorted(groups)}")
    for d in det[:6]:
        print("  ", str(d)[:300])
    ok = failed == set(groups)
    print("RESULT", "ok (exactly the expected groups are broken)" if ok else "FLAGGED")
    return 0 if ok else 1


def main():
    for a in sys.argv[1:]:
        if a.startswith("--expect-broken="):
            return expect_broken([g for g in a.split("=", 1)[1].split(",") if g])
    t0 = time.time()
    ctx = fw.Ctx("C16", os.environ.get("VERIF_TIER", "quick"), int(os.environ.get("VERIF_SEED", "0") or 0))
    translate.regen_into(ctx)
    ok = ctx.prove(translate.MODULES)
    ctx.require_theorems(translate.THEOREMS)
    # the per-check wiring covers every group, names only existing theorems, and filters translator problems by group
    used = {g for gs in translate.CHECK_GROUPS.values() for g in gs}
    assert used == set(translate.GROUPS), used
    for c, (mods, thms) in translate.BY_CHECK.items():
        assert mods and all(t in ctx.theorems for t in thms), (c, [t for t in thms if t not in ctx.theorems])
    t1 = time.time()
    print(f"repo under test: {fw.REPO}")
    print(f"generated: {ctx.gen_tables}")
    print(f"proof stage: {'ok' if ok and not ctx.proof_problems else 'BROKEN'}  theorems audited: {len(ctx.theorems)}  "
          f"required: {len(translate.THEOREMS)}  translated definitions: {len(translate.SPECS)}  ({t1 - t0:.1f} s)")
    for p in ctx.proof_problems[:10]:
        print("  PROOF-PROBLEM", json.dumps(p)[:600])
    st = (translate.selftest(n=int(os.environ.get("TR_SELFTEST_N", "60")), seed=ctx.seed) if "--no-cpython" not in sys.argv
          else {"cases": 0, "functions": 0, "mismatches": [], "refused": 0})
    print(f"translator vs CPython: {st['cases']} cases over {st['functions']} functions, {len(st['mismatches'])} mismatches; "
          f"{st['refused']} sources outside the subset refused ({time.time() - t1:.1f} s)")
    for m in st["mismatches"][:5]:
        print("  MISMATCH", json.dumps(m)[:600])
    bad = bool(ctx.proof_problems or st["mismatches"])
    if "--no-mutations" not in sys.argv:
        t2 = time.time()
        print("mutation test (scratch worktree of /repo):")
        only = next((set(a.split("=", 1)[1].split(",")) for a in sys.argv[1:] if a.startswith("--groups=")), None)
        mok, rows = mutation_test(only)
        n_mut = sum(1 for r in rows if r["kind"] == "mutation")
        n_caught = sum(1 for r in rows if r["kind"] == "mutation" and r["outcome"] != "proved")
        n_scoped = sum(1 for r in rows if r["kind"] == "mutation" and r.get("scoped"))
        print(f"  mutations that break exactly their own group and no other: {n_scoped}/{n_mut}")
        print(f"  mutations caught by the proof stage: {n_caught}/{n_mut}; rewrites: "
              + ", ".join(f"{r['outcome']}" for r in rows if r["kind"] == "rewrite") + f"  ({time.time() - t2:.1f} s)")
        bad |= not mok
    print("RESULT", "FLAGGED" if bad else "ok")
    return 1 if bad else 0


if __name__ == "__main__":
    sys.exit(main())
