"""Driving the real TLExport program in-process (used by the end-to-end oracles of C09/C10).

`run(argv, cwd)` resets the four module-level lists of `tlexport.main` (they survive a `run()`),
sets `sys.argv`, optionally changes the working directory, silences stdout and calls the real
`tlexport.main.run()`. Result: ("ok",) | ("exit", code) | ("crash", ExceptionName, text)."""
import io
import contextlib
import os
import sys


def run(argv, cwd=None):
    import tlexport.main as m
    m.server_ports[:] = [443, 44330]
    m.keylog.clear()
    m.sessions.clear()
    m.quic_sessions.clear()
    old_argv, old_cwd = sys.argv, os.getcwd()
    sys.argv = ["tlexport"] + [str(a) for a in argv]
    try:
        if cwd:
            os.chdir(cwd)
        with contextlib.redirect_stdout(io.StringIO()), contextlib.redirect_stderr(io.StringIO()):
            try:
                m.run()
                return ("ok",)
            except SystemExit as e:
                return ("exit", e.code)
            except Exception as e:  # noqa
                return ("crash", type(e).__name__, str(e)[:200])
    finally:
        sys.argv = old_argv
        os.chdir(old_cwd)


def keylog_after_run():
    """The global key list the last `run()` accumulated (file keys followed by DSB keys)."""
    import tlexport.main as m
    return list(m.keylog)
