"""Standalone run of the output-bytes work package (model `TLX.OutBytes`, theorems `TLX.Props.C06Bytes`):
   cd /root/wt/ob && PYTHONPATH=/repo:harness /venv/bin/python -W ignore harness/ob_selftest.py [--no-prove]"""
import logging
import sys
import time

import fw
import ob_outbytes as m

logging.disable(logging.CRITICAL)
ctx = fw.Ctx("C06", "thorough" if "--thorough" in sys.argv else "quick", int(__import__("os").environ.get("VERIF_SEED", "0")))
ctx.gen_tables.update(m.regen())     # BEFORE the proof stage: the theorems are checked against the tree under test
print("regenerated", ctx.gen_tables, "snaplen in run():", m.writer_snaplen())
if "--no-prove" not in sys.argv:
    t0 = time.time()
    ok = ctx.prove(m.MODULES)
    ctx.require_theorems(m.THEOREMS)
    print(f"prove({m.MODULES}) -> {ok} in {time.time() - t0:.1f}s; {len(ctx.theorems)} theorems audited")
t0 = time.time()
frames, files = m.correspond(ctx)
print(f"correspond {time.time() - t0:.1f}s: {frames} frames, {files} files compared")
for k, v in ctx.corr.items():
    print(f"  point {k}: {v}")
print("evaluations", ctx.evaluations, "distinct non-trivial", len(ctx.distinct))
for nme, d in ctx.distribution.items():
    print("  hist", nme, dict(sorted(d.items())[:16]))
print("proof problems:", ctx.proof_problems)
for d in ctx.disagreements[:6]:
    print("DISAGREE", {k: (str(v)[:300]) for k, v in d.items()})
sys.exit(1 if (ctx.proof_problems or ctx.disagreements) else 0)
