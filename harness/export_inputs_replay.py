"""Replays behind two hypotheses of lean/TLX/Props/ExportInputs.lean, on the REAL tool (toy world) and on the model
(`tlxdriver pipeline`, op `runfile` = `TLX.Export.exportFile`):

 1. `FloatResidue` of `export_container_independent` (C12): one TLS capture whose first packet sits at 2147483646.000009 s,
    written (a) as plain µs pcapng and (b) with if_tsresol 10^-7 and if_tsoffset −1000 (the instant found by harness/c12.py:
    the quotient ticks/1e7 exceeds 2^31 s, where a double resolves 0.48 µs). Are the two output files byte-identical?
 2. QUIC and the DSB position (`dsb_position_irrelevant_partial` excludes QUIC, `dsb_position_matters_to_the_quic_loop`):
    one QUIC connection, its secrets in a DSB in FRONT of the datagrams vs. BEHIND them.

    PYTHONPATH=$TLX_REPO:harness python harness/export_inputs_replay.py
"""
import random

import e2e
import fw
import gen_quic
import pipeline_corr
import quic_pipeline_corr as qp
import tool
import wire


def rows(out):
    return [] if not out else [(us, d["sport"], d["dport"], d["payload"]) for us, d in wire.read_output(out)]


def model(ctx, runs):
    lines = []
    for cap, kl in runs:
        lines += ["reset", "opt 0 0 0 - -", f"runfile 0 {kl.encode().hex() if kl else '-'} {cap.hex()}"]
    out = ctx.driver("pipeline", lines, timeout=600)
    return [out[3 * i + 2] for i in range(len(runs))]


def float_residue(ctx, seed=3):
    rng = random.Random(seed)
    with qp.both_worlds():
        sc = e2e.Scenario(rng, [(0x009C, "tls12", False)], sports=[443])
        kl = "\n".join(sc.keylog) + "\n"
        for shift in range(0, 40):                     # about 6 % of the microseconds of that second round differently
            base = 2147483646_000009 + shift - sc.items[0][1]
            items = [("pkt", ts + base, fr) for _, ts, fr in sc.items]
            a = wire.pcapng(items)
            b = wire.pcapng(items, tsresol=7, tsoffset=-1000)
            ra, rb = tool.run(a, kl, []), tool.run(b, kl, [])
            if ra.out != rb.out:
                break
        ma, mb = model(ctx, [(a, kl), (b, kl)])
    ta, tb = [r[0] for r in rows(ra.out)], [r[0] for r in rows(rb.out)]
    diff = [(x, y) for x, y in zip(ta, tb) if x != y]
    print(f"[C12] real tool: {len(ta)} / {len(tb)} frames exported; files identical: {ra.out == rb.out}; "
          f"time stamps that differ: {len(diff)} e.g. {diff[:2]}")
    print(f"[C12] model:     files identical: {ma == mb}; model = tool on (a): {ma == 'file:' + ra.out.hex()}, "
          f"on (b): {mb == 'file:' + rb.out.hex()}")
    return ra.out == rb.out, ma == mb


def quic_dsb_position(ctx, seed=1):
    rng = random.Random(seed)
    with qp.both_worlds():
        c, _f = gen_quic.random_connection(rng, 0, features={"endpoints": {"sport": 443}})
        items = [("pkt", ts, fr) for _, ts, fr in c.items]
        dsb = ("dsb", ("\n".join(c.keylog_lines()) + "\n").encode())
        front, back = wire.pcapng([dsb] + items), wire.pcapng(items + [dsb])
        rf, rb = tool.run(front, None, []), tool.run(back, None, [])
        mf, mb = model(ctx, [(front, None), (back, None)])
    print(f"[C09] real tool: DSB in front → {len(rows(rf.out))} frames; DSB behind → {len(rows(rb.out))} frames; "
          f"files identical: {rf.out == rb.out}")
    print(f"[C09] model = tool: front {mf == 'file:' + (rf.out.hex() if rf.out else '-')}, "
          f"behind {mb == 'file:' + (rb.out.hex() if rb.out else '-')}")
    return rf.out == rb.out


def main():
    ctx = fw.Ctx("C12", "quick", 0)
    fw.lake(["build", "tlxdriver"])
    float_residue(ctx)
    quic_dsb_position(ctx)


if __name__ == "__main__":
    main()
