"""Theorems of lean/TLX/Props/ExportPropsQuic.lean (+ instances in ExportPropsQuicEx.lean): the whole-program QUIC forms of
C08, C13, C10, C07 — statements about `TLX.Export.framesFrom` for ANY item list (TLS, QUIC, DSBs, ignored items mixed)."""
MODULES = ["TLX.Props.ExportPropsQuic", "TLX.Props.ExportPropsQuicEx"]
_P = "TLX.Props.ExportPropsQuic."
_COMMON = [_P + n for n in ["framesFrom_ok_quic", "qOk_all", "quicRun_inv", "mem_quicView", "classify_quic"]]
THEOREMS_C08 = _COMMON + [_P + n for n in [
    "export_cut_prefix_quic_items", "export_cut_prefix_quic_items_split", "export_cut_prefix_quic", "qFrames_ext",
    "quicRun_prefix_ext", "quicView_take_prefix", "feed_keeps", "feeds_keeps", "build_append_ext", "build_append_of_split",
    "groupRuns_append_of_ne", "Ex.full_view", "Ex.cut_view", "Ex.cut_not_prefix_witness"]]
THEOREMS_C13 = _COMMON + [_P + n for n in [
    "export_meta_only_adds_quic_items", "quicSess_meta", "quicLoop_meta", "feed_meta", "quicView_optMeta", "Ex.meta_view"]]
THEOREMS_C10 = _COMMON + [_P + n for n in ["export_ports_quic_items", "Ex.ports_view"]]
THEOREMS_C07 = _COMMON + [_P + n for n in [
    "export_time_and_ends_quic_items", "extract_pkts_ts", "stepPkt_added", "handleDatagram_added", "feed_added",
    "routed_of_take", "routed_new"]]
THEOREMS = sorted(set(THEOREMS_C08 + THEOREMS_C13 + THEOREMS_C10 + THEOREMS_C07))
