"""C10 — server-port selection and port mapping behave as documented.

proof:          lean/TLX/Props/C10.lean (tls_candidate_iff, server_role, exported_ports, exported_ports_quic,
                keep_iff_m_absent, commas_irrelevant, documented_defaults, …) over lean/TLX/Options.lean
correspondence: Lean `Options` vs the real code: option vectors through the real `arg_parser_init()` + `run()`
                (server_ports, keep_original_ports, portmap), `get_port_map`/`int()` on a malformed stream, the
                TLS candidate test + role assignment (`main.handle_packet`, `Session`, `QuicSession`), both
                builders' constructor port choice
oracle:         end to end on the real program: one capture with TLS connections to server ports 443, 44330, 8443,
                9443, 5000 and QUIC connections to 443 and 8443 under a matrix of -p / -m settings; which flows are
                exported and with which ports is compared with an independent reading of the property statement.
"""
import inspect
import itertools
import os
import random
import shutil
import tempfile

import fw
import extract
import mini_send as ms
import toolrun

THEOREMS = ["TLX.Props.C10.tls_candidate_iff", "TLX.Props.C10.server_role", "TLX.Props.C10.not_candidate_iff",
            "TLX.Props.C10.server_ports_effective", "TLX.Props.C10.keep_iff_m_absent", "TLX.Props.C10.commas_irrelevant",
            "TLX.Props.C10.dictGet_dictSet", "TLX.Props.C10.exported_ports", "TLX.Props.C10.exported_ports_quic",
            "TLX.Props.C10.quic_always_maps_counterexample", "TLX.Props.C10.documented_defaults"]

BUILTIN = (443, 44330)      # the documented built-in server ports
FALLBACK = 8080             # documented output port for server ports without a mapping
BARE = {443: 8080}          # documented meaning of a bare -m


def hx(s):
    b = s.encode("latin1") if isinstance(s, str) else bytes(s)
    return b.hex() if b else "-"


def opt(tokens):
    """line-protocol form of an option's value list (None = option absent)"""
    if tokens is None:
        return "-1"
    return " ".join([str(len(tokens))] + [hx(t) for t in tokens])


def render_map(d):
    return ",".join(f"{k}:{v}" for k, v in d.items()) if d else "-"


# ====================================================================== option vectors → the real run()
class RunProbe:
    """Runs the real `run()` on an empty capture and observes (server_ports, keep_original_ports, portmap)."""

    def __init__(self, work):
        import tlexport.main as m
        self.m = m
        self.cap = os.path.join(work, "empty.pcapng")
        open(self.cap, "wb").write(ms.pcapng([]))
        self.log = os.path.join(work, "empty.log")
        open(self.log, "w").write("")
        self.out = os.path.join(work, "probe.out")

    def __call__(self, argv_opts):
        m = self.m
        seen = {}
        real_init, real_map = m.arg_parser_init, m.get_port_map

        def init():
            ns = real_init()
            seen["keep"] = ns.keep_original_ports
            return ns

        def gpm(ns):
            r = real_map(ns)
            seen["map"] = dict(r)
            return r
        m.arg_parser_init, m.get_port_map = init, gpm
        try:
            res = toolrun.run(["-i", self.cap, "-s", self.log, "-o", self.out] + list(argv_opts))
            ports = list(m.server_ports)
        finally:
            m.arg_parser_init, m.get_port_map = real_init, real_map
        if res[0] == "ok":
            return f"ports={','.join(str(p) for p in ports)} keep={'true' if seen['keep'] else 'false'} map={render_map(seen['map'])}"
        if res[0] == "crash" and res[1] == "ValueError":
            return "err:value"
        if res[0] == "crash" and res[1] == "IndexError":
            return "err:index"
        return f"{res[0]}:{res[1]}"


def argv_for(p, m, rng):
    """An argument vector carrying `-p p…` and `-m m…` (None: absent) in either order, with another option between."""
    parts = []
    if p is not None:
        parts.append(["-p"] + list(p))
    if m is not None:
        parts.append(["-m"] + list(m))
    rng.shuffle(parts)
    out = []
    for i, part in enumerate(parts):
        out += part
        if i + 1 < len(parts) and rng.random() < 0.5:
            out += ["-d", "ERROR"]
    return out


def option_matrix():
    """Exhaustive small matrix: -m absent/bare/1/2/3 pairs × trailing commas × -p lists."""
    pairs = [("443", "9000"), ("8443", "9001"), ("9443", "9002")]
    ms_ = [None, []]
    for n in (1, 2, 3):
        for commas in itertools.product(("", ","), repeat=n):
            ms_.append([f"{a}:{b}{c}" for (a, b), c in zip(pairs[:n], commas)])
    ms_ += [["443:9000", "443:9001"], ["8443:1", "443:2", "8443:3"], ["443:8080,"], ["00443:08080"], ["+443:8_080"]]
    ps = [None, ["443"], ["8443"], ["8443", "9443"], ["9443", "8443", "443"], ["5000", "5000"], ["08443"], ["+8443", "9_443"]]
    return [(p, m) for p in ps for m in ms_]


def corr_options(ctx, work, scale):
    probe = RunProbe(work)
    cases = option_matrix()
    rng = ctx.rng
    # separate malformed stream through the real argument parser (values argparse lets through)
    bad_tokens = ["443", "443:", ":8080", "443:80:80", "a:b", "443:x", "x:8080", "443;8080", "443,8080", "443:8080,8443:9090",
                  ",", "::", "4 43:8080", " 443:8080", "443: 8080", "443:8080 ", "44_3:80", "_443:80", "443_:80", "4__43:80", "+443:+80",
                  "0x1bb:80", "443.0:80", "٤٤٣:80".encode("utf8").decode("latin1"), "", "１:２".encode("utf8").decode("latin1")]
    bad_ports = ["44x3", "", "4 43", " 8443", "8443 ", "84_43", "_8443", "0x20", "8443.0", "+8443", "99999999999999999999", "0"]
    malformed = []
    for _ in range(ctx.n(60, 1500) * scale):
        p = None if rng.random() < 0.4 else [rng.choice(bad_ports + ["8443", "9443"]) for _ in range(rng.randrange(1, 4))]
        m = None if rng.random() < 0.2 else [rng.choice(bad_tokens + ["443:9000", "8443:9001,"]) for _ in range(rng.randrange(0, 4))]
        malformed.append((p, m))
    p1 = ctx.point("options: argv → (server_ports, keep_original_ports, portmap) via run()")
    p2 = ctx.point("options: malformed -p/-m values via run()")
    for name, pt, cs in (("matrix", p1, cases), ("malformed", p2, malformed)):
        lines = [f"parse {opt(p)} {opt(m)}" for p, m in cs]
        replies = ctx.driver("options", lines)
        for (p, m), r in zip(cs, replies):
            argv = argv_for(p, m, rng)
            impl = probe(argv)
            pt["cases"] += 1
            ctx.count(("opt", name, tuple(p or ()), None if m is None else tuple(m)), nontrivial=(p is not None or m is not None))
            ctx.hist("opt_m", "absent" if m is None else "bare" if not m else f"{len(m)} values")
            ctx.hist("opt_result", impl.split("=")[0] if impl.startswith("ports") else impl)
            if impl != r:
                ctx.disagree(("options: argv → (server_ports, keep_original_ports, portmap) via run()" if name == "matrix" else
                              "options: malformed -p/-m values via run()"), {"p": p, "m": m, "argv": argv}, impl, r)
    ctx.sample({"option_vector": {"p": cases[37][0], "m": cases[37][1]}, "impl": probe(argv_for(*cases[37], rng))})
    # get_port_map and int() directly on arbitrary strings (no argparse in between)
    import argparse
    import tlexport.main as m
    p3 = ctx.point("get_port_map(Namespace) malformed stream")
    toks = []
    alpha = "0123456789" * 3 + ":::,,+-_ \t" + "ax"
    for _ in range(ctx.n(1500, 40000) * scale):
        k = rng.randrange(0, 4)
        vs = []
        for _ in range(k):
            if rng.random() < 0.5:
                vs.append(rng.choice(bad_tokens))
            else:
                vs.append("".join(rng.choice(alpha) for _ in range(rng.randrange(0, 9))))
        toks.append(vs)
    replies = ctx.driver("options", [f"portmap {opt(vs)}" for vs in toks])
    for vs, r in zip(toks, replies):
        ns = argparse.Namespace()
        # MapPortsAction stores the bare default for an empty list; drive the action itself
        try:
            m.MapPortsAction(option_strings=["-m"], dest="mapports", nargs="*")(None, ns, list(vs))
            impl = render_map(m.get_port_map(ns))
        except ValueError:
            impl = "err:value"
        except IndexError:
            impl = "err:index"
        p3["cases"] += 1
        ctx.count(("portmap", tuple(vs)), nontrivial=True)
        if impl != r:
            ctx.disagree("get_port_map(Namespace) malformed stream", {"values": vs}, impl, r)
    p4 = ctx.point("int(str)")
    strs = ["", "0", "007", "+5", "-5", "- 5", "+-5", "5_0", "_5", "5_", "5__0", " 5", "5 ", "\t5\n", "\x1c5", "5\x85", "\xa05", "5\x00", "²", "5a",
            "0x10", "1e3", "٣".encode("utf8").decode("latin1"), "+", "-", "_", "1_2_3", "99999999999999999999999"]
    alpha = "0123456789" * 4 + "+-_ \t\n\x0b\x1c\x85\xa0ax."
    for _ in range(ctx.n(1500, 40000) * scale):
        strs.append("".join(rng.choice(alpha) for _ in range(rng.randrange(0, 7))))
    replies = ctx.driver("options", [f"int {hx(s)}" for s in strs])
    for s, r in zip(strs, replies):
        try:
            impl = str(int(s))
        except ValueError:
            impl = "err"
        p4["cases"] += 1
        ctx.count(("int", s), nontrivial=True)
        if impl != r:
            ctx.disagree("int(str)", {"string": s}, impl, r)


# ====================================================================== flows and builders
def corr_flows(ctx, scale):
    import tlexport.main as m
    from tlexport.packet import Packet
    from tlexport.quic.quic_session import QuicSession
    rng = ctx.rng
    pool = [443, 44330, 8443, 9443, 5000, 40000, 50000, 80, 8080, 1, 65535]
    cases = []
    for sp in pool:
        for dp in pool:
            for ports in ([443, 44330], [443, 44330, 443], [443, 44330, 8443, 9443], [443, 44330, 5000, 40000], [], [443, 44330, -5, 70000]):
                cases.append((ports, sp, dp))
    for _ in range(ctx.n(500, 20000) * scale):
        ports = [443, 44330] + [rng.choice(pool + [rng.randrange(1, 65536)]) for _ in range(rng.randrange(0, 4))]
        sp, dp = (rng.choice(pool + ports + [rng.randrange(1, 65536)]) for _ in range(2))
        cases.append((ports, max(1, min(65535, sp)), max(1, min(65535, dp))))
    replies = ctx.driver("options", [f"flow {','.join(str(p) for p in ports) or '-'} {sp} {dp}" for ports, sp, dp in cases])
    pt = ctx.point("flow: handle_packet candidate test + Session/QuicSession role assignment")
    nq = len(inspect.signature(QuicSession.__init__).parameters) - 1
    saved = list(m.server_ports)
    try:
        for (ports, sp, dp), r in zip(cases, replies):
            m.server_ports[:] = ports
            pkt = Packet(ms.tcp_frame("10.0.0.1", "10.0.0.2", sp, dp, 1000, 2000, b"\x16\x03\x01\x00\x01\x00", ms.CMAC, ms.SMAC), 1.0)
            sessions = []
            m.handle_packet(pkt, None, [], sessions, {}, True, False)
            cand = len(sessions) == 1
            upkt = Packet(ms.udp_frame("10.0.0.1", "10.0.0.2", sp, dp, b"\xc0" + b"\x00" * 30, ms.CMAC, ms.SMAC), 1.0)
            q = QuicSession(*([upkt, m.server_ports, [], {}, True][:nq]))
            qrole = f"server={q.server_port} client={q.client_port} sender={'true' if q.server_ip == upkt.ip_src else 'false'}"
            want_role = r.split(" ", 1)[1]
            if cand:
                s = sessions[0]
                role = f"server={s.server_port} client={s.client_port} sender={'true' if s.server_ip == pkt.ip_src else 'false'}"
                impl = f"cand=true {role}"
            else:
                impl = "cand=false " + want_role       # no session: nothing to compare for the roles
            pt["cases"] += 1
            both = sp in ports and dp in ports
            ctx.count(("flow", tuple(ports), sp, dp), nontrivial=cand)
            ctx.hist("flow", "both" if both else "sport" if sp in ports else "dport" if dp in ports else "neither")
            if impl != r:
                ctx.disagree("flow: handle_packet candidate test + Session/QuicSession role assignment",
                             {"ports": ports, "sport": sp, "dport": dp, "proto": "tcp"}, impl, r)
            if qrole != want_role:
                ctx.disagree("flow: handle_packet candidate test + Session/QuicSession role assignment",
                             {"ports": ports, "sport": sp, "dport": dp, "proto": "quic"}, qrole, want_role)
    finally:
        m.server_ports[:] = saved


def corr_builders(ctx, scale):
    """Returns 'quic' if QUICOutputbuilder honours keep_original_ports, else 'quicold'."""
    from tlexport.output_builder import OutputBuilder
    from tlexport.quic.quic_output_builder import QUICOutputbuilder
    rng = ctx.rng
    has_keep = "keep_original_ports" in inspect.signature(QUICOutputbuilder.__init__).parameters
    kind = "quic" if has_keep else "quicold"
    cases = []
    maps = [{}, {443: 8080}, {443: 9000, 8443: 9001}, {8443: 9001}, {443: 443}, {5000: 1, 443: 2, 8443: 3}]
    for pm in maps:
        for sp in (443, 8443, 5000, 8080, 9000):
            for keep in (True, False):
                cases.append((keep, pm, sp, rng.randrange(1024, 65536)))
                cases.append((keep, pm, sp, rng.choice(list(pm) or [443])))     # the client port is listed in the map
    for _ in range(ctx.n(200, 5000) * scale):
        pm = {rng.choice((443, 8443, 9443, 5000, rng.randrange(1, 65536))): rng.randrange(1, 65536) for _ in range(rng.randrange(0, 4))}
        cases.append((rng.random() < 0.5, pm, rng.choice(list(pm) + [443, 8443, rng.randrange(1, 65536)]), rng.randrange(1024, 65536)))
    lines = []
    for keep, pm, sp, cp in cases:
        for k in ("tcp", kind):
            lines.append(f"out {k} {1 if keep else 0} {render_map(pm)} {sp} {cp}")
    replies = ctx.driver("options", lines)
    pt = ctx.point("builders: OutputBuilder / QUICOutputbuilder exported ports")
    pt["quic_builder_has_keep_original_ports"] = has_keep
    with fw.quiet():
        for n, (keep, pm, sp, cp) in enumerate(cases):
            t = OutputBuilder([], "10.0.0.2", "10.0.0.1", sp, cp, "02:00:00:00:00:02", "02:00:00:00:00:01", dict(pm), False, keep)
            args = [[], "10.0.0.2", "10.0.0.1", sp, cp, "02:00:00:00:00:02", "02:00:00:00:00:01", dict(pm), False] + ([keep] if has_keep else [])
            q = QUICOutputbuilder(*args)
            for j, b in enumerate((t, q)):
                impl = f"{b.server_port} {b.client_port}"
                pt["cases"] += 1
                if impl != replies[2 * n + j]:
                    ctx.disagree("builders: OutputBuilder / QUICOutputbuilder exported ports",
                                 {"builder": ("tcp", kind)[j], "keep": keep, "portmap": pm, "server_port": sp, "client_port": cp},
                                 impl, replies[2 * n + j])
            ctx.count(("builder", keep, tuple(pm.items()), sp), nontrivial=not keep)
            ctx.hist("builder", "keep" if keep else "mapped" if sp in pm else "fallback")
    return kind


# ====================================================================== end-to-end oracle
class Capture:
    """TLS connections to 443, 44330, 8443, 9443, 5000 and QUIC connections to 443 and 8443, interleaved in time."""
    TLS = [("t443", 12, 443, 40001), ("t44330", 13, 44330, 40002), ("t8443", 13, 8443, 40003), ("t9443", 12, 9443, 40004),
           ("t5000", 12, 5000, 40005), ("t44330lo", 12, 44330, 30000)]
    # incl. client ports numerically BELOW the server port (an ephemeral port below 44330, a low port towards 8443):
    # the server side is decided by the port list, never by which port is smaller
    QUIC = [("q443", 443, 50001), ("q8443", 8443, 50002), ("q44330lo", 44330, 40100), ("q8443lo", 8443, 7000)]

    def __init__(self, seed):
        rng = random.Random(seed)
        self.seed = seed
        self.flows = {}
        pkts, lines = [], []
        for i, (name, ver, sport, cport) in enumerate(self.TLS):
            c = ms.TcpConn(rng, cip=f"10.0.1.{i + 1}", sip="10.0.0.2", cport=cport, sport=sport, t0=1700000000_000000 + i * 300)
            (ms.tls12 if ver == 12 else ms.tls13)(c, [(0, f"GET /{name}".encode()), (1, f"reply {name}".encode())])
            self.flows[name] = ("tcp", sport, cport, c)
            pkts += c.pkts
            lines += c.keylog
        for i, (name, sport, cport) in enumerate(self.QUIC):
            q = ms.quic(ms.QuicConn(rng, cip=f"10.0.2.{i + 1}", sip="10.0.0.2", cport=cport, sport=sport, t0=1700000001_000000 + i * 300),
                        [(0, f"GET /{name}".encode()), (1, f"reply {name}".encode())])
            self.flows[name] = ("udp", sport, cport, q)
            pkts += q.pkts
            lines += q.keylog
        self.pkts = sorted(pkts)
        self.keylog = "".join(l + "\n" for l in lines)


def expected_ports(p_list, m_list):
    """Independent reading of the property: (selected server ports, exported server port per original port)."""
    selected = set(BUILTIN) | {int(x) for x in (p_list or [])}
    if m_list is None:
        mapping = None
    else:
        mapping = dict(BARE) if not m_list else {int(t.replace(",", "").split(":")[0]): int(t.replace(",", "").split(":")[1]) for t in m_list}

    def out_port(port):
        return port if mapping is None else mapping.get(port, FALLBACK)
    return selected, out_port


def e2e_configs(rng, n_random):
    ps = [None, ["8443"], ["8443", "9443"], ["9443", "4433"]]
    ms_ = [None, [], ["443:8080"], ["443:9000"], ["8443:9001"], ["443:9000,", "8443:9001"], ["443:9000", "8443:9001,", "9443:9002"],
           ["44330:443", "443:44330"], ["40001:7777", "443:9000", "50001:7778"],   # the last one lists client ports
           ["443:65535,"], ["8443:65535", "443:1"], ["443:65534", "8443:2,"],       # the ends of the port range are ports like any other
           ["443:443", "8443:8443,"]]                                              # a pair may map a port to itself
    out = [(p, m) for p in ps for m in ms_]
    for _ in range(n_random):
        p = None if rng.random() < 0.3 else rng.sample(["8443", "9443", "5000", "4433", "443"], rng.randrange(1, 4))
        if rng.random() < 0.25:
            m = None
        else:
            keys = rng.sample([443, 44330, 8443, 9443, 5000, 4433, 40001, 40003, 50002], rng.randrange(0, 4))
            m = [f"{k}:{rng.choice((8080, 9000, 9001, 1234, 443, 65000))}{',' if rng.random() < 0.4 else ''}" for k in keys]
        out.append((p, m))
    return out


def run_config(cap, p, m, work, tag, rng=None):
    d = os.path.join(work, tag)
    os.makedirs(d, exist_ok=True)
    open(os.path.join(d, "in.pcapng"), "wb").write(ms.pcapng([("pkt", t, f) for t, f in cap.pkts]))
    open(os.path.join(d, "keys.log"), "w").write(cap.keylog)
    out = os.path.join(d, "out.pcapng")
    if os.path.exists(out):
        os.remove(out)
    argv = ["-i", os.path.join(d, "in.pcapng"), "-s", os.path.join(d, "keys.log"), "-o", out]
    if p is not None:
        argv += ["-p"] + p
    if m is not None:
        argv = argv[:4] + ["-m"] + m + argv[4:]     # -m before -o: its value list ends at the next option
    res = toolrun.run(argv)
    exp = ms.read_export_ip(out) if os.path.exists(out) else None
    return res, exp


def judge(cap, p, m, res, exp):
    """Compares one export with the property; returns list of (signature, what, expected, actual)."""
    bad = []
    if res != ("ok",) or exp is None:
        return [("C10:{e2e}:run-failed", f"program ends with {res}", "an export", str(res))]
    selected, out_port = expected_ports(p, m)
    for name, (proto, sport, cport, conn) in cap.flows.items():
        got = [(sp, dp, pl) for (_, pr, sip, dip, sp, dp, pl) in exp if pr == proto and conn.cip in (sip, dip)]
        pairs = sorted({(sp, dp) for sp, dp, _ in got})
        quic = proto == "udp"
        should = True if quic else (sport in selected)       # the port test is specified for TCP only
        if not should:
            if got:
                bad.append((f"C10:{{e2e}}:tcp-exported-though-port-not-selected", f"flow {name} to server port {sport} is exported although "
                            f"{sport} is neither a default nor a -p port", "no packets", f"{len(got)} packets, port pairs {pairs}"))
            continue
        if not got or not any(pl for _, _, pl in got):
            bad.append((f"C10:{{e2e}}:{'quic' if quic else 'tcp'}-not-exported", f"flow {name} to selected server port {sport} is not exported",
                        "decrypted packets", "none"))
            continue
        want = {(cport, out_port(sport)), (out_port(sport), cport)}
        if not set(pairs) <= want:
            kind = "quic" if quic else "tcp"
            aspect = "without-m" if m is None else "mapped" if sport in {int(t.replace(',', '').split(':')[0]) for t in (m or ["443:8080"])} else "fallback"
            client_changed = any(cport not in pr for pr in pairs)
            sig = f"C10:{{e2e}}:{kind}-client-port-changed" if client_changed else f"C10:{{e2e}}:{kind}-server-port-{aspect}"
            bad.append((sig, f"flow {name} (client port {cport}, server port {sport}) is exported with port pairs {pairs}",
                        f"client port {cport} unchanged, server port {out_port(sport)}", str(pairs)))
            continue
        # direction: data the client sent leaves from the client port
        first = next((sp, dp) for sp, dp, pl in got if pl)
        if first != (cport, out_port(sport)):
            bad.append((f"C10:{{e2e}}:{'quic' if quic else 'tcp'}-direction", f"flow {name}: first data packet goes {first}",
                        str((cport, out_port(sport))), str(first)))
    return bad


def oracle_e2e(ctx, work, scale):
    cap = Capture(ctx.seed * 1000 + 10)
    o = ctx.oracle.setdefault("e2e", {"runs": 0, "violations": 0})
    seen = set()
    configs = e2e_configs(ctx.rng, ctx.n(24, 600) * scale)
    for n, (p, m) in enumerate(configs):
        res, exp = run_config(cap, p, m, work, f"c{n % 8}")
        o["runs"] += 1
        ctx.count(("e2e", tuple(p or ()), None if m is None else tuple(m)), nontrivial=True)
        ctx.hist("e2e_m", "absent" if m is None else "bare" if not m else f"{len(m)} values")
        ctx.hist("e2e_p", "absent" if p is None else f"{len(p)} values")
        for sig, what, want, got in judge(cap, p, m, res, exp):
            o["violations"] += 1
            if sig not in seen:
                seen.add(sig)
                ctx.fail(sig, what, {"p": p, "m": m, "capture_seed": cap.seed}, expected=want, actual=got,
                         how="bin/check C10 --replay <this file>")
    ctx.sample({"e2e_config": {"p": configs[13][0], "m": configs[13][1]},
                "flows": {k: v[:3] for k, v in cap.flows.items()}})


# ====================================================================== entry points
def explore(ctx, scale=1):
    work = tempfile.mkdtemp(prefix="c10_")
    try:
        corr_options(ctx, work, scale)
        corr_flows(ctx, scale)
        kind = corr_builders(ctx, scale)
        ctx.extra["source_variant"] = {"quic_builder": "honours keep_original_ports" if kind == "quic" else "always maps"}
        if kind != "quic":
            ctx.proof_problems.append({"kind": "refuted-for-source", "theorem": "TLX.Props.C10.exported_ports_quic",
                                       "by": "TLX.Props.C10.quic_always_maps_counterexample",
                                       "why": "QUICOutputbuilder takes no keep_original_ports: it maps the server port even without -m"})
        oracle_e2e(ctx, work, scale)
    finally:
        shutil.rmtree(work, ignore_errors=True)


def run(ctx):
    ctx.rule = ("option vectors: exhaustive matrix -m absent/bare/1–3 pairs × every trailing-comma pattern (+ duplicates, leading "
                "zeros, signs) × 8 -p lists, each through the real argument parser and run() on an empty capture, -p/-m in "
                "either order; malformed stream: -p/-m values argparse lets through, get_port_map and int() on random strings "
                "over digits/colons/commas/signs/underscores/white space. Flows: 11×11 port pairs × 6 server-port lists + "
                "random (non-trivial iff a session is created). Builders: keep × portmap × server port in/out of map. End to "
                "end: one capture (TLS to 443/44330/8443/9443/5000, QUIC to 443/8443) × 4 -p lists × 8 -m settings + random "
                "settings; every run counts.")
    ctx.assumptions = ["the port test is specified for TCP only: QUIC flows are expected in the export whatever their port",
                       "a connection whose two ports are both server ports is compared with the model only (the property "
                       "does not say who is the server then)",
                       "option vectors are observed by wrapping arg_parser_init/get_port_map inside the real run() on an empty capture"]
    ctx.gen_tables = extract.all_tables()
    import export_props_quic_thms, export_props_thms, file_corr     # whole-program form (Props/ExportProps) about TLX.Export.framesFrom, tied file to file
    import translate                 # decision-logic functions re-translated from the source and proved equal to the model
    _tm, _tt = translate.wire(ctx, "C10")
    import oncode_thms               # the property theorems stated on the regenerated definitions themselves (Props/OnCode)
    _om, _ot = oncode_thms.wire("C10")
    _tm, _tt = _tm + _om, _tt + _ot
    ctx.prove(["TLX.Props.C10"] + export_props_thms.MODULES + export_props_quic_thms.MODULES + _tm)
    ctx.require_theorems(_tt)
    ctx.require_theorems(THEOREMS + export_props_thms.THEOREMS_C10 + export_props_quic_thms.THEOREMS_C10)
    file_corr.correspond(ctx, ctx.n(12, 200))     # ties the whole-program model (ExportProps' subject) file to file
    explore(ctx)
    return ctx.finish(search=lambda c: explore(c, scale=3))


def replay(ctx, obj):
    work = tempfile.mkdtemp(prefix="c10r_")
    rc = 0
    try:
        for f in [obj] + list(obj.get("other_failures", [])):
            c = f.get("case") or {}
            if "capture_seed" not in c:
                continue
            cap = Capture(c["capture_seed"])
            res, exp = run_config(cap, c["p"], c["m"], work, "replay")
            bad = judge(cap, c["p"], c["m"], res, exp)
            for sig, what, want, got in bad:
                print("REPLAY-FAIL", sig, what, "expected", want, "actual", got)
            print("REPLAY", f.get("signature"), "-p", c["p"], "-m", c["m"], "→", "fails" if bad else "passes")
            rc = rc or (1 if bad else 0)
    finally:
        shutil.rmtree(work, ignore_errors=True)
    print("REPLAY", "fails" if rc else "passes")
    return rc
