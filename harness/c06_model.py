"""Correspondence of the Lean model `TLX.TcpOut` with the real `tlexport.output_builder.OutputBuilder`
(and byte-level check of what scapy serialises against the independent wire toolkit)."""
import types

import fw
import wire

THEOREMS = ["TLX.Props.C06.parts_flatten", "TLX.Props.C06.parts_length_le", "TLX.Props.C06.reassemble_build",
            "TLX.Props.C06.build_total"]


def real_build(recs, v6, keep=True, portmap=None, sport=443):
    """recs: [(plain|None, [ts…], from_server)] → list of canonical frame strings | 'err:<Exc>'"""
    from tlexport.output_builder import OutputBuilder
    traffic = []
    for plain, ts, srv in recs:
        record = types.SimpleNamespace(metadata=[types.SimpleNamespace(timestamp=t) for t in ts])
        traffic.append((plain, record, srv))
    cip, sip = ("2001:db8::1", "2001:db8::2") if v6 else ("10.0.0.1", "10.0.0.2")
    cm, sm = "02:00:00:00:00:01", "02:00:00:00:00:02"
    try:
        with fw.quiet():
            ob = OutputBuilder(traffic, sip, cip, sport, 40000, sm, cm, portmap or {}, v6, keep)
            out = ob.build()
    except Exception as e:  # noqa
        return f"err:{type(e).__name__}", None
    frames, raw = [], []
    for pkt, ts in out:
        b = bytes(pkt)
        p = wire.parse_frame(b)          # strict: lengths + checksums of what scapy produced
        from_server = p["sport"] == ob.server_port and p["src"] == wire.ipb(sip)
        frames.append(f"{ts}:{1 if from_server else 0}:{p['flags']}:{p['seq']}:{p['ack']}:{p['payload'].hex() or '-'}")
        raw.append((b, p, from_server))
    return ("empty" if not frames else " ".join(frames)), (raw, ob.server_port)


def gen_recs(rng, malformed=False):
    n = rng.randrange(0, 7)
    recs = []
    for _ in range(n):
        k = rng.randrange(1, 7)
        ln = rng.choice([0, 1, 2, k - 1, k, k + 1, 2 * k, rng.randrange(0, 80)])
        plain = rng.randbytes(max(0, ln))
        if malformed and rng.random() < 0.3:
            k = 0                      # record without carriers (cannot come out of reassembly, see C07)
        if malformed and rng.random() < 0.2:
            plain = None               # decryptor returned None
        recs.append((plain, [1_700_000_000 + rng.randrange(10 ** 6) for _ in range(k)], rng.random() < 0.5))
    return recs


def enc(recs):
    return "tcpout " + " ".join(f"{1 if s else 0}:{'N' if p is None else (p.hex() or '-')}:{','.join(map(str, ts)) or '-'}"
                                for p, ts, s in recs)


def run_model(ctx):
    rng = ctx.rng
    p = ctx.point("tcpout.build")
    cases = [gen_recs(rng, malformed=(i % 5 == 4)) for i in range(ctx.n(400, 20000))]
    # exhaustive corner: every (n, k) for one record
    cases += [[(bytes(range(n)), list(range(1000, 1000 + k)), bool((n + k) % 2))] for n in range(0, 17) for k in range(1, 7)]
    lines, impl = [], []
    for i, recs in enumerate(cases):
        r, raw = real_build(recs, v6=(i % 3 == 0))
        impl.append(r)
        lines.append(enc(recs))
        ctx.hist("tcpout.outcome", "err" if r.startswith("err") else "empty" if r == "empty" else "frames")
        if raw:
            # scapy's bytes: header fields the abstract frame does not carry
            frames, sp = raw
            for b, pf, from_server in frames:
                want_ports = (sp, 40000) if from_server else (40000, sp)
                if (pf["sport"], pf["dport"]) != want_ports:
                    ctx.fail("C06:{builder}:port-orientation", "TCP ports of an exported frame are not oriented with its direction",
                             {"recs": enc(recs)}, expected=want_ports, actual=(pf["sport"], pf["dport"]))
    replies = ctx.driver("tcpout", lines)
    for recs, a, b in zip(cases, impl, replies):
        p["cases"] += 1
        a_c = "err" if a.startswith("err") else a
        if a_c != b:
            ctx.disagree("tcpout.build", enc(recs), a, b)
    # exported server port
    q = ctx.point("tcpout.port")
    plines, pimpl = [], []
    for _ in range(ctx.n(200, 5000)):
        keep = rng.random() < 0.4
        sp = rng.choice([443, 8443, 44330, rng.randrange(1, 65536)])
        pm = [(rng.choice([443, 8443, sp, rng.randrange(1, 65536)]), rng.randrange(1, 65536)) for _ in range(rng.randrange(0, 4))]
        r, raw = real_build([(b"x", [1], False)], False, keep=keep, portmap=dict(pm), sport=sp)
        pimpl.append(str(raw[1]) if raw else r)
        plines.append(f"port {1 if keep else 0} {sp} {','.join(f'{a}:{b}' for a, b in pm) or '-'}")
    for l, a, b in zip(plines, pimpl, ctx.driver("tcpout", plines)):
        q["cases"] += 1
        if a != b:
            ctx.disagree("tcpout.port", l, a, b)
