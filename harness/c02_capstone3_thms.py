"""Theorems of lean/TLX/Props/C02Capstone3.lean and lean/TLX/Props/C02File2.lean that the C02 check requires:
one interleaved history (coalesced levels, 1-RTT before the end of the handshake), 0-RTT (conditions, partial result, the
loss mechanisms with kernel-checked counterexamples — (B) restated on the code before the pn-store repair, plus its
positive counterpart on the repaired code), other QUIC connections in the capture (file level)."""
MODULES = ["TLX.Props.C02Capstone3", "TLX.Props.C02File2"]
_A = "TLX.Props.C02Capstone3."
_B = "TLX.Props.C02File2."
THEOREMS = [_A + n for n in [
    # 1. one interleaved history
    "quic_interleaved_exact_adj",          # the theorem (consecutive data-carrying datagrams distinct)
    "quic_connection_exact_interleaved",              # … all pairwise distinct
    "quic_interleaved_exact_conformant",   # … with a conformant TLS handshake (PTrace discharged)
    "mix_dg_step", "mix_feed_step", "mix_feed_rest", "hs_loop_more", "one_turn", "step_one_rtt_keep", "hsSt_after_short",
    "hsSt_noOut", "est_of_noOut", "build_congr", "feedPre_mixed", "shortOut_flatMap",
    # output_buffer is write-only
    "stepPkt_wo", "handleQuicPackets_wo", "handleTurn_wo", "feedPre_wo", "dissectLoop_wo", "handleDatagram_wo",
    "handleFrames_wo", "decryptPacket_wo", "afterTls_wo",
    # 2. 0-RTT
    "afterTls_early",                                 # when and with which suite the Early keys are derived
    "zr_turn", "quic_connection_exact_0rtt_partial",  # a 0-RTT packet in a session holding the sender's early keys
    "zero_rtt_dropped_without_key",                   # loss (D): no Early decryptor yet
    "legacy_zero_rtt_rejected_poisons_pn",            # loss (B) on the code BEFORE the pn-store repair (Session.Legacy)
    "zero_rtt_rejected_leaves_session",               # (B) now: the rejected packet leaves the session as it was
    "ExZr.zero_rtt_before_client_hello_counterexample",
    "ExZr.legacy_first_offered_suite_counterexample",   # old code: 0-RTT lost AND the following 1-RTT packet
    "ExZr.late_survives",                                        # repaired code: only the 0-RTT packet is lost
    "ExZr.zero_rtt_with_key_exported",
]] + [_B + n for n in [
    # 1 + 3 at file level
    "quic_capture_exact2", "quic_capture_exact2_encoded", "quic_capture_session2", "export_of_quic_session_among",
    "quicRun_mix", "quicView_mixPhase", "quicView_onePhase2", "mixHeader_wire", "carriesM_of_described",
    "carries_of_described2", "capOk_of_qdescribed2", "merge_singleton", "merge_append",
    # non-vacuity
    "Ex.capture2_0", "Ex.quic_file2_instance", "Ex.mixDgs0", "Ex.described0", "Ex.send1_0", "Ex.sepOwn0", "Ex.sepOther0",
    "Ex.block0", "Ex.cwf0", "Ex.citems0",
]]
