"""Independent Python implementation of the RFC key schedules (oracle of C15).

Written from the RFC texts with `hashlib` / `hmac` only; shares no code with tlexport and is not
derived from the Lean model.

  RFC 6101 §6.1/§6.2.2   SSL 3.0             RFC 2246 §5/§6.3 (RFC 4346)  TLS 1.0 / 1.1
  RFC 5246 §5/§6.3       TLS 1.2             RFC 8446 §7.1/§7.3           TLS 1.3 traffic keys
  RFC 5869               HKDF                RFC 9001 §5.1/§5.2/§5.4/§6.1 QUIC v1
  IV sizes: RFC 2246 §6.3 (block size), RFC 4346/5246 §6.2.3.2 (explicit IV, none from the key block),
            RFC 5288/6655/6367 (4-byte salt), RFC 7905 (12 bytes)
"""
import hashlib
import hmac as _hmac
import struct

DIGEST = {"md5": 16, "sha1": 20, "sha256": 32, "sha384": 48}


def H(alg, data):
    return hashlib.new(alg, data).digest()


def HMAC(alg, key, msg):
    return _hmac.new(key, msg, alg).digest()


# ------------------------------------------------------------------ RFC 5869
def hkdf_extract(alg, salt, ikm):
    if not salt:
        salt = b"\x00" * DIGEST[alg]
    return HMAC(alg, salt, ikm)


def hkdf_expand(alg, prk, info, length):
    out, t, i = b"", b"", 1
    while len(out) < length:
        t = HMAC(alg, prk, t + info + bytes([i]))
        out += t
        i += 1
    return out[:length]


# ------------------------------------------------------------------ RFC 8446 §7.1
def hkdf_label(length, label, context=b""):
    full = b"tls13 " + label
    return struct.pack(">H", length) + struct.pack("B", len(full)) + full + struct.pack("B", len(context)) + context


def hkdf_expand_label(alg, secret, label, context, length):
    return hkdf_expand(alg, secret, hkdf_label(length, label, context), length)


def tls13_traffic_keys(alg, secret, key_length):
    """RFC 8446 §7.3: (write_key, write_iv); iv_length is 12 for all TLS 1.3 AEADs."""
    return (hkdf_expand_label(alg, secret, b"key", b"", key_length),
            hkdf_expand_label(alg, secret, b"iv", b"", 12))


# ------------------------------------------------------------------ RFC 9001
QUIC_V1_SALT = bytes.fromhex("38762cf7f55934b34d179ae6a4c80cadccbb7f0a")


def quic_packet_keys(alg, secret, key_length):
    """RFC 9001 §5.1: key, iv, hp."""
    return (hkdf_expand_label(alg, secret, b"quic key", b"", key_length),
            hkdf_expand_label(alg, secret, b"quic iv", b"", 12),
            hkdf_expand_label(alg, secret, b"quic hp", b"", key_length))


def quic_initial(dcid):
    """RFC 9001 §5.2: SHA-256, AEAD_AES_128_GCM. Returns ((ckey, civ, chp), (skey, siv, shp))."""
    initial_secret = hkdf_extract("sha256", QUIC_V1_SALT, dcid)
    client = hkdf_expand_label("sha256", initial_secret, b"client in", b"", 32)
    server = hkdf_expand_label("sha256", initial_secret, b"server in", b"", 32)
    return quic_packet_keys("sha256", client, 16), quic_packet_keys("sha256", server, 16)


def quic_next_secret(alg, secret):
    """RFC 9001 §6.1"""
    return hkdf_expand_label(alg, secret, b"quic ku", b"", len(secret))


QUIC_SUITES = {  # RFC 9001 §5.3 / RFC 8446 B.4: code -> (hash, AEAD key length)
    0x1301: ("sha256", 16), 0x1302: ("sha384", 32), 0x1303: ("sha256", 32), 0x1304: ("sha256", 16)}


# ------------------------------------------------------------------ SSL 3.0 / TLS 1.0-1.2
def ssl3_stream(secret, randoms, n):
    out, i = b"", 0
    while len(out) < n:
        salt = bytes([ord("A") + i]) * (i + 1)
        out += H("md5", secret + H("sha1", salt + secret + randoms))
        i += 1
    return out[:n]


def p_hash(alg, secret, seed, n):
    out, a = b"", seed
    while len(out) < n:
        a = HMAC(alg, secret, a)
        out += HMAC(alg, secret, a + seed)
    return out[:n]


def prf10(secret, label, seed, n):
    ls = len(secret)
    half = -(-ls // 2)
    s1, s2 = secret[:half], secret[ls - half:]
    a = p_hash("md5", s1, label + seed, n)
    b = p_hash("sha1", s2, label + seed, n)
    return bytes(x ^ y for x, y in zip(a, b))


def prf12(alg, secret, label, seed, n):
    return p_hash(alg, secret, label + seed, n)


def master_secret(version, prf_alg, pms, client_random, server_random):
    if version == "ssl30":
        return ssl3_stream(pms, client_random + server_random, 48)
    if version in ("tls10", "tls11"):
        return prf10(pms, b"master secret", client_random + server_random, 48)
    return prf12(prf_alg, pms, b"master secret", client_random + server_random, 48)


def key_block(version, prf_alg, master, client_random, server_random, n):
    if version == "ssl30":
        return ssl3_stream(master, server_random + client_random, n)
    if version in ("tls10", "tls11"):
        return prf10(master, b"key expansion", server_random + client_random, n)
    return prf12(prf_alg, master, b"key expansion", server_random + client_random, n)


def connection_keys(version, params, master, client_random, server_random):
    """The six values of §6.3 for the suite's SecurityParameters in this version."""
    m, k, iv = params["mac_key_length"], params["enc_key_length"], record_iv_length(version, params)
    kb = key_block(version, params["prf"], master, client_random, server_random, 2 * m + 2 * k + 2 * iv)
    out, pos = {}, 0
    for name, ln in (("client_mac", m), ("server_mac", m), ("client_key", k), ("server_key", k),
                     ("client_iv", iv), ("server_iv", iv)):
        out[name] = kb[pos:pos + ln]
        pos += ln
    out["iv_length"] = iv
    return out


# ------------------------------------------------------------------ suites (from the IANA name)
BULK = {  # token sequence after _WITH_ -> (enc_key_length, block length (0 = none), kind)
    "RC4_128": (16, 0, "stream"), "3DES_EDE_CBC": (24, 8, "cbc"), "IDEA_CBC": (16, 8, "cbc"),
    "AES_128_CBC": (16, 16, "cbc"), "AES_256_CBC": (32, 16, "cbc"),
    "CAMELLIA_128_CBC": (16, 16, "cbc"), "CAMELLIA_256_CBC": (32, 16, "cbc"),
    "AES_128_GCM": (16, 16, "aead4"), "AES_256_GCM": (32, 16, "aead4"),
    "AES_128_CCM": (16, 16, "aead4"), "AES_256_CCM": (32, 16, "aead4"),
    "AES_128_CCM_8": (16, 16, "aead4"), "AES_256_CCM_8": (32, 16, "aead4"),
    "CAMELLIA_128_GCM": (16, 16, "aead4"), "CAMELLIA_256_GCM": (32, 16, "aead4"),
    "CHACHA20_POLY1305": (32, 0, "aead12"),
}
HASHTOK = {"MD5": "md5", "SHA": "sha1", "SHA256": "sha256", "SHA384": "sha384"}
SSL3_KEX = ("RSA", "DH_DSS", "DH_RSA", "DHE_DSS", "DHE_RSA", "DH_anon")


def suite_params(name):
    """SecurityParameters of an IANA suite name, or None for names outside the grammar.
    Also the protocol versions in which the suite can be negotiated."""
    if not name.startswith("TLS_"):
        return None
    body = name[4:]
    tls13 = "_WITH_" not in body
    kex, cs = (None, body) if tls13 else body.split("_WITH_", 1)
    toks = cs.split("_")
    hash_tok = toks[-1] if toks[-1] in HASHTOK else None
    bulk_tok = "_".join(toks[:-1]) if hash_tok else cs
    if bulk_tok not in BULK:
        return None
    klen, block, kind = BULK[bulk_tok]
    aead = kind.startswith("aead")
    h = HASHTOK[hash_tok] if hash_tok else "sha256"      # CCM suites of RFC 6655/7251 name no hash: SHA-256 PRF
    p = {"name": name, "bulk": bulk_tok, "enc_key_length": klen, "block_length": block, "kind": kind, "aead": aead,
         "hash": h, "mac_key_length": 0 if aead else DIGEST[h],
         "prf": "sha384" if h == "sha384" else "sha256"}  # RFC 5246 §5: SHA-256 unless the suite says SHA-384
    if tls13:
        if not aead:
            return None
        p["versions"] = ["tls13"]
    elif aead or h in ("sha256", "sha384"):
        p["versions"] = ["tls12"]                         # AEAD and SHA-2 MAC suites exist from TLS 1.2 on
    else:
        v = ["tls10", "tls11"]
        if not bulk_tok.startswith("IDEA"):
            v.append("tls12")                             # RFC 5469: IDEA (and DES) removed from TLS 1.2
        if kex in SSL3_KEX:
            v.insert(0, "ssl30")
        p["versions"] = v
    return p


def record_iv_length(version, p):
    """Bytes of the key block used as per-direction IV."""
    if p["kind"] == "aead4":
        return 4
    if p["kind"] == "aead12":
        return 12
    if p["kind"] == "cbc" and version in ("ssl30", "tls10"):
        return p["block_length"]
    return 0
