"""Correspondence of the Lean model `TLX.Quic.CryptoStream` with the real
`tlexport.quic.quic_tls_parser.QuicTlsSession.update_session` / `handle_buffer` (C02, CRYPTO stream part).

The real session object is fed real `CryptoFrame` objects (built by the real frame constructor from wire bytes);
only `handle_record` is replaced on the instance by a recorder that notes the message and raises IndexError for the
record types the case names (the hello parsers themselves are `q1_tlsmsgs.py`). After EVERY `update_session` the
messages handed on, the exception flag and offset / byte buffer / frame-buffer object order of all eight
(direction, packet type) spaces are compared with the model.
"""
import types

MODULES = ["TLX.Props.C02Crypto"]
THEOREMS = ["TLX.Props.C02Crypto.crypto_any_order_partial", "TLX.Props.C02Crypto.crypto_any_order_upto_empty_tail",
            "TLX.Props.C02Crypto.crypto_any_order_counterexample", "TLX.Props.C02Crypto.spaces_independent",
            "TLX.Props.C02Crypto.directions_independent", "TLX.Props.C02Crypto.update_keeps_drained",
            "TLX.Props.C02Crypto.stuck_message_blocks_later_spaces", "TLX.Props.C02Crypto.run_own_space",
            "TLX.Props.C02Crypto.rechunked_retransmission_stalls"]

PTS = "izoh"


def varint(v, w=None):
    """RFC 9000 §16, optionally in a longer-than-needed encoding."""
    need = 1 if v < 1 << 6 else 2 if v < 1 << 14 else 4 if v < 1 << 30 else 8
    w = max(w or need, need)
    return (v | ({1: 0, 2: 1, 4: 2, 8: 3}[w] << (8 * w - 2))).to_bytes(w, "big")


def hs_frame(b):
    """Independent RFC 8446 §4 framing: type(1) length(3) body; an unfinished message is not a message."""
    out = []
    while len(b) >= 4:
        n = int.from_bytes(b[1:4], "big")
        if len(b) < 4 + n:
            break
        out.append(b[:4 + n])
        b = b[4 + n:]
    return out


class Impl:
    def __init__(self):
        from tlexport.quic.quic_tls_parser import QuicTlsSession
        from tlexport.quic.quic_packet import QuicPacketType
        from tlexport.quic.quic_frame import CryptoFrame
        self.QuicTlsSession, self.CryptoFrame = QuicTlsSession, CryptoFrame
        self.pt = {"i": QuicPacketType.INITIAL, "z": QuicPacketType.RTT_O, "o": QuicPacketType.RTT_1,
                   "h": QuicPacketType.HANDSHAKE}

    def reset(self, raise_types):
        self.s = self.QuicTlsSession()
        self.msgs = []
        self.ids = {}
        self.keep = []          # keep the objects alive so id() stays unique
        rt = set(raise_types)

        def handle_record(record_type, record):
            self.msgs.append(bytes(record))
            if record_type in rt:
                raise IndexError("stub")
        self.s.handle_record = handle_record

    def frame(self, srv, pt, offset, clen, data, wo=None, wl=None):
        """a real CryptoFrame parsed from wire bytes; `data` may be shorter than `clen` (payload ends early)"""
        payload = b"\x06" + varint(offset, wo) + varint(clen, wl) + data
        pkt = types.SimpleNamespace(isserver=bool(srv), packet_type=self.pt[pt], ts=0)
        f = self.CryptoFrame(payload, pkt)
        self.keep.append(f)
        self.ids[id(f)] = len(self.keep)
        return f

    def update(self, f):
        self.msgs = []
        try:
            self.s.update_session(f)
            flag = "ok"
        except IndexError:
            flag = "raise"
        except Exception as e:  # noqa
            flag = f"crash:{type(e).__name__}"
        return flag, list(self.msgs)

    def state(self):
        out = []
        for srv in (False, True):
            fb = self.s.server_frame_buffer if srv else self.s.client_frame_buffer
            off = self.s.server_offset if srv else self.s.client_offset
            buf = self.s.server_buffer if srv else self.s.client_buffer
            for p in PTS:
                k = self.pt[p]
                ids = ",".join(str(self.ids[id(o)]) for o in fb[k]) or "-"
                out.append(f"{off[k]}:{bytes(buf[k]).hex() or '-'}:{ids}")
        return " ".join(out)

    def line(self, f):
        p = next(c for c, v in self.pt.items() if v == f.src_packet.packet_type)
        return (f"upd {1 if f.src_packet.isserver else 0} {p} {self.ids[id(f)]} {f.offset} {f.crypto_length} "
                f"{bytes(f.crypto).hex() or '-'}")


def gen_stream(rng, allow_empty_tail):
    """1-5 handshake messages back to back"""
    n = rng.randrange(1, 6)
    msgs = []
    for i in range(n):
        t = rng.choice([1, 2, 4, 8, 11, 13, 15, 20, 0, 14, 24, rng.randrange(256)])
        ln = rng.choice([0, 1, 2, 3, 4, 5, rng.randrange(0, 40), rng.randrange(0, 300), rng.randrange(250, 700)])
        if i == n - 1 and ln == 0 and not allow_empty_tail:
            ln = rng.randrange(1, 20)
        msgs.append(bytes([t]) + ln.to_bytes(3, "big") + rng.randbytes(ln))
    return msgs


def cut(rng, s):
    k = rng.choice([1, 1, 2, 3, 4, rng.randrange(1, 9), rng.randrange(1, 20)])
    pts = sorted(set(rng.randrange(1, len(s)) for _ in range(k - 1))) if len(s) > 1 else []
    pts = [0] + pts + [len(s)]
    return [(a, s[a:b]) for a, b in zip(pts, pts[1:])]


def gen_valid(rng):
    """several streams on different spaces, each cut, permuted, with duplicates, interleaved"""
    nspaces = rng.choice([1, 1, 2, 3, 4])
    keys = rng.sample([(s, p) for s in (0, 1) for p in PTS], nspaces)
    per = []
    streams = {}
    for key in keys:
        msgs = gen_stream(rng, allow_empty_tail=rng.random() < 0.15)
        s = b"".join(msgs)
        streams[key] = (s, msgs)
        frs = cut(rng, s)
        mode = rng.random()
        if mode < 0.25:
            pass                                  # in order
        elif mode < 0.5:
            frs = frs[::-1]                       # reversed
        else:
            rng.shuffle(frs)
        dl = [(key, off, len(d), d, rng.getrandbits(48)) for off, d in frs]     # last field: object token
        for _ in range(rng.choice([0, 0, 1, 2, 5])):        # exact duplicates anywhere (fresh or the SAME object)
            d = dl[rng.randrange(len(dl))]
            tok = d[4] if rng.random() < 0.3 else rng.getrandbits(48)
            dl.insert(rng.randrange(len(dl) + 1), (d[0], d[1], d[2], d[3], tok))
        per.append(dl)
    # interleave keeping each space's order
    ops = []
    while any(per):
        dl = rng.choice([d for d in per if d])
        ops.append(dl.pop(0))
    return ops, streams


def gen_malformed(rng):
    ops = []
    keys = rng.sample([(s, p) for s in (0, 1) for p in PTS], rng.choice([1, 2, 3]))
    for _ in range(rng.randrange(1, 14)):
        key = rng.choice(keys)
        off = rng.choice([0, 0, 1, 3, 4, 5, rng.randrange(0, 30), rng.randrange(0, 1 << rng.randrange(1, 40))])
        kind = rng.random()
        if kind < 0.5:           # bytes that look like messages with small length fields
            ln = rng.choice([0, 1, 2, 4, 5, rng.randrange(0, 24)])
            data = bytes(rng.choice([0, 0, 0, 1, 2, 3, 8, rng.randrange(256)]) for _ in range(ln))
        else:
            data = rng.randbytes(rng.choice([0, 1, 4, 5, 9, rng.randrange(0, 40)]))
        clen = len(data)
        if rng.random() < 0.2:   # payload ends before crypto_length bytes
            clen += rng.randrange(1, 10)
        ops.append((key, off, clen, data, rng.getrandbits(48)))
    return ops


def run_case(ctx, impl, ops, raise_types, point, streams=None):
    impl.reset(raise_types)
    lines = ["reset " + (",".join(map(str, sorted(raise_types))) or "-")]
    got = ["ok"]
    objs = {}
    handed = {}
    for (key, off, clen, data, tok) in ops:
        if tok in objs:
            f = objs[tok]                  # the very same object delivered again
        else:
            wo = ctx.rng.choice([None, None, 2, 4, 8])
            f = impl.frame(key[0], key[1], off, clen, data, wo=wo, wl=ctx.rng.choice([None, None, 2, 4]))
            objs[tok] = f
        flag, msgs = impl.update(f)
        handed.setdefault(key, []).extend(msgs)
        lines.append(impl.line(f))
        got.append(f"{flag} {','.join(m.hex() for m in msgs) or '-'} {impl.state()}")
    ctx.point(point)["cases"] += 1
    PENDING.append((point, lines, got))
    return handed


PENDING = []


def flush(ctx):
    """one driver process for all pending cases (each starts with its own `reset`)"""
    replies = ctx.driver("cryptostream", [l for _, lines, _ in PENDING for l in lines])
    at = 0
    for point, lines, got in PENDING:
        for i, (a, b) in enumerate(zip(got, replies[at:at + len(lines)])):
            if a != b:
                ctx.disagree(point, {"ops": lines[:i + 1], "at": i}, a, b)
                break
        at += len(lines)
    PENDING.clear()


def correspond(ctx):
    rng = ctx.rng
    impl = Impl()
    nvalid, nmal = ctx.n(2200, 40000), ctx.n(900, 20000)
    spec_pt = ctx.point("cryptostream.rfc-framing")
    empty_tail = []
    for i in range(nvalid):
        ops, streams = gen_valid(rng)
        raise_types = set()
        if rng.random() < 0.12:
            raise_types = {rng.choice([1, 2, 8, 11, 0])}
        handed = run_case(ctx, impl, ops, raise_types, "cryptostream.valid", streams)
        ctx.count(("crypto", i, len(ops)), nontrivial=len(ops) >= 2)
        ctx.hist("crypto.frames", min(len(ops), 20) // 4 * 4)
        ctx.hist("crypto.spaces", len(streams))
        ctx.hist("crypto.raise", bool(raise_types))
        # the property on the real code against the independent framing (only where no stub exception interferes)
        if not raise_types:
            for key, (s, msgs) in streams.items():
                spec_pt["cases"] += 1
                want = hs_frame(s)
                have = handed.get(key, [])
                if have != want:
                    tail_only = want[:-1] == have and len(want[-1]) == 4
                    if tail_only:
                        empty_tail.append(s.hex())
                        ctx.hist("crypto.finding", "empty-bodied last message not handed on")
                    else:
                        ctx.disagree("cryptostream.rfc-framing", {"stream": s.hex(), "key": key},
                                     [m.hex() for m in have], [m.hex() for m in want])
    if empty_tail:
        ctx.notes.append("C02/CRYPTO: `len(buffer) <= 4: break` keeps a last empty-bodied handshake message in the "
                         f"buffer (crypto_any_order_counterexample); seen on {len(empty_tail)} generated streams, "
                         f"e.g. {empty_tail[0][-24:]}")
    for i in range(nmal):
        ops = gen_malformed(rng)
        raise_types = set(rng.sample([0, 1, 2, 3, 8], rng.choice([0, 0, 1, 2])))
        run_case(ctx, impl, ops, raise_types, "cryptostream.malformed")
        ctx.count(("crypto-mal", i), nontrivial=False)
    flush(ctx)
    ctx.sample({"cryptostream": "valid streams cut/permuted/duplicated over 1-4 interleaved spaces; compared after "
                                "every update_session (messages, exception flag, 8 x offset/buffer/frame ids)"})
