"""Minimal independent TLS sender for the C12 oracle: one decryptable TLS 1.2 or TLS 1.3 (AES-128-GCM) connection
as a list of Ethernet frames plus its key log.  RFC 5246 / RFC 8446 record protection written with
hashlib/hmac and the raw AESGCM primitive; shares no code with tlexport.  All randomness comes from the given rng.
"""
import hashlib
import hmac
import struct

import wire

from cryptography.hazmat.primitives.ciphers.aead import AESGCM


def csum(b):
    if len(b) % 2:
        b += b"\0"
    s = sum(struct.unpack(">%dH" % (len(b) // 2), b))
    while s >> 16:
        s = (s & 0xffff) + (s >> 16)
    return (~s) & 0xffff


def tcp_frame(smac, dmac, src, dst, sp, dp, seq, ack, flags, data):
    h = struct.pack(">HHIIBBHHH", sp, dp, seq & 0xffffffff, ack & 0xffffffff, 5 << 4, flags, 8192, 0, 0)
    ph = src + dst + b"\0\x06" + struct.pack(">H", len(h) + len(data))
    c = csum(ph + h + data)
    seg = h[:16] + struct.pack(">H", c) + h[18:] + data
    ih = struct.pack(">BBHHHBBH", 0x45, 0, 20 + len(seg), 1, 0, 64, 6, 0) + src + dst
    ih = ih[:10] + struct.pack(">H", csum(ih)) + ih[12:]
    return dmac + smac + b"\x08\x00" + ih + seg


def prf12(secret, label, seed, n):
    seed = label + seed
    a, out = seed, b""
    while len(out) < n:
        a = hmac.new(secret, a, hashlib.sha256).digest()
        out += hmac.new(secret, a + seed, hashlib.sha256).digest()
    return out[:n]


def hkdf_expand_label(secret, label, n):
    info = struct.pack(">H", n) + bytes([6 + len(label)]) + b"tls13 " + label + b"\x00"
    out, t, i = b"", b"", 1
    while len(out) < n:
        t = hmac.new(secret, t + info + bytes([i]), hashlib.sha256).digest()
        out += t
        i += 1
    return out[:n]


def rec(t, ver, body):
    return bytes([t]) + ver + struct.pack(">H", len(body)) + body


def hs(t, body):
    return bytes([t]) + len(body).to_bytes(3, "big") + body


def client_hello(cr, suites, ext=b""):
    b = b"\x03\x03" + cr + b"\x00" + struct.pack(">H", len(suites)) + suites + b"\x01\x00" + struct.pack(">H", len(ext)) + ext
    return hs(1, b)


def server_hello(sr, suite, sid=b"", ext=b""):
    b = b"\x03\x03" + sr + bytes([len(sid)]) + sid + suite + b"\x00" + struct.pack(">H", len(ext)) + ext
    return hs(2, b)


class Conn:
    def __init__(self, rng, cport=40000, sport=443):
        self.rng = rng
        self.cip, self.sip = bytes([10, 0, 0, 1]), bytes([10, 0, 0, 2])
        self.cmac, self.smac = b"\x02\0\0\0\0\x01", b"\x02\0\0\0\0\x02"
        self.cport, self.sport = cport, sport
        self.cseq, self.sseq = rng.randrange(1, 1 << 31), rng.randrange(1, 1 << 31)
        self.frames = []

    def seg(self, from_server, data):
        if from_server:
            f = tcp_frame(self.smac, self.cmac, self.sip, self.cip, self.sport, self.cport, self.sseq, self.cseq, 0x18, data)
            self.sseq += len(data)
        else:
            f = tcp_frame(self.cmac, self.smac, self.cip, self.sip, self.cport, self.sport, self.cseq, self.sseq, 0x18, data)
            self.cseq += len(data)
        self.frames.append(f)


def tls12(conn, app):
    r = conn.rng
    cr, sr, ms = r.randbytes(32), r.randbytes(32), r.randbytes(48)
    kb = prf12(ms, b"key expansion", sr + cr, 40)
    ck, sk, civ, siv = kb[:16], kb[16:32], kb[32:36], kb[36:40]
    seq = {0: 0, 1: 0}

    def enc(d, t, pt):
        k, iv = (sk, siv) if d else (ck, civ)
        n = seq[d]
        seq[d] += 1
        exp = r.randbytes(8)
        aad = struct.pack(">Q", n) + bytes([t]) + b"\x03\x03" + struct.pack(">H", len(pt))
        return rec(t, b"\x03\x03", exp + AESGCM(k).encrypt(iv + exp, pt, aad))

    conn.seg(0, rec(22, b"\x03\x01", client_hello(cr, b"\x00\x9c")))
    conn.seg(1, rec(22, b"\x03\x03", server_hello(sr, b"\x00\x9c") + hs(11, r.randbytes(100)) + hs(14, b"")))
    conn.seg(0, rec(22, b"\x03\x03", hs(16, r.randbytes(64))) + rec(20, b"\x03\x03", b"\x01") + enc(0, 22, hs(20, r.randbytes(12))))
    conn.seg(1, rec(20, b"\x03\x03", b"\x01") + enc(1, 22, hs(20, r.randbytes(12))))
    for d, pt in app:
        conn.seg(d, enc(d, 23, pt))
    return "CLIENT_RANDOM %s %s\n" % (cr.hex(), ms.hex())


def tls13(conn, app):
    r = conn.rng
    cr, sr = r.randbytes(32), r.randbytes(32)
    sec = {k: r.randbytes(32) for k in ("chs", "shs", "cap", "sap")}
    keys = {k: (hkdf_expand_label(v, b"key", 16), hkdf_expand_label(v, b"iv", 12)) for k, v in sec.items()}
    seq = {}

    def enc(d, epoch, inner_type, pt):
        name = ("s" if d else "c") + epoch
        k, iv = keys[name]
        n = seq.get(name, 0)
        seq[name] = n + 1
        inner = pt + bytes([inner_type])
        nonce = bytes(a ^ b for a, b in zip(iv, b"\0\0\0\0" + struct.pack(">Q", n)))
        hdr = b"\x17\x03\x03" + struct.pack(">H", len(inner) + 16)
        return hdr + AESGCM(k).encrypt(nonce, inner, hdr)

    ext13 = b"\x00\x2b\x00\x02\x03\x04"
    conn.seg(0, rec(22, b"\x03\x01", client_hello(cr, b"\x13\x01")))
    conn.seg(1, rec(22, b"\x03\x03", server_hello(sr, b"\x13\x01", sid=r.randbytes(32), ext=ext13)) + rec(20, b"\x03\x03", b"\x01")
             + enc(1, "hs", 22, hs(8, b"\0\0") + hs(11, r.randbytes(80)) + hs(15, r.randbytes(70)) + hs(20, r.randbytes(32))))
    conn.seg(0, rec(20, b"\x03\x03", b"\x01") + enc(0, "hs", 22, hs(20, r.randbytes(32))))
    for d, pt in app:
        conn.seg(d, enc(d, "ap", 23, pt))
    return ("CLIENT_HANDSHAKE_TRAFFIC_SECRET %s %s\nSERVER_HANDSHAKE_TRAFFIC_SECRET %s %s\n"
            "CLIENT_TRAFFIC_SECRET_0 %s %s\nSERVER_TRAFFIC_SECRET_0 %s %s\n"
            % (cr.hex(), sec["chs"].hex(), cr.hex(), sec["shs"].hex(), cr.hex(), sec["cap"].hex(), cr.hex(), sec["sap"].hex()))


def connection(rng, version=None, n_app=None):
    """→ (frames, keylog text, plaintexts)."""
    version = version or rng.choice(("1.2", "1.3"))
    n_app = n_app if n_app is not None else rng.randrange(2, 6)
    app = [(rng.randrange(2), rng.randbytes(rng.randrange(1, 120))) for _ in range(n_app)]
    app[0] = (0, b"GET /c12 HTTP/1.1\r\n\r\n")
    c = Conn(rng, cport=wire.client_port(rng, 20000, 60000))
    kl = tls12(c, app) if version == "1.2" else tls13(c, app)
    return c.frames, kl, [p for _, p in app], version
