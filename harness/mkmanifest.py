"""Writes /verif/MANIFEST.json from the table below (kept next to the checks so they stay in step)."""
import json, os
ROOT = os.path.dirname(os.path.dirname(os.path.abspath(__file__)))

NOTE_COMMON = ("Trusted: Lean 4.33 kernel; axioms propext/Classical.choice/Quot.sound only (audited per theorem each run); "
               "the hand-written Lean model is tied to /repo by differential execution (sampled, seeded by VERIF_SEED) — "
               "the theorem is about the model, the correspondence and the end-to-end oracle carry it to the code. ")

CHECKS = {
 "C16": dict(
   technique="Lean 4 proof (omega/case analysis, generic in the window) + differential correspondence of the model with QuicSession.get_full_packet_number + RFC A.3 oracle",
   text="Theorems pn_decode_eq_rfc (impl = RFC 9000 A.3 for all largest, n in 1..4, all truncated values), pn_decode_window, pn_space_isolation, pn_entry_is_max are kernel-checked with no bound. The model (TLX/Quic/PktNum.lean) is executed against the real method on ~37k single-step cases around every window boundary plus packet histories; the real method is also compared with a literal transcription of RFC 9000 A.3.",
   note=NOTE_COMMON + "Modelled: get_full_packet_number incl. its largest==0 shortcut and table update. Not modelled: how decrypt_packet turns the result into the nonce (covered by C02).",
   design="§8.16"),
 "C14": dict(
   technique="Lean 4 proof by kernel evaluation (decide +kernel) over the cipher table regenerated from /repo on every run, lifted to all code points by lookup lemmas + exhaustive 65536-point correspondence",
   text="resolve_sound_complete: for every code point c, the model of split_cipher_suite over the *generated* table returns none iff c is not in the table, and otherwise the table name is the IANA name of c (independent registry copy) and the parameters equal what an independent token-grammar parser says the name denotes. The table is re-extracted from the working tree each run, so the kernel re-checks the theorem against the current source; the real function is compared with the model and with a Python copy of the spec on all 65 536 code points.",
   note=NOTE_COMMON + "Regenerated: cipher_suites and cipher_suite_parts (dumped from the imported module). Hand-modelled: the 30-line split_cipher_suite loop. Trusted additionally: my transcription of the IANA registry (352 entries) and the name grammar.",
   design="§8.14"),
}

NOT_YET = {}
for i in range(1, 19):
    pid = f"C{i:02d}"
    if pid not in CHECKS:
        NOT_YET[pid] = "check not built yet (work in progress, DESIGN.md §10 order); not claimed in this commit"

def main():
    checks = []
    for pid in sorted(CHECKS):
        c = CHECKS[pid]
        checks.append({
            "property_id": pid,
            "quick_cmd": f"bin/check {pid} --tier quick",
            "thorough_cmd": f"bin/check {pid} --tier thorough",
            "evidence_file": f"evidence/{pid}.json",
            "replay_cmd_template": f"bin/check {pid} --replay {{path}}",
            "engine": "tlx-lean",
            "level_claimed": {"category": "proof", "text": c["text"], "design_ref": c["design"]},
            "level_note": c["note"],
            "technique": c["technique"],
        })
    m = {
        "version": 1,
        "setup_cmd": "bin/setup",
        "hooks": {
            "guard": "TLEXPORT_VERIF",
            "enable": "no source hooks: the harness observes TLExport by importing it from /repo and wrapping third-party objects (env var unused)",
            "baseline_off_cmd": "cd /repo && /venv/bin/python -m pytest -ra -q -p no:cacheprovider --timeout=900 --continue-on-collection-errors",
            "source_commits": [],
            "add_only": True,
        },
        "engines": [{"name": "tlx-lean", "path": "lean/", "serves_properties": sorted(CHECKS),
                     "kind_free_text": "Lean 4 library TLX (models, specs, property theorems), audit meta-program, compiled model driver; Python harness for correspondence and oracles"}],
        "checks": checks,
        "not_applicable": [{"property_id": p, "reason": r} for p, r in sorted(NOT_YET.items())],
        "notes": "Fix commits in /repo are listed in known_findings.json (status fixed). See DESIGN.md.",
    }
    json.dump(m, open(os.path.join(ROOT, "MANIFEST.json"), "w"), indent=1)

if __name__ == "__main__":
    main()
