"""Writes /verif/MANIFEST.json from the table below (kept next to the checks so they stay in step)."""
import json, os
ROOT = os.path.dirname(os.path.dirname(os.path.abspath(__file__)))

NOTE_COMMON = ("Trusted: Lean 4.33 kernel; axioms propext/Classical.choice/Quot.sound only (audited per theorem each run); "
               "the hand-written Lean model is tied to /repo by differential execution (sampled, seeded by VERIF_SEED) — "
               "the theorem is about the model, the correspondence and the end-to-end oracle carry it to the code. ")

CHECKS = {
 "C15": dict(
   technique="Lean 4 proofs parametric in the hash (loop-to-spec induction with fuel, take/drop slice algebra, HkdfLabel by computation, key-update by induction) + the model executed with Lean's own MD5/SHA-1/SHA-256/SHA-384/HMAC/HKDF (validated against hashlib on every run) against key material read from real Decryptor / QuicSession objects + an independent hashlib implementation of the RFC key schedules as oracle",
   text="For every hash suite (hashes are structure parameters, not axioms), all secrets, randoms and lengths: ssl30_/tls10_/tls12_keys_eq_rfc (dev_*_keys = the RFC partition of the RFC key block; TLS 1.0 PRF for even-length secrets, with a proved counterexample for odd ones), master_secret_*_eq_rfc, hkdf_label_bytes (make_info = HkdfLabel encoding iff the lengths fit), tls13_keys_eq_rfc / tls13_installed_eq_rfc, quic_initial_eq_rfc, quic_keys_eq_rfc, quic_installed_eq_rfc, quic_key_update_eq_rfc (n generations by induction), quic_epoch_generations (check_key_epoch invariant), iv_table_eq_rfc, installed_eq_schedule and installed_eq_schedule_premaster (what generate_keys hands to the Decryptor for (version, resolved suite) is the RFC's client/server MAC key, key and - where the RFC takes one from the key block - IV, in the RFC's order). The model is run against a real Session fed synthetic hellos (every table suite x valid version in the thorough tier), against every key_derivator / quic_key_generation function with arbitrary arguments, and against a real QuicSession (set_initial_decryptor, set_tls_decryptors, check_key_epoch up to 4 generations).",
   note=NOTE_COMMON + "Modelled: prf_ssl_30, prf_tls_10_11, prf_tls_12, gen_master_secret_*, dev_ssl_30/tls_10_11/tls_12/tls_13_keys, generate_keys wiring incl. the RSA pre-master branch, Decryptor.parse_keys/update_keys, make_info, dev_initial_keys, dev_quic_keys, key_update, set_initial_decryptor, set_tls_decryptors, check_key_epoch. Inputs of the model: the resolved suite parameters (C14). Not modelled: bytes.fromhex of key-log values, key-size checks of the cryptography constructors, header-protection mask computation, HKDFExpand's 255*HashLen limit. Trusted additionally: harness/spec_keys.py (own RFC implementation and suite-name grammar) and the Lean transcription lean/TLX/Spec/KeySchedules.lean.",
   design="§8.15"),
 "C16": dict(
   technique="Lean 4 proof (omega/case analysis, generic in the window) + differential correspondence of the model with QuicSession.get_full_packet_number + RFC A.3 oracle",
   text="Theorems pn_decode_eq_rfc (impl = RFC 9000 A.3 for all largest, n in 1..4, all truncated values), pn_decode_window, pn_space_isolation, pn_entry_is_max are kernel-checked with no bound. The model (TLX/Quic/PktNum.lean) is executed against the real method on ~37k single-step cases around every window boundary plus packet histories; the real method is also compared with a literal transcription of RFC 9000 A.3.",
   note=NOTE_COMMON + "Modelled: get_full_packet_number incl. its largest==0 shortcut and table update. Not modelled: how decrypt_packet turns the result into the nonce (covered by C02).",
   design="§8.16"),
 "C06": dict(
   technique="Lean 4 proof (induction over records and parts against an independent spec reassembler) + differential correspondence of the model with the real OutputBuilder + strict reader on real outputs",
   text="Theorems parts_flatten / parts_length_le (a record of n bytes carried by k packets is re-split into <= k parts concatenating to the record, all n, k), reassemble_build (for EVERY record list the conversation OutputBuilder.build emits opens with SYN/SYN-ACK/ACK, is gap-free, non-overlapping, consistently acknowledged - an independent textbook reassembler accepts it - and reassembles to exactly the per-direction record bytes) and build_total are kernel-checked with no bound. The model (TLX/TcpOut.lean) is executed against the real OutputBuilder (scapy frames parsed back by an independent strict parser that verifies every length field and checksum) on ~700 record lists per quick run incl. exception cases; the strict pcapng/frame/conversation reader is run on the real tool's output for decryptable, partly decryptable and undecryptable captures with foreign traffic under 8 option combinations, and the full (n, k) matrix n<=32 (64), k<=8 is run end to end.",
   note=NOTE_COMMON + "Modelled: OutputBuilder (split arithmetic, handshake, seq/ack bookkeeping, port choice). Not modelled, checked by the strict reader on real output instead: scapy's serialisation (header layout, IPv4/TCP/UDP checksums - compared per frame), dpkt's pcapng writer, QUICOutputbuilder's UDP frames (their grouping is C02). Hypothesis: < 2^32 bytes per direction (sequence numbers are not reduced mod 2^32 in the source).",
   design="§8.6"),
 "C11": dict(
   technique="Lean 4 proof (one's-complement arithmetic by omega, byte-list lemmas by functional induction) + differential correspondence of the model with ones_complement_checksum / calculate_checksum_tcp / calculate_checksum_udp on real Packet objects + independent RFC 1071 receiver + end-to-end metamorphic runs of main.run()",
   text="Theorems fold_eq_rfc1071 (the fold loop equals the RFC 1071 reduction for every sum), ones_complement_checksum_total (no OverflowError for any byte string), check_eq_rfc_verify (for IPv4/IPv6 × TCP/UDP, every segment length, payload and field value the recompute-and-compare decision equals the receiver-side verification of RFC 1071/768/793/8200 and never raises), run_c_eq_run_filter (the loop with -c over a capture = the loop without -c over the capture minus the bad packets, for an arbitrary handler and any number of packets) are kernel-checked with no bound. The model is executed against the real functions on ~8k frames per quick run (every fold boundary, fields 0x0000/0xffff, odd/even lengths, IPv4 options, IPv6 extension headers, TCP options, Ethernet trailers, random damage, a separate malformed stream); the real functions are compared with an independent receiver; 20 (quick) / 400 (thorough) captures with a decryptable TLS connection, a QUIC connection and corrupted packets are run through main.run() with -c and compared byte for byte with the run without -c on the filtered capture.",
   note=NOTE_COMMON + "Modelled: ones_complement_checksum (pad, sum, fold loop, complement, to_bytes overflow), both pseudo-headers field by field, zeroing of the field, the compare incl. the RFC 768 zero rule, the -c branches of the packet loop with the handlers as parameters. Not modelled: dpkt dissection (hypothesis Dissected: even address lengths, segment holds the field, length fits the IP length field), handle_packet/handle_quic_packet (parameters), logging. Excluded by hypothesis: UDP/IPv4 with checksum field zero (no checksum).",
   design="§8.11"),
 "C14": dict(
   technique="Lean 4 proof by kernel evaluation (decide +kernel) over the cipher table regenerated from /repo on every run, lifted to all code points by lookup lemmas + exhaustive 65536-point correspondence",
   text="resolve_sound_complete: for every code point c, the model of split_cipher_suite over the *generated* table returns none iff c is not in the table, and otherwise the table name is the IANA name of c (independent registry copy) and the parameters equal what an independent token-grammar parser says the name denotes. The table is re-extracted from the working tree each run, so the kernel re-checks the theorem against the current source; the real function is compared with the model and with a Python copy of the spec on all 65 536 code points.",
   note=NOTE_COMMON + "Regenerated: cipher_suites and cipher_suite_parts (dumped from the imported module). Hand-modelled: the 30-line split_cipher_suite loop. Trusted additionally: my transcription of the IANA registry (352 entries) and the name grammar.",
   design="§8.14"),
}

NOT_YET = {}
for i in range(1, 19):
    pid = f"C{i:02d}"
    if pid not in CHECKS:
        NOT_YET[pid] = "check not built yet (work in progress, DESIGN.md §10 order); not claimed in this commit"

def main():
    checks = []
    for pid in sorted(CHECKS):
        c = CHECKS[pid]
        checks.append({
            "property_id": pid,
            "quick_cmd": f"bin/check {pid} --tier quick",
            "thorough_cmd": f"bin/check {pid} --tier thorough",
            "evidence_file": f"evidence/{pid}.json",
            "replay_cmd_template": f"bin/check {pid} --replay {{path}}",
            "engine": "tlx-lean",
            "level_claimed": {"category": "proof", "text": c["text"], "design_ref": c["design"]},
            "level_note": c["note"],
            "technique": c["technique"],
        })
    m = {
        "version": 1,
        "setup_cmd": "bin/setup",
        "hooks": {
            "guard": "TLEXPORT_VERIF",
            "enable": "no source hooks: the harness observes TLExport by importing it from /repo and wrapping third-party objects (env var unused)",
            "baseline_off_cmd": "cd /repo && /venv/bin/python -m pytest -ra -q -p no:cacheprovider --timeout=900 --continue-on-collection-errors",
            "source_commits": [],
            "add_only": True,
        },
        "engines": [{"name": "tlx-lean", "path": "lean/", "serves_properties": sorted(CHECKS),
                     "kind_free_text": "Lean 4 library TLX (models, specs, property theorems), audit meta-program, compiled model driver; Python harness for correspondence and oracles"}],
        "checks": checks,
        "not_applicable": [{"property_id": p, "reason": r} for p, r in sorted(NOT_YET.items())],
        "notes": "Fix commits in /repo are listed in known_findings.json (status fixed). See DESIGN.md.",
    }
    json.dump(m, open(os.path.join(ROOT, "MANIFEST.json"), "w"), indent=1)

if __name__ == "__main__":
    main()
