"""Replay of the non-vacuity capture of lean/TLX/Props/C02File.lean (`Ex.quic_file_instance`) on the REAL tool.

The Lean instance is evaluated with toy hash functions and a constant header-protection mask; the real tool cannot be run
with those (its HKDF is `cryptography`'s). So the SAME capture SHAPE is built here in the toy world of
quic_pipeline_corr (toy AEAD + toy hp mask, REAL key schedule) by the independent sender gen_quic:

    ARP request | client Initial (whole ClientHello, padded) | server Initial (ServerHello) + Handshake (flight), coalesced |
    DNS query | client Handshake (Finished) | 1-RTT client: STREAM "GET" | DNS query | 1-RTT server: STREAM "OK"

as nanosecond libpcap (`-l`), key-log file = the connection's four lines in another order + a line of another connection,
no options. Checked on the real tool's output, read with the strict reader / frame parser of harness/wire.py: exactly the
two UDP frames the theorem's conclusion names (`Ex.out0`): payloads, addresses, ports (no `-m`: original port), MACs,
capture microseconds; and byte equality with the model's `exportFile` (driver `runfile`).

Standalone:  PYTHONPATH=/repo:harness python harness/c02_file_replay.py
"""
import random
import struct

import fw
import gen_quic as G
import quic_pipeline_corr as qp
import tool
import wire


def build(seed=1):
    rng = random.Random(seed)
    c = G.QConn(rng, suite=0x1301, dcid0_len=8, scid_c_len=1, scid_s_len=2, cport=50000, sport=443)
    offer = b"".join(struct.pack(">H", s) for s in (0x1303, 0x1301, 0x1302))
    ch = G.client_hello(c.cr, offer, rng)
    c.cur_dcid_c = c.dcid0
    arp = b"\xff" * 6 + c.cmac + b"\x08\x06" + bytes([0, 1, 8, 0, 6, 4, 0, 1]) + c.cmac + c.cip + b"\0" * 6 + c.sip
    dns = wire.udp_frame(c.cmac, c.smac, c.cip, wire.ipb("10.0.0.53"), 50001, 53,
                         bytes([0x12, 0x34, 1, 0, 0, 1, 0, 0, 0, 0, 0, 0, 1, 0x61, 0, 0, 1, 0, 1]))
    items = [("pkt", c.t - 5, arp)]
    # client Initial: the whole ClientHello, padded
    c.q_initial(0, G.f_crypto(0, ch), pad_to=1162)
    c.flush(0)
    c.dcid_for_client = c.scid_s
    # server: Initial (ServerHello) + Handshake (EncryptedExtensions … Finished), one datagram
    sh = G.server_hello(rng.randbytes(32), struct.pack(">H", c.suite), rng)
    c.q_initial(1, G.f_crypto(0, sh), pnlen=2)
    ee = G.hs(8, b"\0\0") + G.hs(11, rng.randbytes(30)) + G.hs(15, rng.randbytes(20)) + G.hs(20, rng.randbytes(32))
    c.q_handshake(1, G.f_crypto(0, ee))
    c.flush(1)
    items += c.items
    items.append(("pkt", c.t + 1, dns))
    n0 = len(c.items)
    c.t += 2
    # client Handshake: Finished
    c.q_handshake(0, G.f_crypto(0, G.hs(20, rng.randbytes(32))) + b"\x01")
    c.flush(0)
    # 1-RTT
    c.q_1rtt(0, G.f_stream(0, 0, b"GET", fin=True) + b"\0\0\0")
    c.flush(0, b"GET")
    items += c.items[n0:]
    n1 = len(c.items)
    items.append(("pkt", c.t + 1, dns))
    c.t += 2
    c.q_1rtt(1, b"\x01" + G.f_stream(3, 0, b"OK", explicit_len=False), pnlen=2)
    c.flush(1, b"OK")
    items += c.items[n1:]
    lines = c.keylog_lines()                                     # chs, shs, cap, sap
    other = f"CLIENT_TRAFFIC_SECRET_0 {'09' * 32} 0102"
    keylog = [lines[1], other, lines[0], lines[3], lines[2]]
    return c, items, keylog


def main():
    ctx = fw.Ctx("C02", "quick", 0)
    with qp.both_worlds():
        c, items, keylog = build()
        cap = wire.pcap_legacy(items, nano=True)
        kl = "\n".join(keylog) + "\n"
        r = tool.run(cap, kl, ["-l"], infile_name="in.pcap")
        assert not r.crashed, (r.exc, r.where)
        got = wire.read_output(r.out)
        want = [(t, srv, data) for t, srv, data in c.expect]
        assert len(got) == 2 == len(want), (len(got), len(want))
        for (us, p), (t, srv, data) in zip(got, want):
            assert us == t and p["proto"] == 17 and p["payload"] == data and p["v6"] is False, (us, t, p)
            src, dst = ((c.sip, 443, c.smac), (c.cip, 50000, c.cmac)) if srv else ((c.cip, 50000, c.cmac), (c.sip, 443, c.smac))
            assert (p["src"], p["sport"], p["smac"]) == src and (p["dst"], p["dport"], p["dmac"]) == dst, p
        assert [p["payload"] for _, p in got] == [b"GET", b"OK"]
        model = ctx.driver("pipeline", ["reset", "opt 0 0 0 - -", f"runfile 1 {kl.encode().hex()} {cap.hex()}"], timeout=600)
        assert model[2] == "file:" + r.out.hex(), (model[2][:80], r.out.hex()[:80])
    print("c02_file_replay: real tool exports exactly GET / OK for the capture shape of Ex.quic_file_instance;",
          f"{len(items)} packets in, 2 frames out; model bytes = tool bytes ({len(r.out)} bytes)")


if __name__ == "__main__":
    main()
