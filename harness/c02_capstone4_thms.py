"""Theorems of lean/TLX/Props/C02Capstone4.lean (+ instances in C02Capstone4Ex.lean): C02 with 0-RTT packets anywhere in the
interleaved history, under the condition "the suite of the last set_tls_decryptors call is the client's 0-RTT suite"."""
MODULES = ["TLX.Props.C02Capstone4", "TLX.Props.C02Capstone4Ex"]
_P = "TLX.Props.C02Capstone4."
THEOREMS = [_P + n for n in [
    "quic_connection_exact_0rtt",
    "x_dg_step", "x_feed_step", "x_feed_rest", "tail_loop_early", "zr_loop", "hsSt_after_zr", "hs_loop_early", "hs_turn_x",
    "hs_packet_early", "handleFrames_early", "handleCrypto_early", "afterTls_unknown", "afterTls_quiet", "ecsFold_append",
    "inDgX_frames", "inDgX_data", "hasExported_inDgX", "outDgram_inDgX", "keys_of_oks",
    "ExZ.zero_rtt_exported", "ExZ.zero_rtt_not_first_offered_lost", "ExZ.zero_rtt_instance", "ExZ.keylogZ",
    "ExZ.okZ", "ExZ.okS", "ExZ.okC",
]]
