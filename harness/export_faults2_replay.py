"""Replays of lean/TLX/Props/ExportFaults2.lean on the REAL tool (toy world):
 1. TLS `delete` in a one-direction tail (`export_victim_delete_tls`): per direction a byte prefix; and with the other
    direction still active behind the hole (NOT covered by the theorem): what the tool does.
 2. TLS `cut-before` (`export_victim_headless_tls`): no plaintext; without `-a` nothing at all.
 3. QUIC: one 1-RTT datagram missing (`quic_loss_subsequence`): the exported datagrams are a subsequence.

    PYTHONPATH=$TLX_REPO:harness python harness/export_faults2_replay.py
"""
import random

import e2e
import gen_quic
import quic_pipeline_corr as qp
import tool
import wire


def streams(out, cip):
    c2s, s2c = b"", b""
    for _us, d in (wire.read_output(out) if out else []):
        if d["src"] == cip:
            c2s += d["payload"]
        else:
            s2c += d["payload"]
    return c2s, s2c


def main(seed=6):
    rng = random.Random(seed)
    res = {}
    with qp.both_worlds():
        sc = e2e.Scenario(rng, [(0x009C, "tls12", False)], sports=[443])
        pk = list(sc.items)
        kl = "\n".join(sc.keylog) + "\n"
        par = [wire.parse_frame(f) for _, _, f in pk]
        cip = par[0]["src"]
        full = tool.run(wire.pcapng(pk), kl, [])
        f_c, f_s = streams(full.out, cip)
        # one-direction tail: the last index j from which on every payload packet has the source of packet j
        data = [i for i, d in enumerate(par) if d["payload"]]
        j = data[-1]
        while data.index(j) > 0 and par[data[data.index(j) - 1]]["src"] == par[data[-1]]["src"]:
            j = data[data.index(j) - 1]
        hole = tool.run(wire.pcapng(pk[:j] + pk[j + 1:]), kl, [])
        h_c, h_s = streams(hole.out, cip)
        ok1 = f_c.startswith(h_c) and f_s.startswith(h_s)
        print(f"[1] TLS delete of packet {j} (one-direction tail of {len(pk) - j} packets): exported {len(h_c)}+{len(h_s)} of "
              f"{len(f_c)}+{len(f_s)} bytes; byte prefix in both directions: {ok1}")
        res["delete-tail"] = ok1
        mid = data[len(data) // 2]
        hole2 = tool.run(wire.pcapng(pk[:mid] + pk[mid + 1:]), kl, [])
        m_c, m_s = streams(hole2.out, cip)
        print(f"[1] TLS delete of packet {mid} (both directions active behind it, not covered by the theorem): "
              f"{len(m_c)}+{len(m_s)} of {len(f_c)}+{len(f_s)} bytes; byte prefix in both directions: "
              f"{f_c.startswith(m_c) and f_s.startswith(m_s)}")
        # 2. cut-before: drop everything up to and including the ClientHello
        ch = next(i for i, d in enumerate(par) if d["payload"][:1] == b"\x16" and d["payload"][5:6] == b"\x01")
        head = tool.run(wire.pcapng(pk[ch + 1:]), kl, [])
        heada = tool.run(wire.pcapng(pk[ch + 1:]), kl, ["-a"])
        n0 = len(list(wire.read_output(head.out))) if head.out else 0
        a_c, a_s = streams(heada.out, cip)
        raw = b"".join(d["payload"] for d in par[ch + 1:] if d["src"] == cip)
        print(f"[2] TLS cut-before (capture starts behind the ClientHello): without -a {n0} frames; with -a the client stream "
              f"is the captured records verbatim: {a_c == raw[:len(a_c)] and len(a_c) > 0}")
        res["cut-before"] = n0 == 0
        # 3. QUIC: a 1-RTT datagram missing
        q, _ = gen_quic.random_connection(rng, 0, features={"endpoints": {"sport": 443}})
        qi = [("pkt", ts, fr) for _, ts, fr in q.items]
        qkl = "\n".join(q.keylog_lines()) + "\n"
        fullq = [d["payload"] for _us, d in wire.read_output(tool.run(wire.pcapng(qi), qkl, []).out)]
        short = [i for i, (_, _, fr) in enumerate(qi) if not wire.parse_frame(fr)["payload"][0] & 0x80]
        oks = []
        for k in short[1:4]:
            o = tool.run(wire.pcapng(qi[:k] + qi[k + 1:]), qkl, []).out
            got = [d["payload"] for _us, d in wire.read_output(o)] if o else []
            it = iter(fullq)
            oks.append(all(any(x == y for y in it) for x in got))
        print(f"[3] QUIC, one short-header datagram missing (positions {short[1:4]}): exported datagrams are a subsequence of "
              f"the complete export ({len(fullq)} datagrams): {oks}")
        res["quic-loss"] = all(oks)
    return res


if __name__ == "__main__":
    main()
