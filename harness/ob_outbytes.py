"""Correspondence of the Lean model of the OUTPUT BYTES (`lean/TLX/OutBytes.lean`) with the real code that produces them:

  (i)   the REAL `OutputBuilder` / `QUICOutputbuilder` (constructed as `Session.decrypt` / `QuicSession.build_output`
        construct them) → `bytes(scapy_packet)` for every packet, against
        `TcpOut.build` / `Quic.UdpOut.build` → `Pipeline.addressed` / `udpAddressed` → `serializeFrame`
        (`tlxdriver outbytes`, ops `tcpbuild` / `udpbuild`), and single frames over the whole field space
        (op `frame`, real side = the same scapy layer stacks);
  (ii)  the REAL `dpkt.pcapng.Writer(file, snaplen=20000)` + `writepkt(frame, ts)` on random frame lists and float
        time stamps (incl. exact .5 µs ties) against `pcapng` (op `file`), and whole exports (builder → writer, as
        main.py 286-291) against `fileOfFrames` (ops `tcpfile` / `udpfile`);
  (iii) the independent strict reader of the harness (`wire.read_pcapng_strict`, `wire.parse_frame`: every length
        field, IPv4 header checksum, TCP/UDP pseudo-header checksums) must accept every file / frame the MODEL
        produced and return exactly the fields that went in.
"""
import io
import ipaddress
import struct
import types

import fw
import wire

MODULES = ["TLX.Props.C06Bytes"]
P = "TLX.Props.C06Bytes."
THEOREMS = [P + n for n in (
    "scapy_checksum_is_rfc1071", "serialize_ok_iff", "parse_serialize", "parse_serialize_outpkt",
    "ipv4_header_checksum_valid", "l4_checksum_valid", "tcp_checksum_valid", "udp_checksum_valid", "l4_check_accepts",
    "length_fields_consistent", "pcapng_ok_iff", "pcapng_is_draft_encoding", "pcapng_roundtrip", "pcapng_wellformed",
    "fileOf_ok_iff", "fileOf_roundtrip")]

PT_BUILD_TCP = "outbytes.tcpbuild"
PT_BUILD_UDP = "outbytes.udpbuild"
PT_FRAME = "outbytes.frame"
PT_FILE = "outbytes.file"
PT_EXPORT = "outbytes.export"
PT_STRICT = "outbytes.strict-reader"

STREAM = list(range(0x08, 0x10))


# ----------------------------------------------------------------------------- helpers
def hx(b):
    return b.hex() or "-"


def exc_tag(e):
    if isinstance(e, struct.error):
        return "struct"
    if isinstance(e, ValueError):
        return "value"
    return type(e).__name__


def us_of(ts):
    return int(round(ts * 1e6))


def rand_mac(rng):
    r = rng.random()
    if r < 0.1:
        return rng.choice([b"\xff" * 6, b"\0" * 6, b"1:2:3a", b"     1", b"123456", b"::::::"])   # ASCII look-alikes
    return rng.randbytes(6)


def rand_ip(rng, v6):
    r = rng.random()
    if v6:
        if r < 0.1:
            return rng.choice([bytes(16), b"\xff" * 16, bytes(10) + b"\xff\xff" + rng.randbytes(4), bytes(15) + b"\1",
                               bytes.fromhex("fe80") + bytes(6) + rng.randbytes(8)])
        return rng.randbytes(16)
    if r < 0.1:
        return rng.choice([bytes(4), b"\xff" * 4, b"\x7f\0\0\1", b"\xe0\0\0\1"])
    return rng.randbytes(4)


def rand_port(rng):
    return rng.choice([0, 1, 80, 443, 8080, 65535, rng.randrange(0, 65536), rng.randrange(0, 65536)])


def rand_len(rng, big_ok=True):
    r = rng.random()
    if r < 0.25:
        return rng.choice([0, 1, 2, 3, 4, 5, 6, 7, 8])
    if r < 0.7:
        return rng.randrange(0, 1500)
    if r < 0.9 or not big_ok:
        return rng.randrange(1400, 9001)
    return rng.randrange(65440, 65560)           # around every 16-bit length limit (v4/v6 × TCP/UDP)


def rand_payload(rng, n):
    r = rng.random()
    if r < 0.1:
        return bytes(n)
    if r < 0.2:
        return b"\xff" * n
    return rng.randbytes(n)


def ipstr(b):
    return str(ipaddress.ip_address(b))


class Sess:
    def __init__(self, rng, v6=None):
        self.v6 = rng.random() < 0.5 if v6 is None else v6
        self.smac, self.cmac = rand_mac(rng), rand_mac(rng)
        self.sip, self.cip = rand_ip(rng, self.v6), rand_ip(rng, self.v6)
        self.sport, self.cport = rand_port(rng), rand_port(rng)
        self.keep = rng.random() < 0.6
        pm = {}
        for _ in range(rng.choice([0, 0, 1, 2])):
            pm[rng.choice([self.sport, rand_port(rng)])] = rand_port(rng)
        self.portmap = pm

    def enc(self):
        pm = ",".join(f"{a}:{b}" for a, b in self.portmap.items()) or "-"
        return (f"{1 if self.keep else 0} {pm} {1 if self.v6 else 0} {hx(self.smac)} {hx(self.cmac)} {hx(self.sip)} "
                f"{hx(self.cip)} {self.sport} {self.cport}")


# ----------------------------------------------------------------------------- (i) the builders
def gen_tcp_records(rng):
    """[(srv, plain|None, [ts_us…])]: what `Session.application_traffic` holds"""
    n = rng.choice([1, 1, 2, 3, 5, 8])
    t = rng.choice([0, 1, 1_700_000_000_000_000, rng.randrange(0, 2 ** 44)])
    recs = []
    big_left = 1
    for _ in range(n):
        k = rng.choice([1, 1, 1, 2, 3, 5])
        ts = []
        for _ in range(k):
            t += rng.choice([0, 1, 7, 1000, 250000])
            ts.append(t)
        r = rng.random()
        if r < 0.05:
            plain = None
        else:
            ln = rand_len(rng, big_ok=big_left > 0)
            if ln > 60000:
                big_left -= 1
                if rng.random() < 0.7:
                    ts = ts[:1]
            plain = rand_payload(rng, ln)
        recs.append((rng.random() < 0.5, plain, ts))
    return recs


def real_tcp_build(s, recs):
    """→ ([(scapy packet, ts float)…] | None when build() raised, exception tag)"""
    from tlexport.output_builder import OutputBuilder
    dec = [(pl, types.SimpleNamespace(metadata=[types.SimpleNamespace(timestamp=t / 1e6) for t in ts]), srv)
           for srv, pl, ts in recs]
    try:
        with fw.quiet():
            ob = OutputBuilder(dec, ipstr(s.sip), ipstr(s.cip), s.sport, s.cport, s.smac, s.cmac, dict(s.portmap), s.v6,
                               s.keep)
            return ob.build(), None
    except Exception as e:  # noqa
        return None, type(e).__name__


def enc_tcp_records(recs):
    return " ".join(f"{1 if srv else 0}:{'N' if pl is None else hx(pl)}:{','.join(map(str, ts)) or '-'}"
                    for srv, pl, ts in recs)


def gen_quic_frames(rng):
    """[(ftype, ts_us, srv, data)] datagram-structured"""
    nd = rng.choice([1, 1, 2, 3, 4, 6])
    t = rng.choice([0, 5, 1_700_000_000_000_000, rng.randrange(0, 2 ** 44)])
    out = []
    big_left = 1
    for _ in range(nd):
        srv = rng.random() < 0.5
        t += rng.choice([0, 1, 1, 2, 1000])
        for _ in range(rng.choice([1, 1, 2, 3])):
            ft = rng.choice(STREAM + STREAM + [0x06, 0xfe, 0x01, 0x02])
            ln = rand_len(rng, big_ok=big_left > 0)
            if ln > 60000:
                big_left -= 1
            out.append((ft, t, srv, rand_payload(rng, ln)))
    return out


def real_udp_build(s, frames, md):
    from tlexport.quic.quic_output_builder import QUICOutputbuilder

    def mk(ft, ts, srv, data):
        f = types.SimpleNamespace(frame_type=ft, src_packet=types.SimpleNamespace(ts=ts / 1e6, isserver=bool(srv)))
        if ft in STREAM:
            f.stream_data = data
        elif ft == 0x06:
            f.crypto = data
        elif ft == 0xfe:
            f.payload = data
        return f
    try:
        with fw.quiet():
            ob = QUICOutputbuilder([mk(*f) for f in frames], ipstr(s.sip), ipstr(s.cip), s.sport, s.cport, s.smac, s.cmac,
                                   dict(s.portmap), s.v6, s.keep)
            return ob.build(md), None
    except Exception as e:  # noqa
        return None, type(e).__name__


def enc_quic_frames(frames):
    return " ".join(f"{ft}:{ts}:{1 if srv else 0}:{hx(d)}" for ft, ts, srv, d in frames)


def render_real(out):
    """[(packet, ts)] → the driver's reply format, serialising every packet on its own"""
    if out is None:
        return "raised"
    if not out:
        return "empty"
    toks = []
    for pkt, ts in out:
        try:
            with fw.quiet():
                b = bytes(pkt)
            toks.append(f"{us_of(ts)}:{hx(b)}")
        except Exception as e:  # noqa
            toks.append(f"{us_of(ts)}:err-{exc_tag(e)}")
    return " ".join(toks)


def real_file(out):
    """main.py 286-291 on a builder result"""
    import dpkt.pcapng
    if out is None:
        return "raised"
    f = io.BytesIO()
    try:
        with fw.quiet():
            w = dpkt.pcapng.Writer(f, snaplen=20000)
            for buf, ts in out:
                w.writepkt(bytes(buf), ts)
    except Exception as e:  # noqa
        return "err:" + exc_tag(e)
    return f.getvalue().hex()


# ----------------------------------------------------------------------------- single frames
def gen_frame(rng, i):
    v6 = rng.random() < 0.5
    udp = rng.random() < 0.4
    s = Sess(rng, v6)
    r = rng.random()
    flags = rng.choice([0x02, 0x12, 0x10, 0x18, 0x18, 0x18, 0x11, 0x04, 0, 0xff, 0x1ff, rng.randrange(0, 512)])
    seq = rng.choice([0, 1, 2 ** 32 - 1, rng.randrange(0, 2 ** 32), rng.randrange(0, 2 ** 32)])
    ack = rng.choice([0, 1, 2 ** 32 - 1, rng.randrange(0, 2 ** 32), rng.randrange(0, 2 ** 32)])
    sport, dport = s.cport, s.sport
    if r < 0.03:                                   # values the fixed-width fields cannot hold
        which = rng.randrange(5)
        if which == 0:
            sport = 65536 + rng.randrange(0, 10)
        elif which == 1:
            dport = 65536 + rng.randrange(0, 100000)
        elif which == 2:
            seq = 2 ** 32 + rng.randrange(0, 10)
        elif which == 3:
            ack = 2 ** 32 + rng.randrange(0, 2 ** 33)
        else:
            flags = 512 + rng.randrange(0, 4096)   # truncated to nine bits, no exception
    ln = rand_len(rng, big_ok=(i % 5 == 0))
    return dict(v6=v6, udp=udp, smac=s.cmac, dmac=s.smac, sip=s.cip, dip=s.sip, sport=sport, dport=dport, flags=flags,
                seq=seq, ack=ack, ts=rng.randrange(0, 2 ** 44), pay=rand_payload(rng, ln), raw=rng.random() < 0.9)


def enc_frame(f):
    return (f"{1 if f['v6'] else 0} {'udp' if f['udp'] else 'tcp'} {hx(f['smac'])} {hx(f['dmac'])} {hx(f['sip'])} "
            f"{hx(f['dip'])} {f['sport']} {f['dport']} {f['flags']} {f['seq']} {f['ack']} {f['ts']} {hx(f['pay'])}")


def real_frame(f):
    from scapy.packet import Raw
    from scapy.layers.l2 import Ether
    from scapy.layers.inet import IP, TCP, UDP
    from scapy.layers.inet6 import IPv6
    try:
        with fw.quiet():
            ipl = (IPv6 if f["v6"] else IP)(src=ipstr(f["sip"]), dst=ipstr(f["dip"]))
            if f["udp"]:
                l4 = UDP(dport=f["dport"], sport=f["sport"])
            else:
                l4 = TCP(dport=f["dport"], sport=f["sport"], flags=f["flags"], seq=f["seq"], ack=f["ack"])
            p = Ether(src=f["smac"], dst=f["dmac"]) / ipl / l4
            if f["udp"] or f["pay"] or f["raw"]:           # the TCP builders omit Raw for the handshake and pure ACKs
                p = p / Raw(f["pay"])
            return hx(bytes(p))
    except Exception as e:  # noqa
        return "err:" + exc_tag(e)


def strict_check_frame(ctx, f, model_hex):
    """the independent parser must accept the model's frame and give back the fields"""
    try:
        d = wire.parse_frame(bytes.fromhex(model_hex))
    except wire.FrameError as e:
        ctx.disagree(PT_STRICT, enc_frame(f), "strict parser: " + str(e), model_hex[:200])
        return
    want = dict(smac=f["smac"], dmac=f["dmac"], v6=f["v6"], src=f["sip"], dst=f["dip"], proto=17 if f["udp"] else 6,
                sport=f["sport"], dport=f["dport"], payload=f["pay"])
    if not f["udp"]:
        want.update(seq=f["seq"], ack=f["ack"], flags=f["flags"] % 256)
    got = {k: (bytes(v) if isinstance(v, (bytes, bytearray)) else v) for k, v in d.items()}
    if got != want:
        ctx.disagree(PT_STRICT, enc_frame(f), {k: str(v)[:80] for k, v in want.items()},
                     {k: str(v)[:80] for k, v in got.items()})


# ----------------------------------------------------------------------------- (ii) the writer
def gen_ts(rng):
    r = rng.random()
    if r < 0.3:                                    # exact .5 µs ties and their neighbours (round-half-even)
        k = rng.randrange(0, 2 ** 31)
        return (2 * k + 1) / 2e6 if rng.random() < 0.7 else (k + 0.5) / 1e6 + rng.choice([-1e-9, 1e-9])
    if r < 0.4:
        return float(rng.randrange(0, 2 ** 31))
    if r < 0.5:
        return rng.choice([0.0, 1e-7, 5e-7, 4.9999999e-7, 2.0000005, 4294.967296, 4294.967295, 4294.9672955,
                           2.0 ** 33 + 0.25, 1.8e13])
    if r < 0.55:
        return rng.uniform(0, 1.8e13)              # ts_high up to 2^32 - 1
    return rng.uniform(0, 2.0e9)


def gen_file(rng, i):
    n = rng.choice([0, 1, 1, 2, 3, 5, 8, 13])
    pkts = []
    for _ in range(n):
        r = rng.random()
        ln = rng.choice([0, 1, 2, 3, 4, 5, 54, 60, 61, 62, 63]) if r < 0.4 else rng.randrange(0, 3000) if r < 0.93 \
            else rng.choice([19999, 20000, 20001, 25000, 65549])          # caplen is NOT clipped by snaplen
        pkts.append((rng.randbytes(ln), gen_ts(rng)))
    if i % 40 == 7 and pkts:                       # a time stamp that does not fit 64 bits of µs
        j = rng.randrange(len(pkts))
        pkts[j] = (pkts[j][0], rng.choice([2.0 ** 64 / 1e6, 1.9e13, 1e20]))
    return pkts


def real_write(pkts):
    import dpkt.pcapng
    f = io.BytesIO()
    try:
        w = dpkt.pcapng.Writer(f, snaplen=20000)
        for b, ts in pkts:
            w.writepkt(b, ts)
    except Exception as e:  # noqa
        return "err:" + exc_tag(e)
    return f.getvalue().hex()


def tool_reader(data):
    """the tool's OWN reader on a file: [(µs, frame)]"""
    from tlexport import dpkt_dsb
    return [(us_of(ts), bytes(buf)) for ts, buf in dpkt_dsb.Reader(io.BytesIO(data))]


# ----------------------------------------------------------------------------- the run
def correspond(ctx):
    rng = ctx.rng
    frames_total = 0

    # (i) builders
    nsess = ctx.n(260, 2500)
    lines, reals, cases, outs = [], [], [], []
    for i in range(nsess):
        s = Sess(rng)
        if i % 2 == 0:
            recs = gen_tcp_records(rng)
            out, exc = real_tcp_build(s, recs)
            line = f"tcpbuild {s.enc()} {enc_tcp_records(recs)}"
            pt = PT_BUILD_TCP
        else:
            fr = gen_quic_frames(rng)
            md = rng.random() < 0.5
            out, exc = real_udp_build(s, fr, md)
            line = f"udpbuild {1 if md else 0} {s.enc()} {enc_quic_frames(fr)}"
            pt = PT_BUILD_UDP
        lines.append(line)
        reals.append(render_real(out))
        cases.append((pt, s.v6))
        outs.append(out)
    replies = ctx.driver("outbytes", lines)
    file_lines, file_reals = [], []
    for line, real, model, (pt, v6), out in zip(lines, reals, replies, cases, outs):
        ctx.point(pt)["cases"] += 1
        nfr = 0 if real in ("raised", "empty") else len(real.split(" "))
        frames_total += nfr
        ctx.point(pt).setdefault("frames", 0)
        ctx.point(pt)["frames"] += nfr
        ctx.count(line[:4000], nontrivial=nfr > 0)
        ctx.hist("builder", f"{pt.split('.')[1]}/{'v6' if v6 else 'v4'}")
        if "err-" in real:
            ctx.hist("builder", "with-a-frame-scapy-cannot-serialise")
        if real != model:
            ctx.disagree(pt, line[:1500], real[:600], model[:600])
        if len(file_lines) < ctx.n(120, 600) and len(line) < 60000:
            file_lines.append(line.replace("tcpbuild", "tcpfile", 1).replace("udpbuild", "udpfile", 1))
            file_reals.append(real_file(out))
    # whole exports: builder → writer, as main.py
    replies = ctx.driver("outbytes", file_lines)
    for line, real, model in zip(file_lines, file_reals, replies):
        ctx.point(PT_EXPORT)["cases"] += 1
        ctx.count(("export", line[:4000]), nontrivial=not real.startswith(("err", "raised")))
        if real != model:
            ctx.disagree(PT_EXPORT, line[:1500], real[:600], model[:600])
        elif not real.startswith(("err", "raised")):
            try:                                   # (iii) on whole exports
                got = wire.read_output(bytes.fromhex(model))
                if [u for u, _ in got] != [u for u, _ in tool_reader(bytes.fromhex(model))]:
                    ctx.disagree(PT_STRICT, line[:1500], "time stamps: strict reader vs tool's reader", "")
            except wire.FrameError as e:
                ctx.disagree(PT_STRICT, line[:1500], "strict reader: " + str(e), model[:300])

    # single frames over the whole field space
    nfr = ctx.n(2200, 20000)
    fs = [gen_frame(rng, i) for i in range(nfr)]
    lines = ["frame " + enc_frame(f) for f in fs]
    replies = ctx.driver("outbytes", lines)
    for f, line, model in zip(fs, lines, replies):
        real = real_frame(f)
        ctx.point(PT_FRAME)["cases"] += 1
        frames_total += 1
        ok = not real.startswith("err")
        ctx.count(line[:4000], nontrivial=ok)
        ctx.hist("frame", ("udp" if f["udp"] else "tcp") + ("/v6" if f["v6"] else "/v4") + ("" if ok else "/" + real))
        ctx.hist("payload-length", "0" if not f["pay"] else "1-8" if len(f["pay"]) <= 8 else
                 "odd<1500" if len(f["pay"]) < 1500 and len(f["pay"]) % 2 else "even<1500" if len(f["pay"]) < 1500 else
                 "1500-9000" if len(f["pay"]) <= 9000 else "near-65535")
        if real != model:
            ctx.disagree(PT_FRAME, line[:1500], real[:600], model[:600])
        elif ok:
            strict_check_frame(ctx, f, model)
            ctx.point(PT_STRICT)["cases"] += 1

    # (ii) writer
    nfiles = ctx.n(320, 3000)
    files = [gen_file(rng, i) for i in range(nfiles)]
    lines = ["file " + " ".join(f"{us_of(ts)} {hx(b)}" for b, ts in pk) for pk in files]
    replies = ctx.driver("outbytes", lines)
    for pk, line, model in zip(files, lines, replies):
        real = real_write(pk)
        ctx.point(PT_FILE)["cases"] += 1
        ok = not real.startswith("err")
        ctx.count(("file", line[:4000]), nontrivial=ok and len(pk) > 0)
        ctx.hist("file", f"{min(len(pk), 9)} packets" + ("" if ok else "/" + real))
        if real != model:
            ctx.disagree(PT_FILE, line[:1500], real[:600], model[:600])
        elif ok:
            data = bytes.fromhex(model)
            want = [(us_of(ts), b) for b, ts in pk]
            if any(len(b) > 20000 for b, _ in pk):
                # dpkt does not clip caplen to the snaplen it announced (20000): the strict reader rejects such a
                # file by design; the tool's frames stay below (TLS records ≤ 2^14 + 2048; see the report)
                ctx.hist("file", "caplen > snaplen (strict reader not asked)")
                continue
            try:
                if wire.read_pcapng_strict(data) != want:
                    ctx.disagree(PT_STRICT, line[:1500], "strict pcapng reader returns other packets", "")
                # the tool's reader evaluates ticks / 1e6 in doubles: exact to the µs below 2^31 s (C12 residue)
                if all(u < 2 ** 31 * 10 ** 6 for u, _ in want) and tool_reader(data) != want:
                    ctx.disagree(PT_STRICT, line[:1500], "the tool's reader returns other packets", "")
            except wire.FrameError as e:
                ctx.disagree(PT_STRICT, line[:1500], "strict pcapng reader: " + str(e), model[:300])
            ctx.point(PT_STRICT)["cases"] += 1
    ctx.extra["outbytes"] = {"frames_compared": frames_total, "files_compared": nfiles + len(file_lines)}
    return frames_total, nfiles + len(file_lines)
