"""Driving the real TLExport program (the code under $TLX_REPO) from the harness.

`run(capture, keylog, args)` executes `tlexport.main.run()` either in-process (≈ 20 ms; the four module-level lists of
tlexport.main are reset first unless `reset=False`, argv is set, stdout silenced) or as the CLI in a subprocess
(≈ 0.4 s; used where process state matters: C18, and as the reference in self-checks).
The result carries the output file bytes, the exit status and the exception (type, function, line) if the run died."""
import contextlib
import io
import os
import shutil
import subprocess
import sys
import tempfile
import traceback

REPO = os.environ.get("TLX_REPO", "/repo")
TMPBASE = "/dev/shm" if os.path.isdir("/dev/shm") else None


class Result:
    def __init__(self, rc, out, exc=None, where=None, stderr=""):
        self.rc, self.out, self.exc, self.where, self.stderr = rc, out, exc, where, stderr

    @property
    def crashed(self):
        return self.exc is not None or self.rc not in (0,)

    def signature(self):
        if self.exc:
            return f"crash:{self.exc}@{self.where}"
        if self.rc != 0:
            return f"exit:{self.rc}"
        return "ok"


def _reset_module_state(main):
    """What a fresh process would start with (module-level state of tlexport.main)."""
    main.server_ports[:] = [443, 44330]
    main.keylog.clear()
    main.sessions.clear()
    main.quic_sessions.clear()


def run(capture, keylog=None, args=(), mode="inproc", reset=True, infile_name="in.pcapng", cwd=None, env=None,
        keep_dir=False):
    """capture: bytes of the input file; keylog: str/bytes or None (then no -s is passed);
    args: extra CLI arguments (e.g. ['-a'], ['-l'], ['-m', '443:8443'])."""
    d = tempfile.mkdtemp(prefix="tlx_", dir=TMPBASE)
    try:
        inp, outp, klp = os.path.join(d, infile_name), os.path.join(d, "out.pcapng"), os.path.join(d, "keys.log")
        with open(inp, "wb") as fh:
            fh.write(capture)
        argv = ["-i", inp, "-o", outp]
        if keylog is not None:
            with open(klp, "wb") as fh:
                fh.write(keylog.encode() if isinstance(keylog, str) else keylog)
            argv += ["-s", klp]
        argv += list(args)
        if mode == "cli":
            e = dict(os.environ)
            e["PYTHONPATH"] = REPO
            if env:
                e.update(env)
            p = subprocess.run([sys.executable, "-W", "ignore", "-m", "tlexport.main"] + argv, cwd=cwd or REPO, env=e,
                               stdout=subprocess.PIPE, stderr=subprocess.PIPE, text=True, timeout=300)
            out = open(outp, "rb").read() if os.path.exists(outp) else None
            exc = where = None
            if p.returncode != 0:
                lines = [l for l in p.stderr.strip().splitlines() if l.strip()]
                if lines and ":" in lines[-1]:
                    exc = lines[-1].split(":")[0].strip()
                    fl = [l for l in lines if l.strip().startswith("File ")]
                    where = fl[-1].strip().split(", in ")[-1] if fl else "?"
            return Result(p.returncode, out, exc, where, p.stderr[-2000:])
        import tlexport.main as main
        if reset:
            _reset_module_state(main)
        old_argv, old_cwd = sys.argv, os.getcwd()
        sys.argv = ["tlexport"] + argv
        buf = io.StringIO()
        rc, exc, where = 0, None, None
        try:
            if cwd:
                os.chdir(cwd)
            with contextlib.redirect_stdout(buf), contextlib.redirect_stderr(buf):
                main.run()
        except SystemExit as e:
            rc = e.code if isinstance(e.code, int) else (0 if e.code is None else 1)
        except BaseException as e:  # noqa
            rc = 1
            exc = type(e).__name__
            tb = traceback.extract_tb(e.__traceback__)
            own = [f for f in tb if "tlexport" in f.filename]
            fr = (own or tb)[-1]
            where = fr.name
        finally:
            sys.argv = old_argv
            os.chdir(old_cwd)
        out = open(outp, "rb").read() if os.path.exists(outp) else None
        return Result(rc, out, exc, where, buf.getvalue()[-2000:])
    finally:
        if not keep_dir:
            shutil.rmtree(d, ignore_errors=True)


def pmap(fn, jobs, procs=None):
    """Order-preserving parallel map in forked workers (thorough tiers). fn must be a module-level function."""
    import multiprocessing as mp
    procs = procs or min(16, os.cpu_count() or 1)
    if procs <= 1 or len(jobs) < 4:
        return [fn(j) for j in jobs]
    ctx = mp.get_context("fork")
    with ctx.Pool(procs) as pool:
        return pool.map(fn, jobs, chunksize=max(1, len(jobs) // (procs * 8)))
