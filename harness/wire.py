"""Independent wire-level toolkit of the harness (shares no code with tlexport, dpkt or scapy):

* builders for Ethernet / IPv4 / IPv6 / TCP / UDP frames with correct lengths and checksums;
* capture containers: pcapng (both byte orders, if_tsresol, if_tsoffset, DSBs, interspersed blocks) and
  legacy pcap (µs/ns, both byte orders);
* a STRICT reader for the tool's output: pcapng block structure, frame structure, length fields,
  IPv4 header checksum, TCP/UDP pseudo-header checksums, and a TCP conversation checker/reassembler.
"""
import ipaddress
import struct


class FrameError(Exception):
    pass


# ----------------------------------------------------------------------------- checksums
# ports the tool or the checks treat as server ports somewhere (defaults 443/44330, -p / -m values used by the checks)
RESERVED_PORTS = {53, 443, 4433, 5555, 8080, 8443, 8444, 9000, 9001, 9443, 44330, 50001}


def client_port(rng, lo=20000, hi=60000):
    """an ephemeral client port: never a port that is (or, with the offsets the endpoint patterns add, becomes) one the
    tool regards as a server port — with both ends on server ports the roles are ambiguous and no property claims them"""
    while True:
        p = lo + rng.randrange(hi - lo)
        if not any(p + k in RESERVED_PORTS for k in range(0, 111)):
            return p


def ones_sum(b):
    if len(b) % 2:
        b = b + b"\0"
    s = sum(struct.unpack(">%dH" % (len(b) // 2), b))
    while s >> 16:
        s = (s & 0xFFFF) + (s >> 16)
    return s


def csum(b):
    return (~ones_sum(b)) & 0xFFFF


def pseudo(src, dst, proto, l4len):
    if len(src) == 16:
        return src + dst + struct.pack(">I", l4len) + b"\0\0\0" + bytes([proto])
    return src + dst + b"\0" + bytes([proto]) + struct.pack(">H", l4len)


# ----------------------------------------------------------------------------- builders
def ipb(a):
    return a if isinstance(a, bytes) else ipaddress.ip_address(a).packed


def tcp_segment(src, dst, sport, dport, seq, ack, flags, data, window=8192, options=b"", bad_csum=False):
    assert len(options) % 4 == 0
    off = 5 + len(options) // 4
    h = struct.pack(">HHIIBBHHH", sport, dport, seq & 0xFFFFFFFF, ack & 0xFFFFFFFF, off << 4, flags, window, 0, 0) + options
    c = csum(pseudo(src, dst, 6, len(h) + len(data)) + h + data)
    if bad_csum:
        c ^= 0x0101
    return h[:16] + struct.pack(">H", c) + h[18:] + data


def udp_datagram(src, dst, sport, dport, data, bad_csum=False, force_csum=None):
    h = struct.pack(">HHHH", sport, dport, 8 + len(data), 0)
    c = csum(pseudo(src, dst, 17, 8 + len(data)) + h + data)
    if c == 0:
        c = 0xFFFF
    if bad_csum:
        c ^= 0x0101
    if force_csum is not None:
        c = force_csum
    return h[:6] + struct.pack(">H", c) + data


def ip_packet(src, dst, proto, l4, ident=1, ttl=64):
    if len(src) == 16:
        return struct.pack(">IHBB", 6 << 28, len(l4), proto, ttl) + src + dst + l4
    h = struct.pack(">BBHHHBBH", 0x45, 0, 20 + len(l4), ident & 0xFFFF, 0, ttl, proto, 0) + src + dst
    return h[:10] + struct.pack(">H", csum(h)) + h[12:] + l4


def ether(smac, dmac, ip):
    v6 = (ip[0] >> 4) == 6
    return dmac + smac + (b"\x86\xdd" if v6 else b"\x08\x00") + ip


def tcp_frame(smac, dmac, src, dst, sport, dport, seq, ack, flags, data, **kw):
    src, dst = ipb(src), ipb(dst)
    return ether(smac, dmac, ip_packet(src, dst, 6, tcp_segment(src, dst, sport, dport, seq, ack, flags, data, **kw)))


def udp_frame(smac, dmac, src, dst, sport, dport, data, **kw):
    src, dst = ipb(src), ipb(dst)
    return ether(smac, dmac, ip_packet(src, dst, 17, udp_datagram(src, dst, sport, dport, data, **kw)))


# ----------------------------------------------------------------------------- containers (writers)
def _block(e, typ, body):
    body += b"\0" * ((-len(body)) % 4)
    n = 12 + len(body)
    return struct.pack(e + "II", typ, n) + body + struct.pack(e + "I", n)


def _opt(e, code, val):
    return struct.pack(e + "HH", code, len(val)) + val + b"\0" * ((-len(val)) % 4)


def pcapng(items, be=False, tsresol=None, tsoffset=0, extra_blocks=False, shb_opts=False):
    """items: ('pkt', ts_us:int, frame:bytes) | ('dsb', keylog:bytes).
    tsresol: None (no option, µs default) or the raw if_tsresol byte (k for 10^-k, 0x80|k for 2^-k)."""
    e = ">" if be else "<"
    shb = struct.pack(e + "IHHq", 0x1A2B3C4D, 1, 0, -1)
    if shb_opts:
        shb += _opt(e, 4, b"tlx-harness") + _opt(e, 0, b"")
    out = _block(e, 0x0A0D0D0A, shb)
    opts = b""
    if tsresol is not None:
        opts += _opt(e, 9, bytes([tsresol & 0xFF]))
    if tsoffset:
        opts += _opt(e, 14, struct.pack(e + "q", tsoffset))
    if opts:
        opts += _opt(e, 0, b"")
    out += _block(e, 1, struct.pack(e + "HHI", 1, 0, 65535) + opts)
    res = 6 if tsresol is None else tsresol
    for it in items:
        if extra_blocks:
            out += _block(e, 4, struct.pack(e + "HH", 0, 0))          # empty name-resolution block
            out += _block(e, 0x00000BAD, struct.pack(e + "I", 32473) + b"custom!!")   # custom block
        if it[0] == "dsb":
            out += _block(e, 0xA, struct.pack(e + "II", 0x544C534B, len(it[1])) + it[1] + b"\0" * ((-len(it[1])) % 4))
        else:
            _, us, frame = it
            us -= tsoffset * 1000000
            if res & 0x80:
                ticks = us * (2 ** (res & 0x7F)) // 1000000
            else:
                ticks = us * (10 ** res) // 1000000
            out += _block(e, 6, struct.pack(e + "IIIII", 0, ticks >> 32, ticks & 0xFFFFFFFF, len(frame), len(frame)) + frame)
    if extra_blocks:
        out += _block(e, 5, struct.pack(e + "III", 0, 0, 0))           # interface statistics block
    return out


def pcap_legacy(items, be=False, nano=False):
    e = ">" if be else "<"
    out = struct.pack(e + "IHHiIII", 0xA1B23C4D if nano else 0xA1B2C3D4, 2, 4, 0, 0, 65535, 1)
    for it in items:
        if it[0] != "pkt":
            continue
        _, us, frame = it
        out += struct.pack(e + "IIII", us // 1000000, (us % 1000000) * (1000 if nano else 1), len(frame), len(frame)) + frame
    return out


# ----------------------------------------------------------------------------- strict pcapng reader
def read_pcapng_strict(data):
    """Returns [(ts_us:int, frame:bytes)]; raises FrameError on any structural defect."""
    if len(data) < 28:
        raise FrameError("file shorter than a section header block")
    if data[:4] != b"\x0a\x0d\x0d\x0a":
        raise FrameError("no section header block at start")
    bom = data[8:12]
    if bom == b"\x4d\x3c\x2b\x1a":
        e = "<"
    elif bom == b"\x1a\x2b\x3c\x4d":
        e = ">"
    else:
        raise FrameError("bad byte-order magic")
    pos, out, ifaces = 0, [], []
    first = True
    while pos < len(data):
        if len(data) - pos < 12:
            raise FrameError("trailing bytes shorter than a block")
        typ, n = struct.unpack_from(e + "II", data, pos)
        if n < 12 or n % 4 or pos + n > len(data):
            raise FrameError(f"block length {n} invalid at {pos}")
        if struct.unpack_from(e + "I", data, pos + n - 4)[0] != n:
            raise FrameError("block trailer length mismatch")
        body = data[pos + 8:pos + n - 4]
        if first and typ != 0x0A0D0D0A:
            raise FrameError("first block is not SHB")
        first = False
        if typ == 0x0A0D0D0A:
            magic, major, minor = struct.unpack_from(e + "IHH", body, 0)
            if magic != 0x1A2B3C4D or major != 1:
                raise FrameError("SHB magic/version")
            ifaces = []
        elif typ == 1:
            if len(body) < 8:
                raise FrameError("short IDB")
            linktype, _, snaplen = struct.unpack_from(e + "HHI", body, 0)
            res = 6
            p = 8
            while p + 4 <= len(body):
                code, ln = struct.unpack_from(e + "HH", body, p)
                val = body[p + 4:p + 4 + ln]
                if code == 0:
                    break
                if code == 9 and ln == 1:
                    res = val[0]
                p += 4 + ln + ((-ln) % 4)
            ifaces.append((linktype, snaplen, res))
        elif typ == 6:
            if len(body) < 20:
                raise FrameError("short EPB")
            iface, hi, lo, cap, orig = struct.unpack_from(e + "IIIII", body, 0)
            if iface >= len(ifaces):
                raise FrameError("EPB refers to an undefined interface")
            if 20 + cap > len(body):
                raise FrameError("EPB captured length exceeds block")
            linktype, snaplen, res = ifaces[iface]
            if linktype != 1:
                raise FrameError("link type is not Ethernet")
            if snaplen and cap > snaplen:
                raise FrameError("captured length exceeds snaplen")
            if cap != orig:
                raise FrameError("captured length differs from original length")
            ticks = (hi << 32) | lo
            if res & 0x80:
                us = ticks * 1000000 // (2 ** (res & 0x7F))
            else:
                us = ticks * 1000000 // (10 ** res)
            out.append((us, body[20:20 + cap]))
        pos += n
    if not ifaces and out:
        raise FrameError("packets without interface")
    return out


# ----------------------------------------------------------------------------- strict frame parser
def parse_frame(frame):
    """Ethernet/IPv4|IPv6/TCP|UDP with all length fields and checksums verified. Returns a dict."""
    if len(frame) < 14:
        raise FrameError("frame shorter than an Ethernet header")
    dmac, smac, et = frame[:6], frame[6:12], frame[12:14]
    ip = frame[14:]
    if et == b"\x08\x00":
        if len(ip) < 20 or ip[0] >> 4 != 4:
            raise FrameError("bad IPv4 header")
        ihl = (ip[0] & 15) * 4
        tot = struct.unpack_from(">H", ip, 2)[0]
        if ihl < 20 or tot != len(ip) or tot < ihl:
            raise FrameError(f"IPv4 total length {tot} != {len(ip)}")
        if ones_sum(ip[:ihl]) != 0xFFFF:
            raise FrameError("IPv4 header checksum")
        if struct.unpack_from(">H", ip, 6)[0] & 0x3FFF:
            raise FrameError("IPv4 fragment")
        proto, src, dst, l4 = ip[9], ip[12:16], ip[16:20], ip[ihl:]
        v6 = False
    elif et == b"\x86\xdd":
        if len(ip) < 40 or ip[0] >> 4 != 6:
            raise FrameError("bad IPv6 header")
        plen = struct.unpack_from(">H", ip, 4)[0]
        if plen != len(ip) - 40:
            raise FrameError(f"IPv6 payload length {plen} != {len(ip) - 40}")
        proto, src, dst, l4 = ip[6], ip[8:24], ip[24:40], ip[40:]
        v6 = True
    else:
        raise FrameError("ethertype is neither IPv4 nor IPv6")
    d = {"smac": smac, "dmac": dmac, "v6": v6, "src": src, "dst": dst, "proto": proto}
    if proto == 6:
        if len(l4) < 20:
            raise FrameError("short TCP header")
        sport, dport, seq, ack, offb, flags, win, ck, urg = struct.unpack_from(">HHIIBBHHH", l4, 0)
        off = (offb >> 4) * 4
        if off < 20 or off > len(l4):
            raise FrameError("TCP data offset")
        if ones_sum(pseudo(src, dst, 6, len(l4)) + l4) != 0xFFFF:
            raise FrameError("TCP checksum")
        d.update(sport=sport, dport=dport, seq=seq, ack=ack, flags=flags, payload=l4[off:])
    elif proto == 17:
        if len(l4) < 8:
            raise FrameError("short UDP header")
        sport, dport, ulen, ck = struct.unpack_from(">HHHH", l4, 0)
        if ulen != len(l4):
            raise FrameError(f"UDP length {ulen} != {len(l4)}")
        if ck == 0:
            if v6:
                raise FrameError("UDP/IPv6 without checksum")
        elif ones_sum(pseudo(src, dst, 17, len(l4)) + l4) != 0xFFFF:
            raise FrameError("UDP checksum")
        d.update(sport=sport, dport=dport, payload=l4[8:])
    else:
        raise FrameError(f"IP protocol {proto} is neither TCP nor UDP")
    return d


def read_output(data):
    """Strictly decode the tool's output file: [(ts_us, parsed frame dict)]."""
    return [(us, parse_frame(fr)) for us, fr in read_pcapng_strict(data)]


# ----------------------------------------------------------------------------- conversations
SYN, ACK, PSH = 0x02, 0x10, 0x08


def flow_key(p):
    a, b = (p["src"], p["sport"]), (p["dst"], p["dport"])
    return (p["proto"],) + (a + b if a <= b else b + a)


def tcp_conversations(pkts):
    """pkts: [(ts_us, frame dict)] of one output file. Checks every TCP conversation strictly:
    opens SYN / SYN-ACK / ACK, data in gap-free non-overlapping sequence space, acknowledgements never ahead of
    what the peer sent and exact for the pure ACKs the tool emits. Returns
    {flow_key: {'client': (ip, port), 'server': (ip, port), 'c2s': bytes, 's2c': bytes,
                'segments': [(dir, ts_us, payload)], 'macs': {...}, 'hs_ts': [ts×3]}}.
    Raises FrameError."""
    convs = {}
    for us, p in pkts:
        if p["proto"] != 6:
            continue
        k = flow_key(p)
        c = convs.get(k)
        fl = p["flags"]
        if c is None:
            if fl & 0x3F != SYN:
                raise FrameError("TCP conversation does not start with SYN")
            convs[k] = c = {"state": 1, "client": (p["src"], p["sport"]), "server": (p["dst"], p["dport"]),
                            "cisn": p["seq"], "c2s": bytearray(), "s2c": bytearray(), "segments": [],
                            "cmac": p["smac"], "smac": p["dmac"], "hs_ts": [us], "v6": p["v6"]}
            continue
        from_client = (p["src"], p["sport"]) == c["client"]
        if (p["smac"], p["dmac"]) != ((c["cmac"], c["smac"]) if from_client else (c["smac"], c["cmac"])):
            raise FrameError("MAC addresses not oriented with the packet direction")
        if c["state"] == 1:
            if from_client or fl & 0x3F != (SYN | ACK) or p["ack"] != (c["cisn"] + 1) & 0xFFFFFFFF:
                raise FrameError("second packet is not a matching SYN-ACK")
            c["sisn"] = p["seq"]
            c["state"] = 2
            c["hs_ts"].append(us)
            continue
        if c["state"] == 2:
            if (not from_client or fl & 0x3F != ACK or p["seq"] != (c["cisn"] + 1) & 0xFFFFFFFF
                    or p["ack"] != (c["sisn"] + 1) & 0xFFFFFFFF or p["payload"]):
                raise FrameError("third packet does not complete the handshake")
            c["state"] = 3
            c["hs_ts"].append(us)
            continue
        if fl & SYN:
            raise FrameError("SYN inside an established conversation")
        if not fl & ACK:
            raise FrameError("segment without ACK flag")
        mine, peer = ("c2s", "s2c") if from_client else ("s2c", "c2s")
        my_isn, peer_isn = (c["cisn"], c["sisn"]) if from_client else (c["sisn"], c["cisn"])
        exp_seq = (my_isn + 1 + len(c[mine])) & 0xFFFFFFFF
        if p["seq"] != exp_seq:
            raise FrameError(f"sequence number {p['seq']} but {exp_seq} expected (gap or overlap)")
        peer_sent = (peer_isn + 1 + len(c[peer])) & 0xFFFFFFFF
        if p["ack"] != peer_sent:
            raise FrameError(f"acknowledgement {p['ack']} but the peer has sent up to {peer_sent}")
        if p["payload"]:
            c[mine] += p["payload"]
            c["segments"].append((mine, us, bytes(p["payload"])))
    for k, c in convs.items():
        if c["state"] != 3:
            raise FrameError("TCP conversation without a complete three-way handshake")
        c["c2s"], c["s2c"] = bytes(c["c2s"]), bytes(c["s2c"])
    return convs


def udp_flows(pkts):
    """{flow_key: [(src, sport, dst, dport, ts_us, payload, smac, dmac)]} in file order."""
    flows = {}
    for us, p in pkts:
        if p["proto"] == 17:
            flows.setdefault(flow_key(p), []).append(
                {"src": p["src"], "sport": p["sport"], "dst": p["dst"], "dport": p["dport"], "ts": us,
                 "payload": bytes(p["payload"]), "smac": p["smac"], "dmac": p["dmac"], "v6": p["v6"]})
    return flows
