"""C16 — QUIC packet numbers are reconstructed as RFC 9000 Appendix A.3 defines.

proof:          lean/TLX/Props/C16.lean  (pn_decode_eq_rfc, pn_decode_window, pn_space_isolation, …)
correspondence: Lean `Quic.PktNum.step` vs the real `QuicSession.get_full_packet_number`
oracle:         the real method vs an independent transcription of RFC 9000 A.3 (below)
"""
import types

import fw

THEOREMS = ["TLX.Props.C16.pn_decode_eq_rfc", "TLX.Props.C16.pn_decode_window",
            "TLX.Props.C16.pn_space_isolation", "TLX.Props.C16.pn_entry_is_max",
            "TLX.Props.C16.pn_decode_reads_own_entry", "TLX.Props.C16.rfc_window"]

TYPES = ["i", "h", "z", "o"]
SPACE = {"i": 0, "h": 1, "z": 2, "o": 2}


def rfc_a3(largest_pn, truncated_pn, pn_nbits):
    """RFC 9000 Appendix A.3, transcribed literally."""
    expected_pn = largest_pn + 1
    pn_win = 1 << pn_nbits
    pn_hwin = pn_win // 2
    pn_mask = pn_win - 1
    candidate_pn = (expected_pn & ~pn_mask) | truncated_pn
    if candidate_pn <= expected_pn - pn_hwin and candidate_pn < (1 << 62) - pn_win:
        return candidate_pn + pn_win
    if candidate_pn > expected_pn + pn_hwin and candidate_pn >= pn_win:
        return candidate_pn - pn_win
    return candidate_pn


class Impl:
    """The real method on a bare QuicSession object (no capture needed)."""

    def __init__(self):
        from tlexport.quic.quic_session import QuicSession, PACKET_TYPE_MAP
        from tlexport.quic.quic_packet import QuicPacketType
        self.QuicSession = QuicSession
        self.map = PACKET_TYPE_MAP
        self.pt = {"i": QuicPacketType.INITIAL, "h": QuicPacketType.HANDSHAKE, "z": QuicPacketType.RTT_O,
                   "o": QuicPacketType.RTT_1}
        self.reset()

    def reset(self):
        self.s = self.QuicSession.__new__(self.QuicSession)
        self.s.set_packet_number_spaces()

    def table(self, srv):
        return self.s.packet_number_server if srv else self.s.packet_number_client

    def set(self, srv, ty, largest):
        self.table(srv)[self.map[self.pt[ty]]] = largest

    def get(self, srv, ty):
        return self.table(srv)[self.map[self.pt[ty]]]

    def call(self, srv, ty, n, trunc, authentic=True):
        """what decrypt_packet does with the packet number of a packet: reconstruct it and — for a packet that passes the
        AEAD check — let it move the largest number of its space (one method before /repo 45c871e, two since)"""
        pkt = types.SimpleNamespace(isserver=bool(srv), packet_type=self.pt[ty],
                                    packet_num=trunc.to_bytes(n, "big"))
        out = self.s.get_full_packet_number(pkt)
        if authentic and hasattr(self.s, "set_largest_packet_number"):
            self.s.set_largest_packet_number(pkt, out)
        return int.from_bytes(out, "big")


def boundary_cases(ctx):
    """±3 around every window boundary for 64 magnitudes × 4 lengths (exhaustive sub-space)."""
    cases = []
    mags = list(range(0, 62)) + [61, 61]
    for mag in mags:
        for n in (1, 2, 3, 4):
            W = 1 << (8 * n)
            base = (1 << mag) + ctx.rng.randrange(0, max(1, 1 << max(0, mag - 1)))
            for largest in (base, base - base % W, base - base % W + W - 1, base - base % W + W // 2):
                if not 0 <= largest < (1 << 62) - 1:
                    continue
                exp = largest + 1
                for centre in (exp - W // 2, exp + W // 2, exp, exp - exp % W, exp - exp % W + W):
                    for d in range(-3, 4):
                        pn = centre + d
                        if 0 <= pn < (1 << 62):
                            cases.append((largest, n, pn % W))
    # extremes
    for n in (1, 2, 3, 4):
        W = 1 << (8 * n)
        for largest in (0, 1, W // 2 - 1, W // 2, W - 1, W, (1 << 62) - 2, (1 << 62) - W - 1, (1 << 62) - W,
                        (1 << 53) - 1, 1 << 53, (1 << 53) + 1, (1 << 54) + 3, 39928149188004483):
            for t in (0, 1, W // 2 - 1, W // 2, W // 2 + 1, W - 1, 19076 % W):
                cases.append((largest, n, t))
    return cases


def random_cases(ctx, k):
    out = []
    for _ in range(k):
        mag = ctx.rng.randrange(0, 62)
        largest = ctx.rng.randrange(1 << mag, min((1 << 62) - 1, 1 << (mag + 1)))
        if ctx.rng.random() < 0.1:
            largest = ctx.rng.randrange(0, 300)
        n = ctx.rng.choice((1, 2, 3, 4))
        out.append((largest, n, ctx.rng.randrange(0, 1 << (8 * n))))
    return out


def histories(ctx, k):
    """Packet histories with gaps and reordering over all (direction, type) pairs."""
    hs = []
    for _ in range(k):
        nxt = {}
        h = []
        start_big = ctx.rng.random() < 0.3
        for _ in range(ctx.rng.randrange(5, 60)):
            srv = ctx.rng.randrange(2)
            ty = ctx.rng.choice(TYPES)
            key = (srv, SPACE[ty])
            if key not in nxt:
                nxt[key] = ctx.rng.randrange(0, 1 << ctx.rng.randrange(1, 61)) if start_big else ctx.rng.randrange(0, 3)
            r = ctx.rng.random()
            if r < 0.6:
                pn = nxt[key]
                nxt[key] += 1
            elif r < 0.8:  # gap
                pn = nxt[key] + ctx.rng.randrange(1, 200)
                nxt[key] = pn + 1
            else:  # reordered / retransmitted old number
                pn = max(0, nxt[key] - ctx.rng.randrange(1, 100))
            n = ctx.rng.choice((1, 2, 3, 4))
            h.append((srv, ty, n, pn % (1 << (8 * n))))
        hs.append(h)
    return hs


def run_single(ctx, impl, cases, point):
    """Single-step cases: largest is planted in the table, then one decode."""
    lines, exp_impl = [], []
    p = ctx.point(point)
    for (largest, n, t) in cases:
        srv, ty = ctx.rng.randrange(2), ctx.rng.choice(TYPES)
        impl.reset()
        impl.set(srv, ty, largest)
        try:
            got = impl.call(srv, ty, n, t)
            tab = impl.get(srv, ty)
            res = f"{got} {tab}"
        except Exception as e:  # noqa
            got, res = None, f"crash:{type(e).__name__}"
        lines += ["pnreset", f"pnset {srv} {ty} {largest}", f"pn {srv} {ty} {n} {t}"]
        exp_impl.append(res)
        want = rfc_a3(largest, t, 8 * n)
        ctx.count((largest, n, t), nontrivial=(want != t))
        ctx.hist("pn_len", n)
        ctx.hist("branch", "plus" if want > ((largest + 1) & ~((1 << 8 * n) - 1)) | t else
                 "minus" if want < ((largest + 1) & ~((1 << 8 * n) - 1)) | t else "same")
        ctx.hist("largest_bits", largest.bit_length() // 8 * 8)
        if got != want:
            ctx.fail("C16:{single}:decode-ne-rfc", "get_full_packet_number differs from RFC 9000 A.3",
                     {"largest": largest, "pn_len": n, "truncated": t, "srv": srv, "type": ty},
                     expected=want, actual=res, how="bin/check C16 --replay <this file>")
        elif tab != max(largest, want):
            ctx.fail("C16:{single}:table-not-max", "largest-received entry is not the maximum decoded so far",
                     {"largest": largest, "pn_len": n, "truncated": t, "srv": srv, "type": ty},
                     expected=max(largest, want), actual=res)
        p["cases"] += 1
    replies = ctx.driver("pn", lines)
    for i, (case, r_impl) in enumerate(zip(cases, exp_impl)):
        r_model = replies[3 * i + 2]
        if r_model != r_impl:
            ctx.disagree(point, {"largest": case[0], "pn_len": case[1], "truncated": case[2]}, r_impl, r_model)
    if cases:
        ctx.sample({"single": {"largest": cases[0][0], "pn_len": cases[0][1], "truncated": cases[0][2]},
                    "impl": exp_impl[0], "model": replies[2]})


def run_histories(ctx, impl, hs, point):
    p = ctx.point(point)
    for h in hs:
        impl.reset()
        lines, rimpl = ["pnreset"], ["ok"]
        largest = {}
        for (srv, ty, n, t) in h:
            key = (srv, SPACE[ty])
            if ctx.rng.random() < 0.15:
                # a packet that does NOT pass the AEAD check (wrong keys, damage): RFC 9000 A.3's largest_pn is the largest
                # SUCCESSFULLY processed number, so the entry must stay
                n2 = ctx.rng.choice([1, 2, 3, 4])
                t2 = ctx.rng.randrange(1 << (8 * n2))
                try:
                    impl.call(srv, ty, n2, t2, authentic=False)
                    after = impl.get(srv, ty)
                except Exception as e:  # noqa
                    after = f"crash:{type(e).__name__}"
                if after != largest.get(key, 0):
                    ctx.fail("C16:{history}:unauthenticated-moves-largest",
                             "a packet that fails authentication moved the largest packet number of its space",
                             {"history": h, "at": len(lines) - 1, "rejected": [srv, ty, n2, t2]},
                             expected=largest.get(key, 0), actual=after)
                    break
            want = rfc_a3(largest.get(key, 0), t, 8 * n)
            try:
                got = impl.call(srv, ty, n, t)
                res = f"{got} {impl.get(srv, ty)}"
            except Exception as e:  # noqa
                got, res = None, f"crash:{type(e).__name__}"
            if got != want:
                ctx.fail("C16:{history}:decode-ne-rfc",
                         "get_full_packet_number differs from RFC 9000 A.3 within a packet history",
                         {"history": h, "at": len(lines) - 1}, expected=want, actual=res)
                break
            # other entries must be untouched: compared through the model's table on later steps
            largest[key] = max(largest.get(key, 0), want)
            lines.append(f"pn {srv} {ty} {n} {t}")
            rimpl.append(res)
        replies = ctx.driver("pn", lines)
        p["cases"] += 1
        ctx.count(tuple(h), nontrivial=len({(s, SPACE[t]) for s, t, _, _ in h}) >= 2)
        ctx.hist("history_len", len(h) // 10 * 10)
        if replies != rimpl:
            i = next(i for i, (a, b) in enumerate(zip(replies, rimpl)) if a != b)
            ctx.disagree(point, {"history": h, "at": i}, rimpl[i], replies[i])
    if hs:
        ctx.sample({"history": hs[0][:8]})

# ------------------------------------------------------------------------------------------------------------------
# connection level: whole QUIC connections from the independent sender through the real tool; every packet number the
# tool hands to QuicDecryptor.decrypt (= the AEAD nonce) is compared with the number the sender sealed that very
# ciphertext with (the sender's encodings are conformant: RFC 9000 A.3 applied to what the receiver has processed
# yields the sender's number — asserted below). Scenario scripts aim at histories the bare-object runs cannot reach:
# a Retry after the Initial space crossed a window boundary (packet numbers are NOT reset by a Retry, RFC 9000
# 17.2.5.3), an authenticated packet whose frames the tool cannot parse carrying the space over a boundary, jumps of
# exactly half a window after a 4-byte encoding.
def _connection(kind, seed):
    import random
    import gen_quic
    rng = random.Random(seed)
    suite = [0x1301, 0x1302, 0x1303, 0x1304][seed % 4]
    if kind == "random":
        feats = [{"retry": True}, {"pn_half": True, "retry": False}, {"pn_big": True}, {"long": True, "reorder": False},
                 {"retry": True, "zero_rtt": True, "early_suite_first": True}][seed % 5]
        c, _ = gen_quic.random_connection(rng, 0, suite=suite, features=dict(feats))
        return c
    c = gen_quic.QConn(rng, suite=suite, offer=[suite] + [x for x in (0x1301, 0x1302, 0x1303, 0x1304) if x != suite],
                       cport=40000 + seed % 20000, scid_c_len=rng.choice([0, 4, 8, 20]), scid_s_len=rng.choice([4, 8, 16]))
    offs = {}

    def data(d, pnlen=1, jump=0, n=None):
        b = rng.randbytes(n or rng.randrange(1, 120))
        off = offs.get(d, 0)
        offs[d] = off + len(b)
        c.app(d, [(0, off, b, False)], pnlen=pnlen, jump=jump)

    if kind == "retry-after-boundary":
        orig, st = c.q_initial, {"n": 0}
        far = rng.choice([300, 257, 129 + 256, 70000])

        def qi(from_server, frames, pnlen=1, **kw):
            r = orig(from_server, frames, pnlen=pnlen, **kw)
            if not from_server and st["n"] == 0:
                st["n"] = 1
                # the client probes again before the Retry arrives: PINGs, the last one far ahead (2- or 3-byte encoding)
                c.flush(0)
                orig(0, b"\x01", pnlen=1, pad_to=1162)
                c.flush(0)
                orig(0, b"\x01", pnlen=3 if far > 30000 else 2, pad_to=1162, jump=far - c.pn.get("ci", 0))
            return r
        c.q_initial = qi
        c.handshake(retry=True)
        c.q_initial = orig
        for i in range(4):
            data(i % 2)
    elif kind == "unparsable-over-boundary":
        c.handshake()
        for d in (0, 1):
            data(d)
        for d in (0, 1):
            far = rng.choice([300, 257, 129 + 256])
            # an authenticated packet ending in a frame type the tool has no class for (IMMEDIATE_ACK, 0x1f): it still is
            # the largest successfully processed packet of its space
            c.q_1rtt(d, b"\x01\x1f", pnlen=2, jump=far - c.pn.get("sa" if d else "ca", 0))
            c.flush(d)
        for i in range(6):
            data(i % 2, pnlen=1)
    elif kind == "half-window-after-wide":
        c.handshake()
        for d in (0, 1):
            data(d)
        for d in (0, 1):
            data(d, pnlen=4, jump=rng.randrange(1 << 16, 1 << 24))
            data(d, pnlen=2, jump=0x8000)                     # exactly expected + half a window: stays (RFC A.3 uses >)
            data(d, pnlen=1, jump=0x80)
            data(d, pnlen=3, jump=0x800000)
        for i in range(4):
            data(i % 2)
    else:
        raise ValueError(kind)
    return c


def connection_job(job):
    import logging
    logging.disable(logging.CRITICAL)
    import gen_quic
    import tool
    import wire
    kind, seed = job
    sealed = {}
    orig_seal = gen_quic.Keys.seal

    def seal(self, pn, hdr, pt):
        ct = orig_seal(self, pn, hdr, pt)
        sealed[bytes(ct)] = pn
        return ct
    gen_quic.Keys.seal = seal
    try:
        c = _connection(kind, seed)
    finally:
        gen_quic.Keys.seal = orig_seal
    import tlexport.quic.quic_decryptor as qd
    calls = []
    orig_dec = qd.QuicDecryptor.decrypt

    def dec(self, ciphertext, packet_number, associated_data, isserver):
        calls.append((bytes(ciphertext), int.from_bytes(packet_number, "big"), bool(isserver)))
        return orig_dec(self, ciphertext, packet_number, associated_data, isserver)
    qd.QuicDecryptor.decrypt = dec
    cap = wire.pcapng(c.items)
    kl = "\n".join(c.keylog_lines()) + "\n"
    try:
        r = tool.run(cap, kl)
    finally:
        qd.QuicDecryptor.decrypt = orig_dec
    prob = None
    seen = 0
    for ct, pn, srv in calls:
        if ct in sealed:
            seen += 1
            if sealed[ct] != pn and prob is None:
                prob = ("nonce-ne-sender", f"a {'server' if srv else 'client'} packet sealed with packet number {sealed[ct]} was opened with "
                        f"{pn} as nonce (decrypt call #{seen} of the run)", sealed[ct], pn)
    blob = None
    if prob:
        blob = {"capture_hex": cap.hex(), "keylog": kl, "kind": kind, "seed": seed}
    return kind, seed, prob, blob, seen, len(sealed)


def run_connections(ctx, scale=1):
    import tool
    p = ctx.point("pn.connections (AEAD nonce of every packet of whole connections vs the sender's packet number)")
    kinds = ["retry-after-boundary", "unparsable-over-boundary", "half-window-after-wide", "random"]
    n = ctx.n(6, 40) * scale
    base = ctx.rng.randrange(1 << 20)
    jobs = [(k, base + i) for k in kinds for i in range(n)]
    for kind, seed, prob, blob, seen, total in tool.pmap(connection_job, jobs):
        p["cases"] += 1
        ctx.count((kind, seed), nontrivial=seen >= 8)
        ctx.hist("connection_kind", kind)
        ctx.hist("packets_opened_of_sealed", f"{min(10, 10 * seen // max(1, total))}/10")
        if prob:
            sig, what, want, got = prob
            ctx.fail("C16:{connection,%s}:%s" % (kind, sig), what, blob, expected=want, actual=got)
    ctx.sample({"connection_kinds": kinds, "per_kind": n})


def explore(ctx, scale=1):
    impl = Impl()
    run_single(ctx, impl, boundary_cases(ctx), "pn.boundaries")
    run_single(ctx, impl, random_cases(ctx, ctx.n(3000, 200000) * scale), "pn.random")
    run_histories(ctx, impl, histories(ctx, ctx.n(150, 5000) * scale), "pn.histories")
    run_connections(ctx, scale)


def run(ctx):
    ctx.rule = ("single-step cases: (largest, encoded length, truncated value) with largest planted in the "
                "(direction, space) table — ±3 around every window boundary for 64 magnitudes × 4 lengths plus "
                "log-uniform random largest in [0, 2^62); non-trivial iff RFC A.3 returns something other than the "
                "truncated value. Histories: 5–60 packets over all (direction, type) pairs with gaps and reordering; "
                "non-trivial iff ≥ 2 packet-number spaces/directions are interleaved. Distinct = distinct case tuples.")
    ctx.assumptions = ["QuicSession.get_full_packet_number is driven on a bare object with duck-typed packets "
                       "(isserver, packet_type, packet_num) — the way decrypt_packet calls it"]
    import translate                 # decision-logic functions re-translated from the source and proved equal to the model
    _tm, _tt = translate.wire(ctx, "C16")
    import oncode_thms               # the property theorems stated on the regenerated definitions themselves (Props/OnCode)
    _om, _ot = oncode_thms.wire("C16")
    _tm, _tt = _tm + _om, _tt + _ot
    ctx.prove(["TLX.Props.C16"] + _tm)
    ctx.require_theorems(_tt)
    ctx.require_theorems(THEOREMS)
    explore(ctx)
    return ctx.finish(search=lambda c: explore(c, scale=4))


def replay(ctx, obj):
    impl = Impl()
    c = obj["case"]
    if "capture_hex" in c:
        kind, seed, prob, blob, seen, total = connection_job((c["kind"], c["seed"]))
        if prob:
            ctx.fail("C16:{connection,%s}:%s" % (kind, prob[0]), prob[1], blob, expected=prob[2], actual=prob[3])
    elif "history" in c:
        run_histories(ctx, impl, [[tuple(x) for x in c["history"]]], "replay")
    else:
        ctx.rng.randrange = lambda *a: c.get("srv", 0)
        ctx.rng.choice = lambda seq: c.get("type", "o")
        run_single(ctx, impl, [(c["largest"], c["pn_len"], c["truncated"])], "replay")
    for f in ctx.failures:
        print("REPLAY-FAIL", f["what"], f["case"], "expected", f["expected"], "actual", f["actual"])
    print("REPLAY", "fails" if ctx.failures else "passes")
    return 1 if ctx.failures else 0
